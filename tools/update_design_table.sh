#!/bin/bash
# Regenerates the seeded-changes table at the end of DESIGN.md from seeded/*/meta.json
cd "$(dirname "$0")/.."
python3 - <<'PY'
import subprocess
s=open('DESIGN.md').read()
i=s.index('<!-- seeded-table -->')
t=subprocess.check_output(['python3','tools/seeded_table.py']).decode()
open('DESIGN.md','w').write(s[:i]+'<!-- seeded-table -->\n'+t)
PY
