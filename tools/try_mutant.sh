#!/bin/bash
# usage: tools/try_mutant.sh <Cnn> <patch.diff> [extra bin/check args]
# Applies a seeded change to /repo, runs the property's check, and ALWAYS restores /repo.
P=$1; PATCH=$2; shift 2
cd /repo || exit 9
if [ -n "$(git status --porcelain -- src)" ]; then echo "repo/src dirty, refusing"; exit 9; fi
if ! git apply --3way "$PATCH" 2>/tmp/apply.err && ! patch -p1 --fuzz=3 -s < "$PATCH"; then
  echo "PATCH DOES NOT APPLY"; cat /tmp/apply.err; git reset -q; git checkout -- . ; git clean -fdq src; exit 8
fi
git reset -q
cd /verif
START=$(date +%s)
bin/check "$P" "$@" > /tmp/mut_$P.out 2>&1; RC=$?
END=$(date +%s)
git -C /repo checkout -- .
git -C /repo clean -fdq src
grep -E "^VIOLATION|^HARNESS|^INCONCLUSIVE|tier=" /tmp/mut_$P.out | cut -c1-300 | head -12
echo "exit=$RC secs=$((END-START)) repo_clean=$([ -z "$(git -C /repo status --porcelain -- src)" ] && echo yes || echo NO)"
