NOTES = ("All checks are solver-based (DESIGN.md): symbolic execution of the real /repo/src Python code, verdicts are per bounded "
         "obligation. Exit 0 = nothing violated among what was explored (inconclusive obligations are listed, never counted as "
         "discharged); exit 1 = a solver model that reproduced natively; exit 2 = harness not to be believed. The pure-Python "
         "implementations only: the Cython twins cannot be built in this sandbox. Quick tier: about 1-3 min per property on 16 cores; "
         "thorough tier: 10-30 min per property.")

_E1 = "bounded symbolic execution (CrossHair/z3) of the real code, all paths within stated exact-length slices; models replayed natively"

CLAIMED = {
    "C02": dict(engine="chx", category="model_checking",
                text="Every string up to the stated length (all code points, both modes, 5 embedding contexts, chunk cuts) is decided by exhausting the "
                     "symbolic path tree of escape_text + Tokenizer; bounded, not a proof for longer strings.",
                note="Trusted: CrossHair's str/regex models, z3, the driver vf/chx.py; pure-Python tokenizer only; length bound 3 (quick) / 4 (thorough).",
                technique=_E1),
    "C18": dict(engine="chx", category="model_checking",
                text="All path strings up to the stated length over a separator/dot/name alphabet, through 10 entry points of RawFileSystem and a "
                     "prefixed FileSystemChain, are decided by exhausting the symbolic path tree; the oracle is the set of paths the code actually "
                     "touched on a model file system, resolved component-wise. Bounded (length 5 quick / 7 thorough).",
                note="Trusted: POSIX path model vf/stubs/pathmodel.py (validated against os.path each run), CrossHair, z3. No symlinks, no Windows semantics.",
                technique=_E1),
}
_TODO = "check not built yet in this round (planned: see DESIGN.md section 3)"
NOT_APPLICABLE = {f"C{i:02d}": _TODO for i in range(1, 21) if f"C{i:02d}" not in CLAIMED}
