NOTES = ("All checks are solver-based (DESIGN.md): symbolic execution of the real /repo/src Python code, verdicts are per bounded "
         "obligation. Exit 0 = nothing violated among what was explored (inconclusive obligations are listed, never counted as "
         "discharged); exit 1 = a solver model that reproduced natively; exit 2 = harness not to be believed. The pure-Python "
         "implementations only: the Cython twins cannot be built in this sandbox. Quick tier: about 1-3 min per property on 16 cores; "
         "thorough tier: 10-30 min per property.")

_E1 = "bounded symbolic execution (CrossHair/z3) of the real code, all paths within stated exact-length slices; models replayed natively"

CLAIMED = {
    "C02": dict(engine="chx", category="model_checking",
                text="Every string up to the stated length (all code points, both modes, 5 embedding contexts, chunk cuts) is decided by exhausting the "
                     "symbolic path tree of escape_text + Tokenizer; bounded, not a proof for longer strings.",
                note="Trusted: CrossHair's str/regex models, z3, the driver vf/chx.py; pure-Python tokenizer only; length bound 3 (quick) / 4 (thorough).",
                technique=_E1),
    "C18": dict(engine="chx", category="model_checking",
                text="All path strings up to the stated length over a separator/dot/name alphabet, through 11 entry points of RawFileSystem and a "
                     "prefixed FileSystemChain, are decided by exhausting the symbolic path tree; the oracle is the set of paths the code actually "
                     "touched on a model file system, resolved component-wise. Bounded (length 5 quick / 7 thorough).",
                note="Trusted: POSIX path model vf/stubs/pathmodel.py (validated against os.path each run), CrossHair, z3. No symlinks, no Windows semantics.",
                technique=_E1),
    "C04": dict(engine="symx", category="other",
                text="The real srctools.math methods are executed on symbolic reals (sin/cos as symbols with s^2+c^2=1, sqrt/atan2 by their defining "
                     "equations) and z3 decides each identity for ALL reals: SDK convention, proper rotation, every operand/operator mix, products, "
                     "Euler round trip incl. the 0.001 gimbal threshold; inverse()==transpose() on every proper rotation along each of the 92 decision "
                     "vectors of the Gauss-Jordan code (staged solver-proved lemmas: non-zero divisors, rational normal form, pivot-product identity). "
                     "Over the reals, not IEEE doubles.",
                note="Trusted: z3 nlsat, vf/symx.py, the transcribed SDK AngleMatrix reference, 'every rotation has Euler angles'. Rounding error, the "
                     "quantitative gimbal tolerance and the Cython/C++ twins are outside.",
                technique="symbolic execution of the real code on z3 Real terms (operator overloading + DFS over branches); validity queries in QF_NRA; models replayed with floats"),
    "C07": dict(engine="chx", category="model_checking",
                text="Every API-built pre-state of one subject entity (5 attachment situations x class x name x key spelling, with a colliding bystander) "
                     "followed by one (quick) or two (thorough) of 22 public operations, renames observed through search(), iteration while mutating and "
                     "VMF.parse: the path tree is exhausted and by_class/by_target/search() are compared with a scan of the map after every step. "
                     "Names/classes are solver-chosen indices into small lists (the indexes are real dicts), so this is exhaustion of a finite product.",
                note="Trusted: CrossHair, z3, vf/chx.py, stubs (intern identity, CopySet frozenset). Histories longer than two operations, double add and "
                     "direct dict writes are outside.",
                technique=_E1 + "; operation codes and names are symbolic indices"),
    "C08": dict(engine="symx+chx", category="model_checking",
                text="IDMan.get_id/discard/remove are proved as an inductive step from an arbitrary valid state for ALL integers (z3 Int, |used| <= 3/6): "
                     "fresh positive id, exact set update, invariant kept, loop bound. Object level: every prefix of <= 2/3 public operations (11 kinds, "
                     "desired ids by index) followed by a fixed recycle probe, parse with colliding ids, and EntityFixup index histories are exhausted "
                     "symbolically; per-kind uniqueness and positivity are asserted after every step.",
                note="Trusted: z3, vf/symx.py (SymZ/SymSet), CrossHair. NullIDMan maps exempt; longer histories outside; ids at object level come from a finite list.",
                technique="inductive step on z3 Int terms through the real IDMan code (operator overloading + DFS) and bounded symbolic execution of API histories (CrossHair)"),
    "C15": dict(engine="symx+chx", category="other",
                text="Per writable uncompressed pixel format the real save_*/load_* run on bit-vector terms and z3 decides load(save(p)) == documented "
                     "quantisation, idempotence and byte range for all 2^64 values of a 2x1 image; scale_down likewise for all texel values. Frame access "
                     "bounds, sheet sequences (boundary counts) and VTF.save/read structure (sizes, frames, depth, cubemaps, versions by index; concrete "
                     "pixels) are exhausted under CrossHair. Three open known findings (RGB565/BGR565 channel swap, mipmap_count == 0 when a side is 1).",
                note="Trusted: z3 BV, the quantisation table in vf/props/c15.py, memoryview->identity stub, CrossHair. DXT/ATI formats, the Cython codec and larger images are outside.",
                technique="real codec code executed on z3 BitVec(32) terms with no-overflow side obligations (validity queries); CrossHair for access bounds and file structure"),
    "C20": dict(engine="chx", category="model_checking",
                text="One round-trip family per format, all through the real writers and readers under symbolic execution: Hammer command sequences "
                     "(fixed-width fields for every ASCII string at lengths 0,1,2,W-1,W; whole files), scenes.image v2/v3 (sorted by checksum, summaries, "
                     "re-save identical), binary choreo scenes (19 event kinds), choreo text VCD, soundscripts, VMT materials, SMD meshes and PCF "
                     "particles (symbolic strings over all code points at exact lengths 0..2, enum members/optional blocks by index, floats concrete). "
                     "Two open known findings (soundscript stacks / VMT blocks written escaped into files read without escapes).",
                note="Trusted: CrossHair, z3, struct/BytesIO models (vf/stubs/binio.py), ==-based AssocDict for Material._params, float/int shims. Flex-animation "
                     "tracks in text VCD (reader not implemented), symbolic dict-key names, sample files under tests/ are outside.",
                technique=_E1),
    "C13": dict(engine="chx", category="model_checking",
                text="Two-session histories (add/overwrite/delete/new_file, modes w/a, per-session preload limits, archive indexes) on an in-memory file "
                     "system are explored symbolically and every save is reopened read-only and compared with a dict oracle, verify(), the three key "
                     "forms and an independent decoder; _get_file_parts/_join_file_parts on symbolic folder/name/ext strings; directory entries for all "
                     "32/16-bit field values; the 64 KiB preload boundary by fixed sizes. One open known finding (names ending in '..').",
                note="Trusted: CrossHair, z3, in-memory FS and path/struct models in vf/stubs/vpkmodel.py (self-tested each run); zlib.crc32 real, so payload "
                     "bytes are concrete with solver-chosen lengths. Large payloads as symbols, CRC collisions, VPK v2 are outside.",
                technique=_E1),
    "C05": dict(engine="fpk+symx+chx", category="other",
                text="Range: every store to an Angle field in math.py is found by ast and translated to a Float64 term (Python % by the fmod contract); z3 "
                     "proves 0 <= value < 360 for ALL finite doubles at every site, which gives the invariant after any history by induction. Frozen/copies: "
                     "74 operator/method applications on frozen operands run on symbolic reals and z3 proves the operand unchanged; copy/freeze/thaw "
                     "independence likewise. Text: format_float/str/join run under CrossHair on a model float whose '%.6f' output is solver-chosen.",
                note="Trusted: z3 FP theory and nlsat, the fmod contract and the atan2 range abstraction, the ast scanner (stores via setattr would make it "
                     "inconclusive), ModelFloat's formatter contract. NaN/inf, decimal<->binary conversion in C, parse_vec_str and the Cython twins are outside.",
                technique="per-write-site SMT floating-point queries generated from the current source (ast -> z3 Float64); real operators on z3 Real terms; CrossHair for text"),
    "C12": dict(engine="chx", category="model_checking",
                text="The real AtomicWriter runs against a model file system (POSIX rename, exclusive create, user-space buffering) with the crash point and "
                     "one injected fault as symbolic operation indices, symbolic old/new bytes, stale temp files and body exceptions: at every crash "
                     "point the destination is the complete old or new contents, failures keep the old contents and leave no temp file, temps are "
                     "created exclusively. Two writers in one directory are run under every interleaving of their FS operations (14 symbolic schedule "
                     "bits, lock-stepped threads).",
                note="Trusted: the environment contract in vf/stubs/wfs.py (validated against a real temp directory), CrossHair, z3. A kill inside one "
                     "write() call, fsync ordering, >1 fault, >2 writers and BSP.save's own body are outside.",
                technique=_E1 + "; crash/fault positions and the schedule are solver variables"),
    "C01": dict(engine="chx", category="model_checking",
                text="10 concrete tree skeletons with one (or two) symbolic string slots at exact lengths 0..2 (3 thorough) over all code points, symbolic "
                     "space/TAB indent and start_indent, symbolic indent_braces, root and non-root trees; delivery as pieces, re-cut pieces, joined str, file "
                     "object; the path tree of serialise + parse is exhausted and shape, order, real names and values compared; output independent of the "
                     "options up to whitespace outside quotes.",
                note="Trusted: CrossHair, z3, stubs (intern identity, BARE_DISALLOWED tuple, casefold fast path). Longer strings, >2 simultaneous symbolic slots, "
                     "deeper/wider trees, names with CR/LF, non-default parse options, export() and the Cython tokenizer are outside.",
                technique=_E1),
    "C06": dict(engine="chx", category="model_checking",
                text="Export -> parse -> export of every VMF object kind (outputs, entities with fixups, solids/faces, displacements, groups, visgroups, "
                     "cordons, cameras, Strata data) and of three skeleton maps (preserve_ids on/off with a renumbering oracle, minimal, disp_multiblend) is a "
                     "fixed point and every field re-reads equal, for one symbolic string leaf of length <= 1 (2 thorough) at a time, all booleans symbolic, "
                     "ids/ints/enum members from short lists; numeric fields are compared against the originals on concrete awkward constants.",
                note="Trusted: CrossHair, z3, float()/int() shims on de-proxied text, real array.array. The float continuum, symbolic keys/fixup names (hashed), "
                     "displacement power 3-4 and the tests/ .vmf corpus are outside.",
                technique=_E1),
    "C10": dict(engine="chx", category="model_checking",
                text="A synthesised one-face BSP (6 header kinds, 3 file layouts, with/without LZMA lumps) is read, an ordered subset of up to 2 (3 thorough) "
                     "views inside five interaction clusters is looked at, saved and re-read under symbolic execution: header integers, lump versions, "
                     "game-lump flags/versions and small raw payloads are solver variables; header, view-less lumps byte-identical, parsed views equal, second "
                     "save byte-identical. The subset/order part is enumeration by symbolic index.",
                note="Trusted: CrossHair, z3, PieceFile/CellStruct models (vf/stubs/bspio.py, self-tested); real struct/lzma on concrete data. One synthesised map; "
                     "cross-cluster subsets, larger maps, symbolic LZMA data, pakfile view, Chaos/Vitamin layouts are outside.",
                technique=_E1),
    "C14": dict(engine="chx", category="model_checking",
                text="11 graph shapes (sharing, self-reference, cycles, NULL, stubs) x 9 encodings (binary v1-5, KV2 nested/flat x cull_uuid) x 3 unicode modes, "
                     "hostile strings in 8 slots, 14 value types x scalar/array shapes, symbolic int32/bool/colour/blob wire values, and the KV1 bridge are "
                     "exported and re-parsed; graphs are compared with a two-way identity-map walk and binary output by an independent decoder. Everything "
                     "the exporters hash is chosen by symbolic index (enumeration, stated). Two open known findings.",
                note="Trusted: CrossHair, z3, binio models, the independent decoder in vf/props/c14.py. float32 rounding / 6-decimal clause beyond exact constants, "
                     "NUL in strings, graphs > 4 elements, binary version 0 are outside.",
                technique=_E1),
    "C17": dict(engine="symx+chx", category="other",
                text="Geometry: the real Vec/UVAxis/Side/Solid.localise and collapse_one run on symbolic reals (rotation = SDK matrix of trig symbols) and z3 "
                     "proves p' = p.M + o, rotated axes, texture lock, displacement data, template unchanged after every collapse, equal copies for equal "
                     "placements - for ALL reals. Names/fixups/histories: symbolic entity and instance names, $variable values through the real regex "
                     "callback, two-template collapse histories in both orders compared with an oracle; termination on all 16 two-file inclusion graphs.",
                note="Trusted: z3 nlsat, vf/symx.py, CrossHair, 'every rotation has Euler angles'. IEEE rounding, float<->text conversion, visgroup modes, "
                     "pitch/yaw special keys and Manifest are outside.",
                technique="real code on z3 Real terms (validity queries, staged lemmas) for geometry; CrossHair symbolic execution for names, fixups and histories"),
    "C03": dict(engine="chx", category="model_checking",
                text="The real Tokenizer runs on pre + w + post in 23 lexical contexts with w symbolic over all code points (exact length 0..2, 3 in "
                     "string/comment states), the 7 options symbolic; every path compares the one-str delivery with one chunk, every single cut, every pair "
                     "of cuts, per-character delivery and interleaved empty chunks (tokens, values, line numbers, error type/message), asserts only the "
                     "configured error class escapes, EOF repeats and at most 2*len+4 characters are read. Keyvalues.parse on 13 skeletons with symbolic "
                     "slot, flags and parse options returns a tree or raises exactly KeyValError.",
                note="Trusted: CrossHair, z3, stubs (BARE_DISALLOWED tuple, intern identity, option attributes assigned directly - the keyword->attribute "
                     "link is its own obligation). Longer w, >2 cuts (3 thorough) other than per-character, real file objects, the Cython tokenizer are outside.",
                technique=_E1 + "; chunk cut positions are concrete slice parameters, text and options are solver variables"),
    "C11": dict(engine="chx", category="model_checking",
                text="For 17 lump families (RLE visibility, find_or_insert/extend, planes, vertexes, primitives, texture names, texinfo/texdata, overlays, "
                     "brushes+sides, leafs, nodes, cubemaps, detail props, static props V4-V13/lightmap/Mesa, faces/HDR faces/original faces with "
                     "edges/surfedges/FACEIDS, water-leaf info, brush models with PHYSCOLLIDE, the entity lump with both output separators) a value with unbounded symbolic integer fields, "
                     "full symbolic flag words, names and aliasing choices is assigned, rebuilt by the real BSP.save() loop and re-read by the real readers: "
                     "exact equality or an explicit error (silent truncation is the violation). One open known finding (V4-V9 prop flags).",
                note="Trusted: CrossHair, z3, ModelStruct/ModelBytesIO (vf/stubs/binmodel.py), a Flag-lookup proxy. Pakfile, LZMA, displacement info, lighting and "
                     "leaf/node face references are not covered; floats concrete; lists <= 2-3; texture names <= 2 chars over 4 letters and entity keys by "
                     "index (enumeration); entity lump: one symbolic text slot of length <= 1 (2 thorough) at a time.",
                technique=_E1),
    "C19": dict(engine="chx", category="model_checking",
                text="Three concrete file sets (mixed case/nesting, prefix names, case-only duplicates) built natively as Virtual, Zip, VPK and Raw; the query "
                     "string (length 0..4), the folder prefix (0..3) and chain histories of <= 3 add_sys calls (member, subfolder, priority as solver "
                     "variables) are symbolic; existence and bytes agree across backends, walk_folder == files inside the folder as a folder, walked names "
                     "look up to the same bytes, chains return the first member's content and de-duplicate walks. Two open known findings (non-canonical "
                     "spellings).",
                note="Trusted: CrossHair, z3, ListMap name tables (==-based, so symbolic keys are not hashed), C18's path model. Non-ASCII folding, longer names, "
                     "Windows semantics, archive parsing are outside.",
                technique=_E1),
    "C16": dict(engine="chx", category="model_checking",
                text="The real FGD.export into separate chunks, the real FGD.parse_file through a fake File, field-by-field comparison (with the documented "
                     "I/O type decay) and second export == first, for symbolic leaves (display name, default, description, choice values/labels, tags; "
                     "length <= 2, plus a numeric-looking sub-domain for defaults), symbolic custom_syntax/label_spawnflags/readonly/report, types/kinds/"
                     "flag bits by index; every helper kind (35 + unknown) through parse/export and through the FGD text path with default and "
                     "non-default optional arguments; the binary block format (kv/iodef/ent serialise/unserialise) with solver-chosen spawnflag bit "
                     "indices 0..31, default bits and all 43 value types; every sequence of <= 3 (4) "
                     "get_ent queries on a harness-built 3-block database against the eager load. The complete bundled database is only a concrete native "
                     "supplement (one input), not solver-decided.",
                note="Trusted: CrossHair, z3, binio models. The 1000-character long-string boundary uses concrete content (a symbolic character inside a "
                     "1000-char str costs > 300 s per path); strings > 2 symbolic characters are outside.",
                technique=_E1),
    "C09": dict(engine="chx+symx", category="model_checking",
                text="Each harness copies a source object (Output, Side incl. displacements, Solid, Entity with fixups/outputs, VisGroup, EntityGroup, Keyvalues "
                     "trees; copy(), copy.copy, deepcopy forms), checks the copy field-for-field and export-equal with ids masked (string leaves over all code "
                     "points, times over all integers), then applies one solver-picked mutation (index into the reachable mutators: key edits, fixups, output "
                     "fields, translate/localise, in-place Vec arithmetic on every reachable Vec, displacement vertex edits) to either side and checks the other "
                     "side unchanged; Keyvalues +, +=, extend leave operands unchanged; collapse_one leaves the instance file untouched and is repeatable; 76 "
                     "Vec/Angle/Matrix operators leave their operands unchanged (E2, all reals).",
                note="Trusted: CrossHair, z3, vf/symx.py. One mutation after the copy; displacement power 3-4, float continuum, symbolic keys/ids/instance names, "
                     "Camera/Cordon copies, pickling are outside. Mutator and side choices are symbolic indices (enumeration, stated).",
                technique=_E1 + "; E2 (z3 Real) for the operator table"),
}
_TODO = "check not built yet in this round (planned: see DESIGN.md section 3)"
NOT_APPLICABLE = {f"C{i:02d}": _TODO for i in range(1, 21) if f"C{i:02d}" not in CLAIMED}
