NOTES = ("All checks are solver-based (DESIGN.md): symbolic execution of the real /repo/src Python code, verdicts are per bounded "
         "obligation. Exit 0 = nothing violated among what was explored (inconclusive obligations are listed, never counted as "
         "discharged); exit 1 = a solver model that reproduced natively; exit 2 = harness not to be believed. The pure-Python "
         "implementations only: the Cython twins cannot be built in this sandbox. Quick tier: about 1-3 min per property on 16 cores; "
         "thorough tier: 10-30 min per property.")

_E1 = "bounded symbolic execution (CrossHair/z3) of the real code, all paths within stated exact-length slices; models replayed natively"

CLAIMED = {
    "C02": dict(engine="chx", category="model_checking",
                text="Every string up to the stated length (all code points, both modes, 5 embedding contexts, chunk cuts) is decided by exhausting the "
                     "symbolic path tree of escape_text + Tokenizer; bounded, not a proof for longer strings.",
                note="Trusted: CrossHair's str/regex models, z3, the driver vf/chx.py; pure-Python tokenizer only; length bound 3 (quick) / 4 (thorough).",
                technique=_E1),
    "C18": dict(engine="chx", category="model_checking",
                text="All path strings up to the stated length over a separator/dot/name alphabet, through 10 entry points of RawFileSystem and a "
                     "prefixed FileSystemChain, are decided by exhausting the symbolic path tree; the oracle is the set of paths the code actually "
                     "touched on a model file system, resolved component-wise. Bounded (length 5 quick / 7 thorough).",
                note="Trusted: POSIX path model vf/stubs/pathmodel.py (validated against os.path each run), CrossHair, z3. No symlinks, no Windows semantics.",
                technique=_E1),
    "C04": dict(engine="symx", category="other",
                text="The real srctools.math methods are executed on symbolic reals (sin/cos as symbols with s^2+c^2=1, sqrt/atan2 by their defining "
                     "equations) and z3 decides each identity for ALL reals: SDK convention, proper rotation, every operand/operator mix, products, "
                     "Euler round trip incl. the 0.001 gimbal threshold. Over the reals, not IEEE doubles; inverse()==transpose() only partially "
                     "(first-pivot totality) because z3 answers unknown on the full Gauss-Jordan identity.",
                note="Trusted: z3 nlsat, vf/symx.py, the transcribed SDK AngleMatrix reference, 'every rotation has Euler angles'. Rounding error, the "
                     "quantitative gimbal tolerance and the Cython/C++ twins are outside.",
                technique="symbolic execution of the real code on z3 Real terms (operator overloading + DFS over branches); validity queries in QF_NRA; models replayed with floats"),
}
_TODO = "check not built yet in this round (planned: see DESIGN.md section 3)"
NOT_APPLICABLE = {f"C{i:02d}": _TODO for i in range(1, 21) if f"C{i:02d}" not in CLAIMED}
