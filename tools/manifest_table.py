NOTES = ("All checks are solver-based (DESIGN.md): symbolic execution of the real /repo/src Python code, verdicts are per bounded "
         "obligation. Exit 0 = nothing violated among what was explored (inconclusive obligations are listed, never counted as "
         "discharged); exit 1 = a solver model that reproduced natively; exit 2 = harness not to be believed. The pure-Python "
         "implementations only: the Cython twins cannot be built in this sandbox. Quick tier: about 1-3 min per property on 16 cores; "
         "thorough tier: 10-30 min per property.")

_E1 = "bounded symbolic execution (CrossHair/z3) of the real code, all paths within stated exact-length slices; models replayed natively"

CLAIMED = {
    "C02": dict(engine="chx", category="model_checking",
                text="Every string up to the stated length (all code points, both modes, 5 embedding contexts, chunk cuts) is decided by exhausting the "
                     "symbolic path tree of escape_text + Tokenizer; bounded, not a proof for longer strings.",
                note="Trusted: CrossHair's str/regex models, z3, the driver vf/chx.py; pure-Python tokenizer only; length bound 3 (quick) / 4 (thorough).",
                technique=_E1),
}
_TODO = "check not built yet in this round (planned: see DESIGN.md section 3)"
NOT_APPLICABLE = {f"C{i:02d}": _TODO for i in range(1, 21) if f"C{i:02d}" not in CLAIMED}
