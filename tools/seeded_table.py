#!/usr/bin/env python3
"""Markdown table of /verif/seeded/*/meta.json (used for DESIGN.md section 6)."""
import glob, json, os, re
rows = []
NOTES = json.load(open(os.path.join(os.path.dirname(__file__), "..", "seeded", "NOTES.json")))
for f in sorted(glob.glob(os.path.join(os.path.dirname(__file__), "..", "seeded", "*", "meta.json"))):
    m = json.load(open(f))
    obl = sorted({re.search(r"replay=\S*/(C\d\d)/([A-Za-z0-9_.]+?)-[0-9a-f]{10}\.json", l).group(2) for l in m["check"]["lines"] if "VIOLATION" in l and re.search(r"replay=\S*/(C\d\d)/([A-Za-z0-9_.]+?)-[0-9a-f]{10}\.json", l)})
    det = "detected" if m["check"]["detected"] else ("**missed**" if m["check"]["exit"] == 0 else f"not believed (exit {m['check']['exit']})")
    note = NOTES.get(m["id"], m.get("note", ""))
    rows.append(f"| {m['id']} | {(m.get('summary') or '')[:170].replace('|', '/')} | {det}{' by `' + '`, `'.join(obl) + '`' if obl else ''}{' — ' + note if note else ''} |")
print("| id | change (what it needs to manifest: see seeded/<id>/meta.json) | result of `bin/check <prop> --tier quick` |")
print("|---|---|---|")
print("\n".join(rows))
