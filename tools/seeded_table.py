#!/usr/bin/env python3
"""Markdown table of /verif/seeded/*/meta.json (used for DESIGN.md section 6)."""
import glob, json, os, re
rows = []
for f in sorted(glob.glob(os.path.join(os.path.dirname(__file__), "..", "seeded", "*", "meta.json"))):
    m = json.load(open(f))
    obl = sorted({re.search(r"replay=\S*/(C\d\d)/([A-Za-z0-9_.]+?)-[0-9a-f]{10}\.json", l).group(2) for l in m["check"]["lines"] if "VIOLATION" in l and re.search(r"replay=\S*/(C\d\d)/([A-Za-z0-9_.]+?)-[0-9a-f]{10}\.json", l)})
    det = "detected" if m["check"]["detected"] else ("**missed**" if m["check"]["exit"] == 0 else f"not believed (exit {m['check']['exit']})")
    note = m.get("note", "")
    rows.append(f"| {m['id']} | {(m.get('summary') or '')[:150].replace('|', '/')} | {(m.get('needs') or '')[:140].replace('|', '/')} | {det}{' by `' + '`, `'.join(obl) + '`' if obl else ''}{' — ' + note if note else ''} |")
print("| id | change | needs | result of `bin/check <prop> --tier quick` |")
print("|---|---|---|---|")
print("\n".join(rows))
