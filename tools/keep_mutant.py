#!/usr/bin/env python3
"""Verify a seeded change and store it under /verif/seeded/<prop>-<x>/.

usage: tools/keep_mutant.py <Cnn> <x> <dir with x.patch.diff x.demo.py x.meta.json> [--rebased PATCH]
Everything runs in a scratch git worktree of /repo's HEAD (never in /repo itself):
  1. patch applies; demo fails with it (exit 1) and passes without it (exit 0);
  2. the repo's test suite run against the scratch tree gives the working-tree baseline (2103 passed, 12 failed);
  3. the property's quick check is run against the scratch tree (VF_REPO) and its verdict recorded.
"""
import json, os, shutil, subprocess, sys, time

prop, x, src = sys.argv[1:4]
rebased = sys.argv[5] if len(sys.argv) > 5 and sys.argv[4] == "--rebased" else None
VERIF = "/verif"
name = os.environ.get("KEEP_NAME") or f"{prop}-{x}"
wt = f"/tmp/scratch_{name}"
out = os.path.join(VERIF, "seeded", name)
env = dict(os.environ, PYTHONPATH=f"{VERIF}/shims:{wt}/src", PYTHONDONTWRITEBYTECODE="1")


def sh(cmd, **kw):
    return subprocess.run(cmd, shell=True, capture_output=True, text=True, **kw)


sh(f"git -C /repo worktree remove --force {wt}")
r = sh(f"git -C /repo worktree add -q --detach {wt} HEAD")
assert r.returncode == 0, r.stderr
meta = json.load(open(f"{src}/{x}.meta.json"))
log = {}
try:
    patch = rebased or f"{src}/{x}.patch.diff"
    demo = f"{src}/{x}.demo.py"
    r0 = subprocess.run(["/venv/bin/python", demo], env=env, capture_output=True, text=True, timeout=600)
    log["demo_without_patch_exit"] = r0.returncode
    r = sh(f"git -C {wt} apply {patch}")
    if r.returncode != 0:
        r = sh(f"git -C {wt} apply --3way {patch}")
        sh(f"git -C {wt} reset -q")
    if r.returncode != 0:
        print(f"{name}: PATCH DOES NOT APPLY to current HEAD: {r.stderr[:300]}")
        sys.exit(3)
    diff = sh(f"git -C {wt} diff").stdout
    r1 = subprocess.run(["/venv/bin/python", demo], env=env, capture_output=True, text=True, timeout=600)
    log["demo_with_patch_exit"] = r1.returncode
    log["demo_with_patch_tail"] = (r1.stdout + r1.stderr)[-400:]
    t = subprocess.run(["/venv/bin/python", "-m", "pytest", "-q", "-p", "no:cacheprovider", "tests"], cwd=wt, env=env,
                       capture_output=True, text=True, timeout=1800)
    log["tests_with_patch"] = t.stdout.strip().splitlines()[-1] if t.stdout.strip() else t.stderr[-200:]
    t0 = time.time()
    cenv = dict(os.environ, VF_REPO=wt, VF_EVIDENCE_DIR=f"/tmp/ev_{name}", VF_REPLAY_DIR=f"/tmp/rp_{name}")
    c = subprocess.run([f"{VERIF}/bin/check", prop, "--tier", "quick"], env=cenv, capture_output=True, text=True, timeout=7200)
    log["check_exit"] = c.returncode
    log["check_secs"] = round(time.time() - t0)
    log["check_lines"] = [ln[:300] for ln in c.stdout.splitlines() if ln.startswith(("VIOLATION", "HARNESS", "INCONCLUSIVE", prop + " tier"))][:8]
    head = sh("git -C /repo log --format=%h -1").stdout.strip()
    bfile = f"/tmp/baseline_{head}.txt"
    if not os.path.exists(bfile):
        sh(f"git -C {wt} stash -q")
        b = subprocess.run(["/venv/bin/python", "-m", "pytest", "-q", "-p", "no:cacheprovider", "tests"], cwd=wt, env=env, capture_output=True, text=True, timeout=1800)
        sh(f"git -C {wt} stash pop -q")
        open(bfile, "w").write(b.stdout.strip().splitlines()[-1])
    base = open(bfile).read()
    import re as _re
    counts = lambda t: _re.findall(r"(\d+) (failed|passed|xfailed)", t)
    log["tests_baseline_same_tree_without_patch"] = base
    ok = log["demo_without_patch_exit"] == 0 and log["demo_with_patch_exit"] != 0 and counts(base) == counts(log["tests_with_patch"]) and bool(counts(base))
    log["confirmed"] = ok
    if ok:
        os.makedirs(out, exist_ok=True)
        open(os.path.join(out, "patch.diff"), "w").write(diff)
        shutil.copy(demo, os.path.join(out, "demo.py"))
        json.dump({"id": name, "property": prop, "summary": meta.get("summary"), "needs": meta.get("needs"), "files": meta.get("files"),
                   "origin": "independent sub-agent given only the property text and its own scratch worktree",
                   "verified": {"how": "tools/keep_mutant.py in a scratch worktree of /repo HEAD " + sh("git -C /repo log --format=%h -1").stdout.strip(),
                                "demo_exit_without_patch": log["demo_without_patch_exit"], "demo_exit_with_patch": log["demo_with_patch_exit"],
                                "tests_with_patch": log["tests_with_patch"], "tests_without_patch": log.get("tests_baseline_same_tree_without_patch")},
                   "check": {"cmd": f"VF_REPO=<scratch tree with patch> bin/check {prop} --tier quick", "exit": log["check_exit"],
                             "secs": log["check_secs"], "lines": log["check_lines"], "detected": log["check_exit"] == 1}},
                  open(os.path.join(out, "meta.json"), "w"), indent=1)
    print(name, json.dumps(log)[:900])
finally:
    sh(f"git -C /repo worktree remove --force {wt}")
    shutil.rmtree(f"/tmp/ev_{name}", ignore_errors=True)
    shutil.rmtree(f"/tmp/rp_{name}", ignore_errors=True)
