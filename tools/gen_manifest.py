#!/usr/bin/env python3
"""Regenerates /verif/MANIFEST.json from the table in tools/manifest_table.py (keeps it schema-valid)."""
import json, os, sys
HERE = os.path.dirname(os.path.abspath(__file__))
sys.path.insert(0, HERE)
from manifest_table import CLAIMED, NOT_APPLICABLE, NOTES  # noqa

checks = []
for pid, c in sorted(CLAIMED.items()):
    checks.append({
        "property_id": pid,
        "quick_cmd": f"bin/check {pid} --tier quick",
        "thorough_cmd": f"bin/check {pid} --tier thorough",
        "evidence_file": f"/verif/evidence/{pid}.json",
        "replay_cmd_template": f"bin/check {pid} --replay {{path}}",
        "engine": c["engine"],
        "level_claimed": {"category": c["category"], "text": c["text"], "design_ref": c.get("design_ref", f"DESIGN.md section 3 / {pid}")},
        "level_note": c["note"],
        "technique": c["technique"],
    })
m = {
    "version": 1,
    "setup_cmd": "bin/check --setup",
    "hooks": {
        "guard": "SRCTOOLS_VERIF",
        "enable": "no source hooks exist: every stub is installed into module namespaces of /repo/src from the worker process (DESIGN 2.9); checks import /repo/src afresh in each worker",
        "baseline_off_cmd": "cd /repo && /venv/bin/python -m pytest -ra -q -p no:cacheprovider --timeout=900 --continue-on-collection-errors",
        "source_commits": [],
        "add_only": True,
    },
    "engines": [
        {"name": "chx", "path": "vf/chx.py", "serves_properties": sorted(p for p, c in CLAIMED.items() if "chx" in c["engine"]),
         "kind_free_text": "E1: CrossHair 0.0.110 symbolic execution (z3) of harness functions calling the real /repo/src code; own path-exploration driver"},
        {"name": "symx", "path": "vf/symx.py", "serves_properties": sorted(p for p, c in CLAIMED.items() if "symx" in c["engine"]),
         "kind_free_text": "E2: operator-overloading symbolic executor (z3 Real / Int / BitVec values + DFS over branch decisions) running the real code"},
        {"name": "fpk", "path": "vf/fpk.py", "serves_properties": sorted(p for p, c in CLAIMED.items() if "fpk" in c["engine"]),
         "kind_free_text": "E3: ast-extracted kernels translated to z3 Float64/BitVec/Int terms, regenerated from the current source on every run"},
    ],
    "checks": checks,
    "notes": NOTES,
    "not_applicable": [{"property_id": p, "reason": r} for p, r in sorted(NOT_APPLICABLE.items())],
}
json.dump(m, open(os.path.join(HERE, "..", "MANIFEST.json"), "w"), indent=1)
try:
    import jsonschema
    jsonschema.validate(m, json.load(open("/root/.vp/MANIFEST.schema.json")))
    print("MANIFEST.json valid;", len(checks), "checks,", len(m["not_applicable"]), "not applicable")
except ImportError:
    print("written (jsonschema not available to validate)")
