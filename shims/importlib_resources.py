"""Shim: /repo/src imports the `importlib_resources` backport, which is not installed.
Python 3.12's importlib.resources provides the same `files()` API."""
from importlib.resources import *  # noqa
from importlib.resources import files, as_file  # noqa
