"""bin/check entry point."""
from __future__ import annotations

import argparse
import os
import sys


def main() -> int:
    ap = argparse.ArgumentParser(prog="check")
    ap.add_argument("prop")
    ap.add_argument("--tier", default=os.environ.get("VERIF_TIER", "quick"), choices=["quick", "thorough"])
    ap.add_argument("--replay", default=None)
    ap.add_argument("--only", default=None, help="glob over obligation names (debugging)")
    a = ap.parse_args()
    from vf import core
    if a.replay:
        return core.replay_file(a.replay)
    seed = int(os.environ.get("VERIF_SEED", "0") or 0)
    return core.run_property(a.prop.upper(), a.tier, seed, a.only)


if __name__ == "__main__":
    sys.exit(main())
