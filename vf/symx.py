"""E2 — direct symbolic execution of the real code by operator overloading (DESIGN section 1, E2).

Value classes
  SymReal  : float subclass carrying a z3 Real term (identities over the reals, NOT IEEE doubles)
  AngleTag : float subclass standing for an angle in degrees known only through (sin, cos)
  SymZ     : z3 Int (Python's unbounded ints, exact)           SymSet: small explicit set of SymZ
  SymInt   : z3 BitVec(32) with no-overflow side obligations (Python ints do not wrap)
Control
  Engine   : DFS over branch decisions; a comparison yields SymBool whose __bool__ asks the engine.
             Each complete run of the function under one decision vector is one *path*; feasibility of
             each prefix is decided by z3.
Every solver call is timed and counted in STATS.
"""
from __future__ import annotations

import builtins
import math as _math
import time
from fractions import Fraction
from typing import Any, Callable, Dict, Iterator, List, Optional, Tuple

import z3  # type: ignore

STATS = {"queries": 0, "seconds": 0.0, "unknown": 0}


def check(solver: "z3.Solver", *extra) -> str:
    t = time.perf_counter()
    r = solver.check(*extra)
    STATS["queries"] += 1
    STATS["seconds"] += time.perf_counter() - t
    s = str(r)
    if s == "unknown":
        STATS["unknown"] += 1
    return s


def new_solver(timeout_ms: int = 60000, logic: Optional[str] = None) -> "z3.Solver":
    s = z3.Solver() if logic is None else z3.SolverFor(logic)
    s.set("timeout", timeout_ms)
    return s


DIV_HOOK = None     # optional callable invoked at every symbolic division (lets a harness cut a path there)
OP_LOG = None       # optional list: ("div", num, den, len(pc)) / ("abs", operand, len(pc)) for every symbolic division / abs()


class Escaped(Exception):
    """A symbolic value reached code that needs a concrete one (inconclusive, never a silent concretisation)."""


# ---------------------------------------------------------------- decisions

class Engine:
    def __init__(self, decisions: List[bool], base: List[Any], timeout_ms: int):
        self.decisions = list(decisions)
        self.pos = 0
        self.pc: List[Any] = []
        self.raw: List[Any] = []       # the same decisions before z3.simplify (sub-terms stay syntactically those of the operands)
        self.base = base
        self.timeout_ms = timeout_ms
        self.unknown = False

    def decide(self, cond) -> bool:
        raw = cond
        cond = z3.simplify(cond)
        if z3.is_true(cond):
            return True
        if z3.is_false(cond):
            return False
        if self.pos < len(self.decisions):
            d = self.decisions[self.pos]
        else:
            s = new_solver(self.timeout_ms)
            s.add(self.base() if callable(self.base) else self.base)
            s.add(self.pc)
            r = check(s, cond)
            if r == "sat":
                d = True
            elif r == "unsat":
                d = False
            else:
                # undecided feasibility: take the branch anyway. Exploring an infeasible path is harmless
                # (its proof obligations carry the path condition and become trivially unsat).
                d = True
            self.decisions.append(d)
        self.pos += 1
        self.pc.append(cond if d else z3.Not(cond))
        self.raw.append(raw if d else z3.Not(raw))
        return d


ENG: Optional[Engine] = None


class SymBool:
    __slots__ = ("e",)

    def __init__(self, e):
        self.e = e

    def __bool__(self) -> bool:
        if ENG is None:
            raise Escaped("branch on a symbolic condition outside explore()")
        return ENG.decide(self.e)

    def __and__(self, o):
        return SymBool(z3.And(self.e, o.e if isinstance(o, SymBool) else z3.BoolVal(bool(o))))

    def __or__(self, o):
        return SymBool(z3.Or(self.e, o.e if isinstance(o, SymBool) else z3.BoolVal(bool(o))))

    def __invert__(self):
        return SymBool(z3.Not(self.e))


def explore(fn: Callable[[], Any], base: List[Any], timeout_ms: int = 30000, max_paths: int = 5000) -> Iterator[Tuple[List[Any], Any, bool]]:
    """Run fn under every feasible decision vector. Yields (path condition, result, solver_was_unknown)."""
    global ENG
    stack: List[List[bool]] = [[]]
    n = 0
    while stack:
        dec = stack.pop()
        ENG = Engine(dec, base, timeout_ms)
        try:
            res = fn()
        finally:
            eng, ENG = ENG, None
        n += 1
        yield list(eng.pc), res, eng.unknown
        full = eng.decisions
        for i in range(len(dec), len(full)):
            s = new_solver(timeout_ms)
            s.add(base() if callable(base) else base)
            s.add(eng.pc[:i])
            s.add(z3.Not(eng.pc[i]))
            r = check(s)
            if r != "unsat":     # sat, or undecided (over-approximate: explore it)
                stack.append(full[:i] + [not full[i]])
        if n >= max_paths:
            raise RuntimeError("path bound exceeded")


# ---------------------------------------------------------------- reals

def _rv(v) -> Any:
    if isinstance(v, SymReal):
        return v.e
    if isinstance(v, bool):
        raise TypeError("bool")
    if isinstance(v, int):
        return z3.RealVal(v)
    if isinstance(v, float):
        if v != v or v in (float("inf"), float("-inf")):
            raise TypeError("non-finite")
        f = Fraction(v)
        return z3.RealVal(f.numerator) / z3.RealVal(f.denominator) if f.denominator != 1 else z3.RealVal(f.numerator)
    raise TypeError(type(v))


class SymReal(float):
    """A real-valued symbol that passes isinstance(x, float)."""
    __slots__ = ("e", "rad")

    def __new__(cls, e, rad=None):
        self = float.__new__(cls, float("nan"))
        self.e = e if z3.is_expr(e) else _rv(e)
        self.rad = rad          # radicand when this value is a non-negative square root
        return self

    def _bin(op):  # type: ignore
        def f(self, o):
            try:
                oe = _rv(o)
            except TypeError:
                return NotImplemented
            return SymReal(op(self.e, oe))

        def r(self, o):
            try:
                oe = _rv(o)
            except TypeError:
                return NotImplemented
            return SymReal(op(oe, self.e))
        return f, r

    __add__, __radd__ = _bin(lambda a, b: a + b)
    __sub__, __rsub__ = _bin(lambda a, b: a - b)
    __mul__, __rmul__ = _bin(lambda a, b: a * b)
    _td, _rtd = _bin(lambda a, b: a / b)
    del _bin

    def __truediv__(self, o):
        if DIV_HOOK is not None:
            DIV_HOOK()
        if OP_LOG is not None:
            try:
                OP_LOG.append(("div", self.e, _rv(o), len(ENG.pc) if ENG is not None else 0))
            except TypeError:
                pass
        return SymReal._td(self, o)

    def __rtruediv__(self, o):
        if DIV_HOOK is not None:
            DIV_HOOK()
        if OP_LOG is not None:
            try:
                OP_LOG.append(("div", _rv(o), self.e, len(ENG.pc) if ENG is not None else 0))
            except TypeError:
                pass
        return SymReal._rtd(self, o)

    def __neg__(self):
        return SymReal(-self.e)

    def __pos__(self):
        return self

    def __abs__(self):
        if OP_LOG is not None:
            OP_LOG.append(("abs", self.e, len(ENG.pc) if ENG is not None else 0))
        return SymReal(z3.If(self.e >= 0, self.e, -self.e))

    def __pow__(self, n, mod=None):
        if n == 2:
            return SymReal(self.e * self.e)
        if n == 3:
            return SymReal(self.e * self.e * self.e)
        raise Escaped(f"SymReal ** {n!r}")

    def _cmp(op):  # type: ignore
        def f(self, o):
            try:
                oe = _rv(o)
            except TypeError:
                return NotImplemented
            return SymBool(op(self.e, oe))
        return f

    __eq__ = _cmp(lambda a, b: a == b)   # type: ignore
    __ne__ = _cmp(lambda a, b: a != b)   # type: ignore
    __lt__ = _cmp(lambda a, b: a < b)
    __le__ = _cmp(lambda a, b: a <= b)
    __gt__ = _cmp(lambda a, b: a > b)
    __ge__ = _cmp(lambda a, b: a >= b)
    del _cmp
    __hash__ = None  # type: ignore

    def __float__(self):
        raise Escaped("symbolic real escaped to float()")

    def __int__(self):
        raise Escaped("symbolic real escaped to int()")

    def __round__(self, n=None):
        raise Escaped("symbolic real escaped to round()")

    def __mod__(self, o):
        raise Escaped("symbolic real % x")

    def __format__(self, spec):
        return "<sym>"      # formatting (error messages, repr) is never the subject of an E2 obligation

    def __repr__(self):
        return f"SymReal({self.e})"

    __str__ = __repr__


class AngleTag(float):
    """An angle in degrees known only through its sine and cosine (both SymReal).

    `% 360` and `math.radians/degrees` are the identity on tags: they do not change sin/cos. The range
    clause of C05 is about exactly that modulo and is checked elsewhere (E3), not here.
    """
    __slots__ = ("sin", "cos", "name", "y", "x")

    def __new__(cls, sin, cos, name="tag", y=None, x=None):
        self = float.__new__(cls, float("nan"))
        self.sin, self.cos, self.name = sin, cos, name
        self.y, self.x = y, x   # the atan2 arguments this tag was made from (if any)
        return self

    def __mod__(self, o):
        if o in (360, 360.0):
            return self
        raise Escaped("AngleTag % " + repr(o))

    def __float__(self):
        raise Escaped("angle tag escaped to float()")

    def __repr__(self):
        return f"AngleTag({self.name})"

    def _no(self, *a):
        raise Escaped("arithmetic on an angle tag")

    __add__ = __radd__ = __sub__ = __rsub__ = __mul__ = __rmul__ = __truediv__ = __rtruediv__ = __neg__ = _no
    __eq__ = __ne__ = __lt__ = __le__ = __gt__ = __ge__ = _no  # type: ignore
    __hash__ = None  # type: ignore


class MathProxy:
    """Stands in for the `math` module inside srctools.math while E2 runs."""

    def __init__(self):
        self.side: List[Any] = []      # side constraints introduced by sqrt/atan2
        self.nonneg: List[Any] = []    # the non-negative auxiliary symbols (square roots, hypotenuses)
        self.n = 0

    def __getattr__(self, n):
        return getattr(_math, n)

    def radians(self, x):
        return x if isinstance(x, AngleTag) else (_math.radians(x) if not isinstance(x, SymReal) else _esc("radians of a raw SymReal"))

    def degrees(self, x):
        return x if isinstance(x, AngleTag) else (_math.degrees(x) if not isinstance(x, SymReal) else _esc("degrees of a raw SymReal"))

    def sin(self, x):
        if isinstance(x, AngleTag):
            return x.sin
        if isinstance(x, SymReal):
            _esc("sin of a raw SymReal")
        return _math.sin(x)

    def cos(self, x):
        if isinstance(x, AngleTag):
            return x.cos
        if isinstance(x, SymReal):
            _esc("cos of a raw SymReal")
        return _math.cos(x)

    def sqrt(self, x):
        if not isinstance(x, SymReal):
            return _math.sqrt(x)
        self.n += 1
        t = z3.Real(f"sqrt{self.n}")
        self.side += [t >= 0, t * t == x.e]
        self.nonneg.append(t)
        return SymReal(t, rad=x.e)

    def atan2(self, y, x):
        """Defining property of atan2 for (x, y) != (0, 0): sin = y/r, cos = x/r, r = |(x, y)|."""
        if not isinstance(y, SymReal) and not isinstance(x, SymReal):
            return _math.atan2(y, x)
        self.n += 1
        r = z3.Real(f"hyp{self.n}")
        s = z3.Real(f"asin{self.n}")
        c = z3.Real(f"acos{self.n}")
        ye, xe = _rv(y), _rv(x)
        self.nonneg.append(r)
        self.side += [r >= 0, r * r == xe * xe + ye * ye,
                      z3.Implies(r > 0, z3.And(s * r == ye, c * r == xe)),
                      z3.Implies(r == 0, z3.And(s == 0, c == 1))]   # atan2(0, 0) == 0
        return AngleTag(SymReal(s), SymReal(c), f"atan2#{self.n}", y=y, x=x)


def _esc(msg):
    raise Escaped(msg)


class _FloatMeta(type):
    def __call__(cls, x=0.0):
        if isinstance(x, (SymReal, AngleTag)):
            return x
        return builtins.float(x)

    def __instancecheck__(cls, o):
        return isinstance(o, builtins.float)

    def __subclasscheck__(cls, c):
        return issubclass(c, builtins.float)


class FloatShim(metaclass=_FloatMeta):
    """`float` inside srctools.math: passes symbolic values through, converts everything else."""


def install_math_shims():
    """srctools.math.float / srctools.math.math -> shims. Returns the MathProxy (holds side constraints)."""
    import srctools.math as sm
    proxy = MathProxy()
    sm.math = proxy
    sm.float = FloatShim
    return proxy


# ---------------------------------------------------------------- integers (exact) and small sets

def _zv(v):
    if isinstance(v, SymZ):
        return v.e
    if isinstance(v, bool):
        raise TypeError("bool")
    if isinstance(v, int):
        return z3.IntVal(v)
    raise TypeError(type(v))


class SymZ:
    __slots__ = ("e",)

    def __init__(self, e):
        self.e = e if z3.is_expr(e) else z3.IntVal(e)

    def __add__(self, o):
        return SymZ(self.e + _zv(o))

    __radd__ = __add__

    def __sub__(self, o):
        return SymZ(self.e - _zv(o))

    def __rsub__(self, o):
        return SymZ(_zv(o) - self.e)

    def __mul__(self, o):
        return SymZ(self.e * _zv(o))

    __rmul__ = __mul__

    def __neg__(self):
        return SymZ(-self.e)

    def __eq__(self, o):  # type: ignore
        try:
            return SymBool(self.e == _zv(o))
        except TypeError:
            return False

    def __ne__(self, o):  # type: ignore
        try:
            return SymBool(self.e != _zv(o))
        except TypeError:
            return True

    def __lt__(self, o):
        return SymBool(self.e < _zv(o))

    def __le__(self, o):
        return SymBool(self.e <= _zv(o))

    def __gt__(self, o):
        return SymBool(self.e > _zv(o))

    def __ge__(self, o):
        return SymBool(self.e >= _zv(o))

    def __index__(self):
        raise Escaped("symbolic int escaped to __index__")

    def __int__(self):
        return self   # int(x) on an int is the identity

    __hash__ = None  # type: ignore

    def __repr__(self):
        return f"SymZ({self.e})"


class SymSet:
    """A finite set of (symbolic) integers kept as an explicit member list."""

    def __init__(self, members=()):
        self.m: List[Any] = list(members)

    def member_expr(self, k):
        return z3.Or([k == _zv(y) for y in self.m]) if self.m else z3.BoolVal(False)

    def __contains__(self, x):
        return bool(SymBool(self.member_expr(_zv(x))))

    def add(self, x):
        if x not in self:
            self.m.append(x)

    def discard(self, x):
        keep = []
        for y in self.m:
            if not SymBool(_zv(x) == _zv(y)):
                keep.append(y)
        self.m = keep

    def remove(self, x):
        if x not in self:
            raise KeyError(x)
        self.discard(x)

    def __iter__(self):
        return iter(self.m)

    def __len__(self):
        return len(self.m)

    def copy(self):
        return SymSet(self.m)


# ---------------------------------------------------------------- 32-bit vectors with no-overflow side conditions

BITS = 32


def _bv(v):
    if isinstance(v, SymInt):
        return v.e
    if isinstance(v, bool):
        v = int(v)
    if isinstance(v, int):
        if not 0 <= v < 2 ** BITS:
            raise Escaped(f"constant {v} outside the unsigned {BITS}-bit range")
        return z3.BitVecVal(v, BITS)
    raise TypeError(type(v))


class SymInt:
    """Non-negative integer modelled as an unsigned 32-bit vector. Python ints do not wrap, so every
    +, *, << records a no-overflow obligation in OVERFLOW (checked by the caller under the input ranges)."""
    __slots__ = ("e",)
    OVERFLOW: List[Any] = []

    def __init__(self, e):
        self.e = e if z3.is_expr(e) else _bv(e)

    def __add__(self, o):
        b = _bv(o)
        SymInt.OVERFLOW.append(z3.Not(z3.BVAddNoOverflow(self.e, b, False)))
        return SymInt(self.e + b)

    __radd__ = __add__

    def __sub__(self, o):
        b = _bv(o)
        SymInt.OVERFLOW.append(z3.Not(z3.BVSubNoUnderflow(self.e, b, False)))
        return SymInt(self.e - b)

    def __rsub__(self, o):
        b = _bv(o)
        SymInt.OVERFLOW.append(z3.Not(z3.BVSubNoUnderflow(b, self.e, False)))
        return SymInt(b - self.e)

    def __mul__(self, o):
        b = _bv(o)
        SymInt.OVERFLOW.append(z3.Not(z3.BVMulNoOverflow(self.e, b, False)))
        return SymInt(self.e * b)

    __rmul__ = __mul__

    def __floordiv__(self, o):
        b = _bv(o)
        return SymInt(z3.UDiv(self.e, b))

    def __mod__(self, o):
        return SymInt(z3.URem(self.e, _bv(o)))

    def __and__(self, o):
        return SymInt(self.e & _bv(o))

    __rand__ = __and__

    def __or__(self, o):
        return SymInt(self.e | _bv(o))

    __ror__ = __or__

    def __xor__(self, o):
        return SymInt(self.e ^ _bv(o))

    __rxor__ = __xor__

    def __lshift__(self, o):
        b = _bv(o)
        # no bits may be shifted out
        SymInt.OVERFLOW.append(z3.LShR(self.e << b, b) != self.e)
        return SymInt(self.e << b)

    def __rshift__(self, o):
        return SymInt(z3.LShR(self.e, _bv(o)))

    def __rlshift__(self, o):
        a = _bv(o)
        SymInt.OVERFLOW.append(z3.LShR(a << self.e, self.e) != a)
        return SymInt(a << self.e)

    def __rrshift__(self, o):
        return SymInt(z3.LShR(_bv(o), self.e))

    def _cmp(op):  # type: ignore
        def f(self, o):
            try:
                return SymBool(op(self.e, _bv(o)))
            except TypeError:
                return NotImplemented
        return f

    __eq__ = _cmp(lambda a, b: a == b)   # type: ignore
    __ne__ = _cmp(lambda a, b: a != b)   # type: ignore
    __lt__ = _cmp(z3.ULT)
    __le__ = _cmp(z3.ULE)
    __gt__ = _cmp(z3.UGT)
    __ge__ = _cmp(z3.UGE)
    del _cmp
    __hash__ = None  # type: ignore

    def __bool__(self):
        return bool(SymBool(self.e != 0))

    def __index__(self):
        raise Escaped("symbolic bit-vector int escaped to __index__")

    def __int__(self):
        return self

    def __repr__(self):
        return f"SymInt({self.e})"


# ---------------------------------------------------------------- proving helpers

def prove(assumptions: List[Any], goal, timeout_ms: int = 60000) -> Tuple[str, Optional[Any]]:
    """unsat(assumptions ∧ ¬goal) => 'holds'; sat => ('cex', model); else 'unknown'."""
    s = new_solver(timeout_ms)
    s.add(assumptions)
    s.add(z3.Not(goal))
    r = check(s)
    if r == "unsat":
        return "holds", None
    if r == "sat":
        return "cex", s.model()
    return "unknown", None


def satisfiable(assumptions: List[Any], timeout_ms: int = 60000) -> str:
    s = new_solver(timeout_ms)
    s.add(assumptions)
    return check(s)


def model_value(m, e) -> Any:
    v = m.eval(e, model_completion=True)
    if z3.is_int_value(v):
        return v.as_long()
    if z3.is_rational_value(v):
        return float(Fraction(v.numerator_as_long(), v.denominator_as_long()))
    if z3.is_algebraic_value(v):
        a = v.approx(30)
        return float(Fraction(a.numerator_as_long(), a.denominator_as_long()))
    if z3.is_bv_value(v):
        return v.as_long()
    if z3.is_true(v):
        return True
    if z3.is_false(v):
        return False
    return str(v)


def same_value_goals(a, b) -> List[Any]:
    """Sufficient conditions for two real-valued results to be equal: equal terms, or square roots of equal radicands."""
    ra = getattr(a, "rad", None)
    rb = getattr(b, "rad", None)
    if ra is not None and rb is not None:
        return [ra == rb]
    return [_rv(a) == _rv(b)]


def same_tag_goals(a: AngleTag, b: AngleTag) -> Optional[List[Any]]:
    """atan2 is a function: equal arguments give equal angles. None when a tag has no recorded arguments."""
    if a.y is None or b.y is None:
        return None
    return same_value_goals(a.y, b.y) + same_value_goals(a.x, b.x)
