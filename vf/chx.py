"""E1 driver: symbolic execution of a harness function with CrossHair's engine.

This is a re-implementation of crosshair.core.explore_paths with the bookkeeping this
framework needs: an explicit wall/CPU budget, an explicit per-path timeout, path and
solver statistics, realised sample models, and a *structured* counterexample (the
realised harness arguments) instead of a formatted message.

Harness protocol (see vf/h.py):
    def harness(a: str, b: int, flag: bool, **concrete_slice_params) -> None
  * symbolic arguments are the annotated positional parameters;
  * slice parameters are passed concretely by keyword (bound with functools.partial
    semantics before the signature is handed to CrossHair);
  * `assume(cond)` abandons the path (precondition);
  * returning None means the property held on this path;
  * raising vf.h.Fail (or any other Exception) is a violation on this path.

Verdicts:
  confirmed : search tree exhausted, every explored path returned normally, no status cap
  refuted   : some path raised; `cex` holds the realised arguments
  unknown   : budget hit / a path timed out / solver unknown / realisation capped the status
  vacuous   : tree exhausted with zero completed paths (preconditions unsatisfiable)
"""
from __future__ import annotations

import inspect
import sys
import time
import traceback
from typing import Any, Callable, Dict, List, Optional

import z3  # type: ignore

SOLVER_STATS = {"checks": 0, "seconds": 0.0}


def _instrument_solver() -> None:
    if getattr(z3.Solver, "_vf_wrapped", False):
        return
    orig = z3.Solver.check

    def check(self, *a):  # type: ignore
        t = time.perf_counter()
        try:
            return orig(self, *a)
        finally:
            SOLVER_STATS["checks"] += 1
            SOLVER_STATS["seconds"] += time.perf_counter() - t

    z3.Solver.check = check  # type: ignore
    z3.Solver._vf_wrapped = True  # type: ignore


def _plain(v: Any, depth: int = 0) -> Any:
    """JSON-friendly rendering of a realised value."""
    if depth > 6:
        return repr(v)
    if isinstance(v, (bool, int, type(None))):
        return v
    if isinstance(v, float):
        return v if v == v and abs(v) != float("inf") else repr(v)
    if isinstance(v, str):
        return v
    if isinstance(v, (bytes, bytearray)):
        return {"__bytes__": bytes(v).hex()}
    if isinstance(v, (list, tuple)):
        return [_plain(x, depth + 1) for x in v]
    if isinstance(v, (set, frozenset)):
        return {"__set__": sorted((_plain(x, depth + 1) for x in v), key=repr)}
    if isinstance(v, dict):
        return {str(k): _plain(x, depth + 1) for k, x in v.items()}
    return repr(v)


def unplain(v: Any) -> Any:
    if isinstance(v, dict) and "__bytes__" in v:
        return bytes.fromhex(v["__bytes__"])
    if isinstance(v, dict) and "__set__" in v:
        return set(unplain(x) for x in v["__set__"])
    if isinstance(v, list):
        return [unplain(x) for x in v]
    return v


def explore(
    fn: Callable[..., Any],
    params: Dict[str, Any],
    budget_s: float,
    per_path_s: float,
    n_samples: int = 3,
    max_paths: int = 10**9,
) -> Dict[str, Any]:
    from crosshair.core import (
        COMPOSITE_TRACER,
        ExceptionFilter,
        NoTracing,
        Patched,
        ResumedTracing,
        deep_realize,
        gen_args,
    )
    from crosshair.condition_parser import condition_parser
    from crosshair.copyext import CopyMode, deepcopyext
    from crosshair.options import AnalysisKind
    from crosshair.statespace import (
        CallAnalysis,
        RootNode,
        StateSpace,
        StateSpaceContext,
        VerificationStatus,
    )
    from crosshair.util import IgnoreAttempt, UnexploredPath, NotDeterministic

    _instrument_solver()
    params = dict(params)
    exclude = list(params.pop("_exclude", None) or [])
    sig = inspect.signature(fn, eval_str=True)
    sym_params = [p for n, p in sig.parameters.items() if n not in params and p.default is inspect.Parameter.empty]
    for p in sym_params:
        if p.annotation is inspect.Parameter.empty:
            raise TypeError(f"symbolic parameter {p.name} of {fn.__name__} lacks an annotation")
    sym_sig = sig.replace(parameters=sym_params)

    root = RootNode()
    t0 = time.perf_counter()
    res: Dict[str, Any] = {
        "paths": 0, "ok_paths": 0, "ignored_paths": 0, "unknown_paths": 0,
        "exhausted": False, "cex": None, "failure": None, "samples": [],
        "unknown_reasons": {}, "status_capped": False,
    }
    verdict = None
    while True:
        if time.perf_counter() - t0 > budget_s or res["paths"] >= max_paths:
            break
        res["paths"] += 1
        it0 = time.process_time()
        space = StateSpace(
            execution_deadline=it0 + per_path_s,
            model_check_timeout=per_path_s / 2,
            search_root=root,
        )
        status = None
        failure = None
        with condition_parser([AnalysisKind.PEP316]), Patched(), COMPOSITE_TRACER, NoTracing(), StateSpaceContext(space):
            try:
                pre_args = gen_args(sym_sig)
                args = deepcopyext(pre_args, CopyMode.REGULAR, {})
                with ExceptionFilter() as efilter, ResumedTracing():
                    for region in exclude:  # open known findings: verify everything outside the region
                        if eval(region, dict(fn.__globals__), dict(args.arguments, **params)):
                            raise IgnoreAttempt("inside a known-finding region")
                    fn(**args.arguments, **params)
                if efilter.ignore:
                    status = None
                    res["ignored_paths"] += 1
                elif efilter.user_exc is not None:
                    exc, stack = efilter.user_exc
                    if isinstance(exc, NotDeterministic):
                        raise exc
                    with ResumedTracing():
                        space.detach_path(exc)
                        realised = deep_realize(pre_args.arguments)
                        msg = deep_realize(str(exc))
                    # In-process native re-run of the realised model (no tracing): CrossHair's library models (regex
                    # look-behind, struct, ...) are occasionally imprecise; a model that does not fail natively is a
                    # spurious path, recorded as UNKNOWN, and the search continues.
                    genuine = True
                    try:
                        fn(**deepcopyext(realised, CopyMode.REGULAR, {}), **params)
                        genuine = False
                    except Exception:  # noqa
                        genuine = True
                    except BaseException:  # assume() natively: precondition not met by the realised values
                        genuine = False
                    if genuine:
                        failure = {
                            "exc_type": type(exc).__name__,
                            "message": msg[:2000],
                            "trace": "".join(stack.format()[-6:])[-3000:],
                        }
                        res["cex"] = {k: _plain(v) for k, v in realised.items()}
                        status = VerificationStatus.REFUTED
                    else:
                        res["spurious_models"] = res.get("spurious_models", 0) + 1
                        if len(res.setdefault("spurious_samples", [])) < 3:
                            res["spurious_samples"].append({k: _plain(v) for k, v in realised.items()})
                        res["unknown_paths"] += 1
                        res["unknown_reasons"]["model did not fail natively (imprecise library model)"] = \
                            res["unknown_reasons"].get("model did not fail natively (imprecise library model)", 0) + 1
                        status = VerificationStatus.UNKNOWN
                else:
                    status = VerificationStatus.CONFIRMED
                    res["ok_paths"] += 1
                    if len(res["samples"]) < n_samples:
                        with ResumedTracing():
                            space.detach_path()
                            realised = deep_realize(pre_args.arguments)
                        res["samples"].append({k: _plain(v) for k, v in realised.items()})
                if space.status_cap is not None and status == VerificationStatus.CONFIRMED:
                    res["status_capped"] = True
            except IgnoreAttempt:
                status = None
                res["ignored_paths"] += 1
            except UnexploredPath as e:
                status = VerificationStatus.UNKNOWN
                res["unknown_paths"] += 1
                k = type(e).__name__ + ": " + str(e)[:120]
                res["unknown_reasons"][k] = res["unknown_reasons"].get(k, 0) + 1
            except NotDeterministic:
                status = VerificationStatus.UNKNOWN
                res["unknown_paths"] += 1
                res["unknown_reasons"]["NotDeterministic"] = res["unknown_reasons"].get("NotDeterministic", 0) + 1
            _analysis, exhausted = space.bubble_status(CallAnalysis(status))
        if failure is not None:
            res["failure"] = failure
            verdict = "refuted"
            break
        if exhausted:
            res["exhausted"] = True
            break
    if verdict is None:
        if res["exhausted"]:
            if res["unknown_paths"] or res["status_capped"]:
                verdict = "unknown"
            elif res["ok_paths"] == 0:
                verdict = "vacuous"
            else:
                verdict = "confirmed"
        else:
            verdict = "unknown"
            res["unknown_reasons"]["budget"] = 1
    res["verdict"] = verdict
    res["wall_s"] = round(time.perf_counter() - t0, 3)
    res["solver_checks"] = SOLVER_STATS["checks"]
    res["solver_s"] = round(SOLVER_STATS["seconds"], 3)
    return res
