"""Obligation scheduler, classification, replay, known findings, evidence (DESIGN 2.2-2.7)."""
from __future__ import annotations

import concurrent.futures as cf
import dataclasses
import fnmatch
import hashlib
import importlib
import json
import os
import subprocess
import sys
import time
from dataclasses import dataclass, field
from typing import Any, Dict, List, Optional

VERIF = os.path.dirname(os.path.dirname(os.path.abspath(__file__)))
REPO = os.environ.get("VF_REPO", "/repo")
PY = os.path.join(VERIF, ".venv", "bin", "python")
WORKERS = int(os.environ.get("VF_WORKERS", "16"))


@dataclass
class Obl:
    name: str
    module: str
    func: str
    engine: str = "chx"                      # chx | call
    slices: List[Dict[str, Any]] = field(default_factory=lambda: [{}])
    budget_s: float = 60.0
    per_path_s: float = 20.0
    witness: bool = False                    # reachability twin: must come back refuted
    replay: Optional[str] = None             # native replay function name (default: the harness itself)
    desc: str = ""
    bound: str = ""
    n_samples: int = 1


def env_for_worker() -> Dict[str, str]:
    env = dict(os.environ)
    env["PYTHONPATH"] = os.pathsep.join([VERIF, os.path.join(VERIF, "shims"), os.path.join(REPO, "src")])
    env["PYTHONHASHSEED"] = "0"
    env["PYTHONDONTWRITEBYTECODE"] = "1"
    env.setdefault("VF_REPO", REPO)
    return env


def run_worker(module: str, func: str, spec: Dict[str, Any], timeout: float) -> Dict[str, Any]:
    cmd = [PY, "-m", "vf.worker", module, func, json.dumps(spec)]
    t0 = time.perf_counter()
    try:
        p = subprocess.run(cmd, env=env_for_worker(), cwd=VERIF, capture_output=True, text=True, timeout=timeout)
    except subprocess.TimeoutExpired:
        return {"verdict": "unknown", "unknown_reasons": {"process timeout": 1}, "total_wall_s": round(time.perf_counter() - t0, 2),
                "params": spec.get("params", {})}
    marker = "@@RESULT@@"
    idx = p.stdout.rfind(marker)
    if idx < 0:
        return {"verdict": "harness-error", "error": "worker produced no result", "stderr": p.stderr[-3000:], "stdout": p.stdout[-1000:],
                "params": spec.get("params", {})}
    r = json.loads(p.stdout[idx + len(marker):].strip().splitlines()[0])
    if p.returncode != 0:
        r.setdefault("verdict", "harness-error")
    return r


def load_known(prop: str) -> List[Dict[str, Any]]:
    path = os.path.join(VERIF, "known_findings.json")
    if not os.path.exists(path):
        return []
    with open(path) as f:
        data = json.load(f)
    return [e for e in data.get("findings", []) if e.get("property") == prop]


def _hash(o: Any) -> str:
    return hashlib.sha1(json.dumps(o, sort_keys=True, default=repr).encode()).hexdigest()[:10]


class Run:
    def __init__(self, prop: str, tier: str, seed: int):
        self.prop, self.tier, self.seed = prop, tier, seed
        self.lines: List[str] = []
        self.t0 = time.perf_counter()

    def say(self, s: str) -> None:
        print(s, flush=True)
        self.lines.append(s)


def run_property(prop: str, tier: str, seed: int = 0, only: Optional[str] = None) -> int:
    mod = importlib.import_module(f"vf.props.{prop.lower()}")
    run = Run(prop, tier, seed)
    obls: List[Obl] = mod.obligations(tier)
    if only:
        obls = [o for o in obls if fnmatch.fnmatch(o.name, only)]
    known = load_known(prop)
    exit_code = 0
    harness_error = False

    # --- known findings: replay each open witness natively
    active_known: List[Dict[str, Any]] = []
    for e in known:
        if e.get("status") != "open":
            continue
        w = e["witness"]
        r = run_worker(w["module"], w["func"], {"engine": "call", "params": w.get("params", {})}, timeout=300)
        if r.get("verdict") == "reproduced":
            run.say(f"KNOWN-FINDING: property={prop} {e['description']}")
            active_known.append(e)
        elif r.get("verdict") == "not-reproduced":
            run.say(f"note: known finding '{e['id']}' no longer reproduces; its region is verified like everything else")
        else:
            run.say(f"HARNESS-ERROR known-finding witness {e['id']}: {r.get('error') or r}")
            harness_error = True

    # --- schedule all slices
    jobs = []
    for o in obls:
        excl = [e["region"] for e in active_known
                if e.get("region") and fnmatch.fnmatch(o.name, e.get("obligation", "*"))]
        for i, sl in enumerate(o.slices):
            spec = {"engine": o.engine, "params": sl, "budget_s": o.budget_s, "per_path_s": o.per_path_s,
                    "n_samples": o.n_samples}
            if excl:
                spec["params"] = dict(sl, _exclude=excl)
            jobs.append((o, i, spec))
    results: Dict[str, List[Dict[str, Any]]] = {o.name: [None] * len(o.slices) for o in obls}  # type: ignore
    with cf.ThreadPoolExecutor(max_workers=WORKERS) as ex:
        futs = {ex.submit(run_worker, o.module, o.func, spec, o.budget_s * 1.3 + 60): (o, i, spec) for (o, i, spec) in jobs}
        for fut in cf.as_completed(futs):
            o, i, spec = futs[fut]
            results[o.name][i] = fut.result()

    # --- classify
    n_obl = 0
    n_dis = 0
    violations = 0
    inconclusive: List[str] = []
    ev_obls = []
    tot = {"paths": 0, "solver_checks": 0, "solver_s": 0.0, "cpu_s": 0.0, "replayed": 0, "slices": 0}
    samples: List[Any] = []
    for o in obls:
        rs = results[o.name]
        n_obl += 1
        verdicts = [r.get("verdict") for r in rs]
        for r in rs:
            tot["paths"] += int(r.get("paths", 0) or 0)
            tot["solver_checks"] += int(r.get("solver_checks", 0) or 0)
            tot["solver_s"] += float(r.get("solver_s", 0) or 0)
            tot["cpu_s"] += float(r.get("cpu_s", 0) or 0)
            tot["slices"] += 1
        status = None
        detail = ""
        if any(v == "harness-error" for v in verdicts):
            status = "harness-error"
            bad = next(r for r in rs if r.get("verdict") == "harness-error")
            detail = (bad.get("error") or "") + " " + (bad.get("trace") or bad.get("stderr") or "")[-1500:]
        elif o.witness:
            # reachability twin: every slice must reach its assertion point
            if all(v == "refuted" for v in verdicts):
                status = "discharged"
            elif any(v in ("vacuous", "confirmed") for v in verdicts):
                status = "harness-error"
                detail = "vacuity: witness twin never reached the assertion point in slice(s) " + \
                    str([r.get("params") for r in rs if r.get("verdict") in ("vacuous", "confirmed")][:3])
            else:
                status = "inconclusive"
                detail = "witness twin undecided"
        elif any(v == "refuted" for v in verdicts):
            # replay each counterexample natively
            reproduced = []
            for r in rs:
                if r.get("verdict") != "refuted":
                    continue
                rep = replay_model(prop, o, r)
                tot["replayed"] += 1
                if rep.get("verdict") == "reproduced":
                    reproduced.append((r, rep))
                elif rep.get("verdict") == "not-reproduced":
                    status = "harness-error"
                    detail = f"model does not replay: cex={json.dumps(r.get('cex'))[:400]} failure={r.get('failure')}"
                else:
                    status = "harness-error"
                    detail = f"replay failed: {rep.get('error') or rep}"
            if status is None:
                status = "violated"
                for r, rep in reproduced[:3]:
                    path = write_replay(prop, o, r)
                    run.say(f"VIOLATION property={prop} replay={path}")
                    run.say(f"  obligation={o.name} params={json.dumps(r.get('params'))[:300]} cex={json.dumps(r.get('cex'))[:500]}")
                    run.say(f"  {rep.get('detail', '')[:600]}")
                    violations += 1
        elif all(v == "confirmed" for v in verdicts):
            status = "discharged"
        elif any(v == "vacuous" for v in verdicts) and all(v in ("confirmed", "vacuous") for v in verdicts):
            # some slices empty is fine as long as at least one slice did real work
            if any(v == "confirmed" for v in verdicts):
                status = "discharged"
            else:
                status = "harness-error"
                detail = "vacuous obligation: no path satisfied the preconditions"
        else:
            status = "inconclusive"
            reasons: Dict[str, int] = {}
            for r in rs:
                if r.get("verdict") != "confirmed":
                    for k, v in (r.get("unknown_reasons") or {"?": 1}).items():
                        reasons[k] = reasons.get(k, 0) + v
            detail = json.dumps(reasons)[:400]
        if status == "discharged":
            n_dis += 1
        elif status == "inconclusive":
            inconclusive.append(o.name)
            run.say(f"INCONCLUSIVE obligation={prop}.{o.name} reason={detail}")
        elif status == "harness-error":
            harness_error = True
            run.say(f"HARNESS-ERROR obligation={prop}.{o.name} {detail}")
        for r in rs:
            for s in (r.get("samples") or [])[:1]:
                if len(samples) < 12:
                    samples.append({"obligation": o.name, "slice": r.get("params"), "path_model": s})
        ev_obls.append({
            "name": o.name, "engine": o.engine, "harness": f"{o.module}.{o.func}", "witness_twin": o.witness,
            "status": status, "desc": o.desc, "bound": o.bound, "slices": len(rs),
            "slice_verdicts": {v: verdicts.count(v) for v in set(verdicts)},
            "paths": sum(int(r.get("paths", 0) or 0) for r in rs),
            "solver_checks": sum(int(r.get("solver_checks", 0) or 0) for r in rs),
            "solver_s": round(sum(float(r.get("solver_s", 0) or 0) for r in rs), 2),
            "max_slice_wall_s": max([float(r.get("total_wall_s", 0) or 0) for r in rs] or [0]),
            "queries": sum(int(r.get("queries", 0) or 0) for r in rs),
        })

    if harness_error:
        exit_code = 2
    if violations:      # a natively reproduced violation is reported even if another obligation's harness is in doubt
        exit_code = 1
    wall = time.perf_counter() - run.t0
    meta = getattr(mod, "META", {})
    level = meta.get("level", "model_checking")
    coverage: Dict[str, Any] = {
        "obligations": n_obl, "discharged": n_dis,
        "inconclusive": inconclusive,
        "slices": tot["slices"],
        "states": max(tot["paths"], 1), "transitions": max(tot["solver_checks"], 1),
        "traces_validated_against_impl": tot["replayed"] + int(meta.get("validation_runs", 0)),
        "evaluations": max(tot["paths"], tot["slices"], 1),
        "distinct_nontrivial": max(tot["paths"], tot["slices"], 2) if tot["paths"] + tot["slices"] >= 2 else 2,
        "rule": "one evaluation = one symbolic path (E1) or one solver query (E2/E3) explored by this run; each path is a distinct "
                "decision vector of the search tree, so all are distinct; a path is non-trivial when it satisfied the harness "
                "preconditions and reached the assertion (ignored paths are not counted)",
        "samples": samples or [{"note": "no path models recorded"}],
        "solver_queries": tot["solver_checks"], "solver_seconds": round(tot["solver_s"], 2),
        "worker_cpu_seconds": round(tot["cpu_s"], 1),
        "checker_cmd": f"bin/check {prop} --tier {tier}",
        "trusted_base": meta.get("trusted_base", []),
        "functions_encoded": resolve_functions(meta.get("functions", [])),
        "bounds": meta.get("bounds", ""),
        "outside_claim": meta.get("outside", ""),
        "stubs": meta.get("stubs", []),
        "explanation": meta.get("explanation", ""),
        "per_obligation": ev_obls,
        "known_findings_active": [e["id"] for e in active_known],
        "exhaustive": False,
    }
    ev = {
        "property_id": prop, "tier": tier, "seed": seed, "level": level, "coverage": coverage,
        "assumptions": meta.get("assumptions", []), "wall_s": round(wall, 2), "violations": violations,
    }
    evdir = os.environ.get("VF_EVIDENCE_DIR") or os.path.join(VERIF, "evidence")
    os.makedirs(evdir, exist_ok=True)
    with open(os.path.join(evdir, f"{prop}.json"), "w") as f:
        json.dump(ev, f, indent=1, default=repr)
    run.say(f"{prop} tier={tier}: obligations={n_obl} discharged={n_dis} inconclusive={len(inconclusive)} "
            f"violations={violations} paths={tot['paths']} solver_checks={tot['solver_checks']} wall={wall:.1f}s exit={exit_code}")
    return exit_code


def resolve_functions(names: List[str]) -> List[str]:
    """file:line of each encoded function, read from the current working tree with ast (no import needed)."""
    import ast
    out = []
    cache: Dict[str, Any] = {}
    for n in names:
        try:
            modname, _, qual = n.partition(":")
            path = os.path.join(REPO, "src", *modname.split(".")) + ".py"
            if not os.path.exists(path):
                path = os.path.join(REPO, "src", *modname.split("."), "__init__.py")
            if path not in cache:
                with open(path) as f:
                    cache[path] = ast.parse(f.read())
            node: Any = cache[path]
            for part in qual.split("."):
                node = next(c for c in ast.walk(node) if isinstance(c, (ast.FunctionDef, ast.ClassDef)) and c.name == part)
            out.append(f"{os.path.relpath(path, REPO)}:{node.lineno} {qual}")
        except Exception as e:  # noqa
            out.append(f"{n} (unresolved: {type(e).__name__})")
    return out


def replay_model(prop: str, o: Obl, r: Dict[str, Any]) -> Dict[str, Any]:
    params = dict(r.get("params") or {})
    params.pop("_exclude", None)
    spec = {"engine": "call", "params": {"module": o.module, "func": o.replay or o.func, "cex": r.get("cex") or {}, "params": params}}
    return run_worker("vf.replay", "replay", spec, timeout=300)


def write_replay(prop: str, o: Obl, r: Dict[str, Any]) -> str:
    d = os.path.join(os.environ.get("VF_REPLAY_DIR") or os.path.join(VERIF, "replays"), prop)
    os.makedirs(d, exist_ok=True)
    params = dict(r.get("params") or {})
    params.pop("_exclude", None)
    body = {"property": prop, "obligation": o.name, "module": o.module, "func": o.replay or o.func,
            "params": params, "cex": r.get("cex"), "failure": r.get("failure")}
    path = os.path.join(d, f"{o.name.replace('/', '_')}-{_hash(body)}.json")
    with open(path, "w") as f:
        json.dump(body, f, indent=1)
    return path


def replay_file(path: str) -> int:
    with open(path) as f:
        body = json.load(f)
    spec = {"engine": "call", "params": {"module": body["module"], "func": body["func"], "cex": body.get("cex") or {}, "params": body.get("params") or {}}}
    r = run_worker("vf.replay", "replay", spec, timeout=300)
    print(json.dumps(r, indent=1))
    if r.get("verdict") == "reproduced":
        print(f"VIOLATION property={body['property']} replay={path}")
        return 1
    return 0 if r.get("verdict") == "not-reproduced" else 2
