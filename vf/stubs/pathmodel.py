"""Pure-Python POSIX path functions + a read-only model file system (E1 stubs for C18/C19).

`normpath` is CPython's own pure-Python reference implementation (posixpath fallback used when
the C accelerator `_path_normpath` is unavailable); `selftest()` compares it and the other
functions with the real os.path on all strings up to length 5 over {a . / \\} before use.
The model is POSIX: '/' is the only separator, a backslash is an ordinary file-name character.
"""
from __future__ import annotations

import itertools
import os as _os


def normpath(path):
    if not path:
        return '.'
    if path.startswith('/'):
        initial_slashes = 1
        if path.startswith('//') and not path.startswith('///'):
            initial_slashes = 2
    else:
        initial_slashes = 0
    comps = path.split('/')
    new_comps = []
    for comp in comps:
        if comp == '' or comp == '.':
            continue
        if (comp != '..' or (not initial_slashes and not new_comps) or
                (new_comps and new_comps[-1] == '..')):
            new_comps.append(comp)
        elif new_comps:
            new_comps.pop()
    path = '/'.join(new_comps)
    if initial_slashes:
        path = '/' * initial_slashes + path
    return path or '.'


def isabs(s):
    return s.startswith('/')


def join(a, *p):
    path = a
    for b in p:
        if b.startswith('/'):
            path = b
        elif not path or path.endswith('/'):
            path = path + b
        else:
            path = path + '/' + b
    return path


class PathModel:
    """Stands in for `os.path` inside srctools.filesys."""
    sep = '/'

    def __init__(self, fs: "ModelFS", cwd: str = '/cwd'):
        self.fs = fs
        self.cwd = cwd

    normpath = staticmethod(normpath)
    isabs = staticmethod(isabs)
    join = staticmethod(join)

    def abspath(self, path):
        if not isabs(path):
            path = join(self.cwd, path)
        return normpath(path)

    def relpath(self, path, start='.'):
        start_list = [x for x in self.abspath(start).split('/') if x]
        path_list = [x for x in self.abspath(path).split('/') if x]
        i = 0
        while i < len(start_list) and i < len(path_list) and start_list[i] == path_list[i]:
            i += 1
        rel_list = ['..'] * (len(start_list) - i) + path_list[i:]
        if not rel_list:
            return '.'
        return '/'.join(rel_list)

    def isfile(self, path):
        return self.fs.isfile(path)

    def isdir(self, path):
        return self.fs.isdir(path)

    def exists(self, path):
        return self.fs.isfile(path) or self.fs.isdir(path)

    def basename(self, p):
        return p[p.rfind('/') + 1:]

    def dirname(self, p):
        i = p.rfind('/') + 1
        head = p[:i]
        if head and head != '/' * len(head):
            head = head.rstrip('/')
        return head

    def splitext(self, p):
        return _os.path.splitext(p)


class OsModel:
    """Stands in for the `os` module inside srctools.filesys (only what the module uses)."""
    sep = '/'
    altsep = None

    def __init__(self, fs: "ModelFS", cwd: str = '/cwd'):
        self.fs = fs
        self.path = PathModel(fs, cwd)

    def walk(self, top):
        return self.fs.walk(top)

    def stat(self, path):
        return self.fs.stat(path)

    def fspath(self, p):
        return p

    def getcwd(self):
        return self.path.cwd

    def __getattr__(self, n):
        raise AttributeError(f"OsModel has no {n!r}: extend the model (harness error, not a verdict)")


class _Stat:
    st_mtime_ns = 1
    st_size = 0


class _Handle:
    def __init__(self, name, data, text):
        self.name = name
        self._data = data.decode('utf8') if text else data
        self.closed = False

    def read(self, n=-1):
        d, self._data = (self._data, self._data[:0]) if n < 0 else (self._data[:n], self._data[n:])
        return d

    def close(self):
        self.closed = True

    def __enter__(self):
        return self

    def __exit__(self, *a):
        self.close()

    def __iter__(self):
        return iter(self._data.splitlines(True))


class ModelFS:
    """Read-only directory tree. Every access is resolved the way the kernel resolves a path
    (component-wise, '..' pops, no symlinks) and logged, so an oracle can ask *what was touched*."""

    def __init__(self, files, cwd='/cwd'):
        self.files = dict(files)       # absolute normalised path -> bytes
        self.cwd = cwd
        self.log = []                  # (operation, kernel-resolved absolute path)

    def resolve(self, path):
        if not isabs(path):
            path = join(self.cwd, path)
        q = normpath(path)
        if q.startswith('//'):
            q = q[1:]
        return q

    def isfile(self, path):
        q = self.resolve(path)
        self.log.append(('isfile', q))
        return q in self.files

    def isdir(self, path):
        q = self.resolve(path)
        self.log.append(('isdir', q))
        pre = q.rstrip('/') + '/'
        return any(f.startswith(pre) for f in self.files)

    def stat(self, path):
        q = self.resolve(path)
        self.log.append(('stat', q))
        if q not in self.files:
            raise FileNotFoundError(path)
        return _Stat()

    def open(self, path, mode='r', encoding=None, **kw):
        q = self.resolve(path)
        self.log.append(('open', q))
        if 'w' in mode or 'a' in mode or 'x' in mode or '+' in mode:
            raise PermissionError('read-only model')
        if q not in self.files:
            raise FileNotFoundError(path)
        return _Handle(path, self.files[q], 'b' not in mode)

    def walk(self, top):
        q = self.resolve(top)
        self.log.append(('walk', q))
        pre = q.rstrip('/') + '/'
        dirs = {}
        for f in sorted(self.files):
            if f.startswith(pre):
                d, _, name = f.rpartition('/')
                dirs.setdefault(d or '/', []).append(name)
        # yields (dirpath, dirnames, filenames) with dirpath spelled relative to the *given* top, as os.walk does
        for d in sorted(dirs):
            suffix = d[len(q.rstrip('/')):]
            yield (top.rstrip('/') + suffix if suffix else top), [], dirs[d]


def selftest() -> int:
    """Differential validation against the real os.path (POSIX). Returns number of comparisons."""
    n = 0
    pm = PathModel(ModelFS({}), cwd=_os.getcwd())
    alpha = 'a./\\'
    for L in range(0, 6):
        for t in itertools.product(alpha, repeat=L):
            s = ''.join(t)
            assert normpath(s) == _os.path.normpath(s), s
            assert pm.abspath(s) == _os.path.abspath(s), s
            n += 2
    for a in ('', 'a', '/a', 'a/', '/r/x', '..'):
        for b in ('', 'b', '/b', '../b', 'b/', './/b', '\\b'):
            assert join(a, b) == _os.path.join(a, b), (a, b)
            if a and b:
                assert pm.relpath(_os.path.join('/r', b), _os.path.join('/', a)) == _os.path.relpath(_os.path.join('/r', b), _os.path.join('/', a)), (a, b)
            n += 2
    return n
