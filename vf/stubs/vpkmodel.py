"""In-memory stand-ins for what srctools.vpk touches outside Python data: `open`, `os`, `struct` (E1 stubs for C13).

* `MemFS`/`MemFile`: a flat read/write file system with POSIX semantics for the modes the module (and plausible
  variants of it) use: 'rb', 'wb', 'ab', 'r+b', 'w+b', 'a+b'. Append handles always write at the end, `seek()` returns the new
  position, writing past the end zero-fills. Paths are plain strings, normalised with the pure-Python normpath.
* `OsProxy`: the `os` module with `path.normpath/split/join/splitext` replaced by CPython's pure-Python
  reference implementations (without the `os.fspath` C call, which would realise a symbolic str).
* `StructProxy`: the `struct` module whose `Struct` class delegates to the module-level `pack`/`unpack`
  (which CrossHair models symbolically for integer codes).

`selftest()` validates all of it differentially against the real `open` (in a temporary directory), `os.path`
and `struct.Struct`; a failure raises SystemExit(2) (harness error, never a verdict).
"""
from __future__ import annotations

import itertools
import os as _os
import struct as _struct

from vf.stubs.pathmodel import normpath, join


# ---------------------------------------------------------------- os.path pieces (pure Python)

def split(p):
    i = p.rfind('/') + 1
    head, tail = p[:i], p[i:]
    if head and head != '/' * len(head):
        head = head.rstrip('/')
    return head, tail


def splitext(p):
    sep_index = p.rfind('/')
    dot_index = p.rfind('.')
    if dot_index > sep_index:
        filename_index = sep_index + 1
        while filename_index < dot_index:
            if p[filename_index:filename_index + 1] != '.':
                return p[:dot_index], p[dot_index:]
            filename_index += 1
    return p, p[:0]


class _PathProxy:
    sep = '/'
    normpath = staticmethod(normpath)
    split = staticmethod(split)
    join = staticmethod(join)
    splitext = staticmethod(splitext)

    @staticmethod
    def basename(p):
        return split(p)[1]

    @staticmethod
    def dirname(p):
        return split(p)[0]

    def __init__(self, fs):
        self._fs = fs

    def exists(self, p):
        return self._fs.key(p) in self._fs.files

    isfile = exists

    def __getattr__(self, n):
        raise AttributeError(f"vpkmodel os.path has no {n!r}: extend the model (harness error, not a verdict)")


class OsProxy:
    SEEK_SET, SEEK_CUR, SEEK_END = 0, 1, 2
    sep = '/'
    PathLike = _os.PathLike

    def __init__(self, fs):
        self.path = _PathProxy(fs)
        self._fs = fs

    @staticmethod
    def fspath(p):
        return p

    def remove(self, p):
        k = self._fs.key(p)
        if k not in self._fs.files:
            raise FileNotFoundError(p)
        del self._fs.files[k]

    def __getattr__(self, n):
        raise AttributeError(f"vpkmodel os has no {n!r}: extend the model (harness error, not a verdict)")


# ---------------------------------------------------------------- struct

class ModelStruct:
    def __init__(self, fmt):
        self.format = fmt
        self.size = _struct.calcsize(fmt)

    def pack(self, *a):
        return _struct.pack(self.format, *a)

    def unpack(self, b):
        return _struct.unpack(self.format, b)


class StructProxy:
    Struct = ModelStruct
    error = _struct.error

    @staticmethod
    def pack(fmt, *a):
        return _struct.pack(fmt, *a)

    @staticmethod
    def unpack(fmt, b):
        return _struct.unpack(fmt, b)

    @staticmethod
    def calcsize(fmt):
        return _struct.calcsize(fmt)


def struct_read(fmt, file):
    if not isinstance(fmt, str):
        fmt = fmt.format
    return _struct.unpack(fmt, file.read(_struct.calcsize(fmt)))


# ---------------------------------------------------------------- files

class MemFile:
    def __init__(self, fs, key, mode):
        self.fs, self.key, self.mode = fs, key, mode
        self.append = 'a' in mode
        self.can_read = 'r' in mode or '+' in mode
        self.can_write = 'w' in mode or 'a' in mode or '+' in mode
        self.pos = len(fs.files[key]) if self.append else 0
        self.closed = False
        self.name = key

    def _chk(self):
        if self.closed:
            raise ValueError("I/O operation on closed file.")

    def read(self, n=-1):
        self._chk()
        if not self.can_read:
            raise OSError("not readable")     # io.UnsupportedOperation is an OSError
        data = self.fs.files[self.key]
        if n is None or n < 0:
            out = data[self.pos:]
        else:
            out = data[self.pos:self.pos + n]
        self.pos = self.pos + len(out)
        return out

    def write(self, b):
        self._chk()
        if not self.can_write:
            raise OSError("not writable")
        data = self.fs.files[self.key]
        if self.append:
            self.pos = len(data)
        if len(b) == 0:
            return 0
        size = len(data)
        if self.pos > size:
            data = data + bytes(self.pos - size)
            size = self.pos
        end = self.pos + len(b)
        if self.pos == size:
            data = data + bytes(b)
        else:
            data = data[:self.pos] + bytes(b) + data[end:]
        self.fs.files[self.key] = data
        self.fs.writes.append((self.key, self.pos, len(b)))
        self.pos = end
        return len(b)

    def seek(self, off, whence=0):
        self._chk()
        if whence == 0:
            if off < 0:
                raise ValueError("negative seek position")
            self.pos = off
        elif whence == 1:
            self.pos = max(0, self.pos + off)
        else:
            self.pos = max(0, len(self.fs.files[self.key]) + off)
        return self.pos

    def tell(self):
        self._chk()
        return self.pos

    def close(self):
        self.closed = True

    def __enter__(self):
        return self

    def __exit__(self, *a):
        self.close()


class MemFS:
    """Flat in-memory file system; keys are normalised path strings (all concrete in the C13 harnesses)."""

    def __init__(self):
        self.files = {}
        self.writes = []       # (key, position, length) of every write, for oracles
        self.opens = []        # (key, mode)

    @staticmethod
    def key(path):
        return normpath(path)

    def open(self, path, mode='r', *a, **kw):
        if 'b' not in mode:
            raise ValueError("vpkmodel: text mode is not modelled (harness error)")
        k = self.key(path)
        self.opens.append((k, mode))
        m = mode.replace('b', '')
        if m in ('r', 'r+'):
            if k not in self.files:
                raise FileNotFoundError(2, "No such file or directory", path)
        elif m in ('w', 'w+'):
            self.files[k] = b''
        elif m in ('a', 'a+'):
            if k not in self.files:
                self.files[k] = b''
        elif m in ('x', 'x+'):
            if k in self.files:
                raise FileExistsError(17, "File exists", path)
            self.files[k] = b''
        else:
            raise ValueError(f"invalid mode: {mode!r}")
        return MemFile(self, k, m)


# ---------------------------------------------------------------- engine tweak

def _rstrip_ref(s, chars=None):
    """rstrip written with non-negative slice bounds only (the reference the tweak installs for symbolic str)."""
    if chars is None:
        def flt(ch):
            return ch.isspace()
    elif isinstance(chars, str):
        def flt(ch):
            return ch in chars
    else:
        raise TypeError
    end = s.__len__()
    while end > 0 and flt(s[end - 1]):
        end -= 1
    return s[0:end]


def symstr_rstrip_fix() -> list:
    """CrossHair 0.0.110: `(sym + "/")[:-1] == sym` evaluates to False on a feasible path (negative slice end on a
    concatenated symbolic str), and AnySymbolicStr.rstrip is written with `self[:-1]`. Replace rstrip by the same
    algorithm with non-negative bounds. The artefact can only produce spurious counterexamples (which do not replay
    natively => HARNESS-ERROR), the replacement is validated against str.rstrip in selftest()."""
    from crosshair.libimpl import builtinslib as bl
    if getattr(bl.AnySymbolicStr, "_vf_rstrip", False):
        return []
    bl.AnySymbolicStr.rstrip = lambda self, chars=None: _rstrip_ref(self, chars)
    bl.AnySymbolicStr._vf_rstrip = True
    return ["crosshair AnySymbolicStr.rstrip rewritten with non-negative slice bounds"]


# ---------------------------------------------------------------- validation

def selftest() -> int:
    import tempfile
    n = 0
    try:
        alpha = 'a./'
        for L in range(0, 6):
            for t in itertools.product(alpha, repeat=L):
                s = ''.join(t)
                assert split(s) == _os.path.split(s), s
                assert splitext(s) == _os.path.splitext(s), s
                assert _rstrip_ref(s, '/') == s.rstrip('/') and _rstrip_ref(s + ' \n') == (s + ' \n').rstrip(), s
                n += 3
        for fmt in ('<IHHIIH', '<III', '<I', '<4I'):
            vals = tuple(range(7, 7 + len(_struct.Struct(fmt).unpack(bytes(_struct.calcsize(fmt))))))
            assert ModelStruct(fmt).pack(*vals) == _struct.Struct(fmt).pack(*vals)
            assert ModelStruct(fmt).unpack(_struct.pack(fmt, *vals)) == vals
            assert ModelStruct(fmt).size == _struct.Struct(fmt).size
            n += 3
        # the same scripted I/O sequence on the model and on real files
        scripts = [
            [('wb', [('w', b'abcdef'), ('s', 2, 0), ('w', b'XY'), ('t',), ('s', 0, 2), ('w', b'!'), ('t',)])],
            [('wb', [('w', b'abc')]), ('ab', [('s', 0, 2), ('w', b'de'), ('t',), ('s', 0, 0), ('w', b'fg'), ('s', 0, 2)]), ('rb', [('r', 2), ('s', 1, 0), ('r', -1), ('r', 3)])],
            [('ab', [('t',), ('w', b'xy')]), ('r+b', [('s', 1, 0), ('w', b'Z'), ('r', 5), ('s', 5, 0), ('w', b'Q')]), ('rb', [('r', -1)])],
            [('wb', [('w', b'12345678')]), ('r+b', [('s', 6, 0), ('w', b'abcd'), ('s', 0, 0), ('r', 3), ('t',)]), ('rb', [('s', 4, 0), ('r', 100), ('r', 1)])],
            [('wb', [('w', b'')]), ('rb', [('r', 1), ('r', -1)]), ('wb', []), ('rb', [('r', -1)])],
            [('wb', [('s', 3, 0), ('w', b'x'), ('s', 1, 0), ('w', b''), ('t',)]), ('rb', [('r', -1)])],
        ]
        with tempfile.TemporaryDirectory() as tmp:
            for si, script in enumerate(scripts):
                fs = MemFS()
                real = _os.path.join(tmp, f"f{si}")
                for mode, acts in script:
                    got = []
                    for opener, path in ((fs.open, '/m/f'), (open, real)):
                        out = []
                        with opener(path, mode) as f:
                            for a in acts:
                                if a[0] == 'w':
                                    out.append(f.write(a[1]))
                                elif a[0] == 's':
                                    out.append(f.seek(a[1], a[2]))
                                elif a[0] == 't':
                                    out.append(f.tell())
                                else:
                                    out.append(f.read(a[1]))
                        got.append(out)
                    assert got[0] == got[1], (si, mode, got)
                    with open(real, 'rb') as f:
                        assert f.read() == fs.files['/m/f'], (si, mode)
                    n += 1
            for opener, path in ((MemFS().open, '/m/none'), (open, _os.path.join(tmp, 'none'))):
                for mode in ('rb', 'r+b'):
                    try:
                        opener(path, mode)
                    except FileNotFoundError:
                        n += 1
                    else:
                        raise AssertionError('missing file opened')
    except AssertionError as e:
        print(f"HARNESS-ERROR vpkmodel selftest failed: {e!r}")
        raise SystemExit(2)
    return n
