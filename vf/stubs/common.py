"""Namespace stubs shared by the E1 harnesses (DESIGN section 1, 'Realisation is the enemy').

Nothing here edits /repo: every stub is assigned into a *module namespace* of the imported
working-tree modules, from the worker process. Each stub is exact or over-approximating.
"""
from __future__ import annotations

import builtins
import sys


class _SysProxy:
    """`sys` with interning as the identity (sys.intern realises symbolic str in C)."""
    def __getattr__(self, n):
        return getattr(sys, n)

    @staticmethod
    def intern(s):
        return s


def stub_intern() -> list:
    import srctools.keyvalues as kv
    done = []
    if getattr(kv, "sys", None) is sys:
        kv.sys = _SysProxy()
        done.append("srctools.keyvalues.sys.intern -> identity")
    try:
        import srctools.vmf as vmf
        if hasattr(vmf, "intern"):
            vmf.intern = lambda s: s
            done.append("srctools.vmf.intern -> identity")
        if getattr(vmf, "sys", None) is sys:
            vmf.sys = _SysProxy()
    except Exception:  # noqa
        pass
    return done


def stub_bare_disallowed() -> list:
    """`c in frozenset` hashes c (C code => realisation). A tuple with the same members is equivalent."""
    import srctools.tokenizer as tk
    cur = tk.BARE_DISALLOWED
    if isinstance(cur, (frozenset, set)):
        tk.BARE_DISALLOWED = tuple(sorted(cur))
        return ["srctools.tokenizer.BARE_DISALLOWED frozenset -> tuple (same members, rebuilt from the module's current value)"]
    return []


def casefold_fastpath() -> list:
    """Engine tweak (iii): fold concrete code points natively, ASCII symbolic ones arithmetically.

    Validated against str.casefold on every code point < 128 (the only range the arithmetic
    branch handles) before being installed; other code points fall back to CrossHair's tables.
    """
    from crosshair.libimpl import builtinslib as bl
    from crosshair.tracers import NoTracing
    if getattr(bl.LazyIntSymbolicStr, "_vf_casefold", False):
        return []
    for cp in range(128):
        want = chr(cp).casefold()
        got = chr(cp + 32) if 65 <= cp <= 90 else chr(cp)
        if want != got:
            raise SystemExit(2)
    _orig = bl.LazyIntSymbolicStr.casefold

    def casefold(self):
        n = len(self)
        out = []
        conc = []
        for i in range(n):
            with NoTracing():
                cps = self._codepoints
                cp = cps[i] if type(cps) in (list, tuple) and type(i) is int else None
            if cp is None:
                cp = ord(self[i])
            with NoTracing():
                is_int = type(cp) is int
            if is_int:
                with NoTracing():
                    conc.append(chr(cp).casefold())
            else:
                if conc:
                    out.append(''.join(conc))
                    conc = []
                if cp < 128:
                    if 65 <= cp <= 90:
                        out.append(bl.LazyIntSymbolicStr([cp + 32]))
                    else:
                        out.append(bl.LazyIntSymbolicStr([cp]))
                else:
                    out.append(_orig(bl.LazyIntSymbolicStr([cp])))
        if conc:
            out.append(''.join(conc))
        res = ''
        for piece in out:
            res = res + piece
        return res

    bl.LazyIntSymbolicStr.casefold = casefold
    bl.LazyIntSymbolicStr._vf_casefold = True
    return ["crosshair LazyIntSymbolicStr.casefold fast path (native for concrete code points, +32 for symbolic ASCII upper-case)"]


def text_stubs() -> list:
    return stub_intern() + stub_bare_disallowed() + casefold_fastpath()
