"""`float(text)` on a CrossHair string proxy whose characters are all concrete (C06: floats are concrete constants, but the
text piece they are cut from is a proxy because a symbolic leaf was written into the same piece).

CrossHair answers float(proxy) with a fresh RealBasedSymbolicFloat, which caps every verdict at UNKNOWN and decouples the number
from its text.  The shim turns the proxy back into the real `str` it denotes and calls the real C `float` on it - exact.
If some character of the argument is still symbolic it is realised first (CrossHair forks on the chosen value, so the search tree
stays un-exhausted rather than unsound); in C06 that never happens, the separators around numeric fields are excluded by
precondition.  Installed into module namespaces only; `isinstance(x, float)` keeps working through the metaclass.
"""
from __future__ import annotations

import builtins

_real_float = builtins.float


class _FloatMeta(type):
    def __instancecheck__(cls, obj):
        return isinstance(obj, _real_float)

    def __subclasscheck__(cls, sub):
        return issubclass(sub, _real_float)


class FloatShim(metaclass=_FloatMeta):
    def __new__(cls, x=0.0):
        from crosshair.tracers import NoTracing
        with NoTracing():
            if type(x) in (str, _real_float, int, bool):
                return _real_float(x)
        from crosshair.core import realize
        v = realize(x)
        with NoTracing():
            return _real_float(v)

    # class attributes used as `float.xxx` are forwarded
    fromhex = _real_float.fromhex


def stub_float(modules=("srctools.vmf", "srctools.math", "srctools", "srctools.keyvalues")) -> list:
    import importlib
    done = []
    for name in modules:
        mod = importlib.import_module(name)
        if "float" not in vars(mod) or vars(mod)["float"] is _real_float:
            mod.float = FloatShim
            done.append(f"{name}.float -> exact float(str) on de-proxied text")
    # self-test (native semantics)
    for t in ("0", "-64.25", "3.14159e-05", " 1.5 ", "1e-07"):
        if FloatShim(t) != _real_float(t) or not isinstance(FloatShim(t), FloatShim):
            raise SystemExit(2)
    try:
        FloatShim("x")
        raise SystemExit(2)
    except ValueError:
        pass
    return done


# ---------------------------------------------------------------------------------------------- int(text)
_real_int = builtins.int


class _IntMeta(type):
    def __instancecheck__(cls, obj):
        return isinstance(obj, _real_int)

    def __subclasscheck__(cls, sub):
        return issubclass(sub, _real_int)


class IntShim(metaclass=_IntMeta):
    """`int(text)` on a string proxy with concrete characters: CrossHair's own int(str) model goes through z3 string theory
    (measured: > 60 s per path on a 200-character piece). Same de-proxying as FloatShim; symbolic ints/bools are passed on to
    CrossHair's normal `int` handling."""
    def __new__(cls, x=0, *a):
        from crosshair.tracers import NoTracing
        with NoTracing():
            native = type(x) in (str, _real_int, _real_float, bool)
            if native:
                return _real_int(x, *a)
        if isinstance(x, str):
            from crosshair.core import realize
            v = realize(x)
            with NoTracing():
                return _real_int(v, *a)
        return _real_int(x, *a)

    from_bytes = _real_int.from_bytes


def stub_int(modules=("srctools.vmf", "srctools", "srctools.keyvalues")) -> list:
    import importlib
    done = []
    for name in modules:
        mod = importlib.import_module(name)
        if "int" not in vars(mod) or vars(mod)["int"] is _real_int:
            mod.int = IntShim
            done.append(f"{name}.int -> exact int(str) on de-proxied text")
    for t in ("0", "-64", " 12 ", "2147483648"):
        if IntShim(t) != _real_int(t) or not isinstance(IntShim(t), IntShim) or not isinstance(True, IntShim):
            raise SystemExit(2)
    if IntShim(3.9) != 3 or IntShim(True) != 1 or IntShim("ff", 16) != 255:
        raise SystemExit(2)
    try:
        IntShim("1.5")
        raise SystemExit(2)
    except ValueError:
        pass
    return done
