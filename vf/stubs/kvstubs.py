"""Namespace stubs for srctools.keyvalues used by C03 (E1).

`FLAGS_DEFAULT.get(flag_val, False)` hashes a flag name that comes from the (symbolic) text: a real dict realises it.
`ScanMap` holds the same items and answers `get`/`[]`/`in` by scanning with `==` (exact: same answers as the dict for
every str key). It is validated against the real dict in `stub_flags_default()`; a mismatch aborts the worker (exit 2).
"""
from __future__ import annotations

from collections.abc import Mapping


class ScanMap(Mapping):
    """Read-only mapping over a tuple of (key, value) pairs; lookup by equality scan (no hashing of the probe key)."""
    def __init__(self, items):
        self._items = tuple(items)

    def __getitem__(self, key):
        for k, v in self._items:
            if k == key:
                return v
        raise KeyError(key)

    def get(self, key, default=None):
        for k, v in self._items:
            if k == key:
                return v
        return default

    def __contains__(self, key):
        for k, _v in self._items:
            if k == key:
                return True
        return False

    def __iter__(self):
        return iter([k for k, _v in self._items])

    def __len__(self):
        return len(self._items)


def stub_flags_default() -> list:
    import srctools.keyvalues as kv
    cur = kv.FLAGS_DEFAULT
    if isinstance(cur, ScanMap):
        return []
    model = ScanMap(cur.items())
    for probe in list(cur) + ['', 'x', 'WIN32', 'win32 ', '!win32', '﻿']:
        if model.get(probe, False) != cur.get(probe, False) or (probe in model) != (probe in cur):
            raise SystemExit(2)
    kv.FLAGS_DEFAULT = model
    return ["srctools.keyvalues.FLAGS_DEFAULT dict -> ScanMap (same items, lookup by == scan; validated against the dict)"]
