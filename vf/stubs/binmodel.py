"""Pure-Python models of `struct.Struct` and `io.BytesIO` for the binary-format harnesses (E1).

Both exist because the C implementations realise (concretise) symbolic ints / bytes:
* ModelStruct delegates to the module-level `struct.pack/unpack/iter_unpack`, which CrossHair models
  symbolically for the integer codes (same function by definition of `struct.Struct`).
* ModelBytesIO keeps the buffer as one bytes-like value that is only ever sliced and concatenated.
Each is validated natively against the real class by `selftest()` on every run (failure => exit 2).
"""
from __future__ import annotations

import io
import struct


def std_format(fmt):
    """CrossHair 0.0.110's symbolic struct treats a format without a byte-order prefix ('@', native) as BIG-endian and
    unaligned.  On a little-endian machine a native format whose native size equals its standard size (no padding,
    same item sizes) is byte-for-byte the '<' format, so it is rewritten to that; anything else is refused."""
    import sys
    if isinstance(fmt, bytes):
        fmt = fmt.decode('ascii')
    if not isinstance(fmt, str):
        return fmt
    body = fmt.strip()
    if body[:1] in ('<', '>', '!', '='):
        return fmt
    if body[:1] == '@':
        body = body[1:]
    if sys.byteorder != 'little' or struct.calcsize(fmt) != struct.calcsize('<' + body):
        raise SystemExit(2)
    return '<' + body


def iter_unpack(fmt, buffer):
    """struct.iter_unpack as a plain traced generator (CrossHair 0.0.110's model yields from inside NoTracing(), so the
    consumer's loop body would run untraced)."""
    fmt = std_format(fmt)
    size = struct.calcsize(fmt)
    if size == 0 or len(buffer) % size:
        raise struct.error(f'iterative unpacking requires a buffer of a multiple of {size} bytes')

    def gen():
        for off in range(0, len(buffer), size):
            yield struct.unpack(fmt, buffer[off:off + size])
    return gen()


class ModelStruct:
    def __init__(self, fmt):
        if isinstance(fmt, bytes):
            fmt = fmt.decode('ascii')
        self.format = fmt
        self._fmt = std_format(fmt + '')
        self.size = struct.calcsize(self._fmt)

    def pack(self, *args):
        return struct.pack(self._fmt, *args)

    def unpack(self, buffer):
        return struct.unpack(self._fmt, buffer)

    def unpack_from(self, buffer, offset=0):
        if offset < 0:
            offset += len(buffer)
        if len(buffer) - offset < self.size:
            raise struct.error(f'unpack_from requires a buffer of at least {self.size + offset} bytes')
        return struct.unpack(self._fmt, buffer[offset:offset + self.size])

    def iter_unpack(self, buffer):
        if self.size == 0 or len(buffer) % self.size:
            raise struct.error(f'iterative unpacking requires a buffer of a multiple of {self.size} bytes')
        return iter_unpack(self._fmt, buffer)

    def pack_into(self, buffer, offset, *args):
        data = struct.pack(self._fmt, *args)
        buffer[offset:offset + len(data)] = data

    def __repr__(self):
        return f'ModelStruct({self.format!r})'


class ModelBytesIO:
    """In-memory binary file; the buffer is a bytes-like value built by slicing and `+` only."""

    def __init__(self, initial=b''):
        self._buf = initial if not isinstance(initial, bytearray) else bytes(initial)
        self._pos = 0
        self.closed = False

    def write(self, data):
        n = len(data)
        if n == 0:
            return 0
        if isinstance(data, (bytearray, memoryview)):
            data = bytes(data)
        cur = len(self._buf)
        if self._pos == cur:
            self._buf = self._buf + data if cur else data
        elif self._pos > cur:
            self._buf = self._buf + bytes(self._pos - cur) + data
        else:
            self._buf = self._buf[:self._pos] + data + self._buf[self._pos + n:]
        self._pos += n
        return n

    def read(self, size=-1):
        if size is None or size < 0:
            out = self._buf[self._pos:]
        else:
            out = self._buf[self._pos:self._pos + size]
        self._pos += len(out)
        return out

    def tell(self):
        return self._pos

    def seek(self, pos, whence=0):
        if whence == 0:
            if pos < 0:
                raise ValueError(f'negative seek value {pos}')
            self._pos = pos
        elif whence == 1:
            self._pos = max(0, self._pos + pos)
        elif whence == 2:
            self._pos = max(0, len(self._buf) + pos)
        else:
            raise ValueError('invalid whence')
        return self._pos

    def getvalue(self):
        return self._buf

    def getbuffer(self):
        return self._buf

    def close(self):
        self.closed = True

    def seekable(self):
        return True

    def readable(self):
        return True

    def writable(self):
        return True

    def flush(self):
        pass

    def __enter__(self):
        return self

    def __exit__(self, *a):
        self.close()
        return False


def selftest(formats=()):
    """Differential test of both models against the real classes (native run)."""
    import random
    rnd = random.Random(11)
    # --- BytesIO: scripted operation sequences
    for _ in range(200):
        real, model = io.BytesIO(), ModelBytesIO()
        if rnd.random() < 0.5:
            init = bytes(rnd.randrange(256) for _ in range(rnd.randrange(0, 12)))
            real, model = io.BytesIO(init), ModelBytesIO(init)
        for _ in range(12):
            op = rnd.randrange(5)
            if op == 0:
                d = bytes(rnd.randrange(256) for _ in range(rnd.randrange(0, 6)))
                a, b = real.write(d), model.write(d)
            elif op == 1:
                k = rnd.choice([-1, 0, 1, 2, 5, 40])
                a, b = real.read(k), bytes(model.read(k))
            elif op == 2:
                k = rnd.randrange(0, 20)
                a, b = real.seek(k), model.seek(k)
            elif op == 3:
                a, b = real.tell(), model.tell()
            else:
                a, b = real.getvalue(), bytes(model.getvalue())
            if a != b:
                raise SystemExit(2)
        if real.getvalue() != bytes(model.getvalue()):
            raise SystemExit(2)
    # --- Struct: the given formats with random in-range values
    rng = {'b': (-128, 127), 'B': (0, 255), 'h': (-2**15, 2**15 - 1), 'H': (0, 2**16 - 1), 'i': (-2**31, 2**31 - 1),
           'I': (0, 2**32 - 1), 'l': (-2**31, 2**31 - 1), 'L': (0, 2**32 - 1), 'q': (-2**63, 2**63 - 1), 'Q': (0, 2**64 - 1)}
    for fmt in formats:
        real, model = struct.Struct(fmt), ModelStruct(fmt)
        if real.size != model.size:
            raise SystemExit(2)
        blob = bytes(rnd.randrange(256) for _ in range(real.size))
        try:
            a = real.unpack(blob)
        except struct.error:
            continue
        if a != model.unpack(blob) or a != model.unpack_from(b'zz' + blob + b'q', 2) or real.unpack_from(b'zz' + blob + b'q', 2) != a:
            raise SystemExit(2)
        if list(real.iter_unpack(blob * 3)) != list(model.iter_unpack(blob * 3)):
            raise SystemExit(2)
        # floats may be NaN in a random blob: compare the packed bytes of the re-pack instead of values
        try:
            if real.pack(*a) != model.pack(*a):
                raise SystemExit(2)
        except struct.error:
            pass
    return True


def or_disjoint_fastpath(ks=(8, 7, 14, 17, 16)) -> list:
    """Engine tweak: CrossHair realises BOTH operands of int `|` (z3 Int has no bitwise ops), which turns a symbolic
    flags word into an endless value enumeration.  Identity used instead:  0 <= lo < 2**k  and  hi % 2**k == 0
    ==>  lo | hi == lo + hi  (the low k bits of hi are zero, also for negative hi in two's complement).  The
    fast path is taken only when the solver shows the side condition NECESSARILY holds on the current path; otherwise
    CrossHair's own implementation runs unchanged.  The identity is validated natively on random values first."""
    import random
    rnd = random.Random(5)
    for _ in range(4000):
        k = rnd.choice(ks)
        lo = rnd.randrange(0, 2 ** k)
        hi = rnd.randrange(-2 ** 70, 2 ** 70) * 2 ** k
        if (lo | hi) != lo + hi or (hi | lo) != lo + hi:
            raise SystemExit(2)
        x = rnd.randrange(-2 ** 70, 2 ** 70)
        if (x | (x - x % 2 ** k)) != x:
            raise SystemExit(2)
    import z3
    from crosshair.libimpl import builtinslib as bl
    from crosshair.statespace import context_statespace
    from crosshair.tracers import NoTracing
    cls = bl.SymbolicIntable
    if getattr(cls, "_vf_or", False):
        return []
    orig_or, orig_ror = cls.__or__, cls.__ror__

    def _expr(x):
        if isinstance(x, bl.SymbolicInt):
            return x.var
        if type(x) is int:
            return z3.IntVal(x)
        return None

    def _try(a, b):
        ea, eb = _expr(a), _expr(b)
        if ea is None or eb is None:
            return None
        space = context_statespace()
        for k in ks:
            m = 2 ** k
            for lo, hi in ((ea, eb), (eb, ea)):
                cond = z3.And(lo >= 0, lo < m, hi % m == 0)
                if not space.is_possible(z3.Not(cond)):
                    return bl.SymbolicInt(lo + hi)
        for k in ks:
            m = 2 ** k
            for lo, hi, res in ((ea, eb, a), (eb, ea, b)):
                # absorption: hi is lo with its low k bits cleared  ==>  lo | hi == lo
                if not space.is_possible(z3.Not(hi == lo - lo % m)):
                    return res
        return None

    def __or__(self, other):
        with NoTracing():
            r = _try(self, other)
        if r is not None:
            return r
        return orig_or(self, other)

    def __ror__(self, other):
        with NoTracing():
            r = _try(other, self)
        if r is not None:
            return r
        return orig_ror(self, other)

    cls.__or__ = __or__
    cls.__ror__ = __ror__
    cls._vf_or = True
    return ["crosshair SymbolicInt.__or__ fast path: lo | hi == lo + hi when the solver proves 0 <= lo < 2**k and hi % 2**k == 0"]
