"""I/O stubs for the C10 harnesses (BSP read/save under CrossHair).

* PieceFile  -- in-memory binary file that keeps the written pieces apart (the binary analogue of ChunkSink, DESIGN
  section 1 rule (i)): a `read(n)` that coincides with a stored piece hands that very object back, so concrete records
  stay real `bytes` (struct/LZMA see real bytes) and a symbolic payload stays one symbolic value; anything else is
  assembled from the overlapping pieces.  Positions and lengths are always concrete.
* ModelFS / model_open / ModelAtomicWriter -- a dict of PieceFiles standing in for `open(name, 'br')` and
  `srctools.filesys.AtomicWriter` (whose own behaviour is property C12, not C10).
* CellStruct / StructProxy -- `struct` for the integer/bytes codes of the BSP header, lump table and game-lump table,
  exact on byte cells (concrete cells take the real `struct` untraced; symbolic cells use integer arithmetic).  Stands in
  for the module-level `struct` of srctools.bsp (CrossHair's own struct model is big-endian for formats without '<',
  see reports/C20.md) and for `binformat.Struct` / `_cached_struct`.
Everything is compared with the real objects by selftest() at every worker start (mismatch => SystemExit(2)).
Native replays never use this file.
"""
from __future__ import annotations

import contextlib
import io
import struct as _struct

from vf.stubs import binio

_CH = False


def enable_symbolic() -> list:
    global _CH
    _CH = True
    return binio.enable_symbolic()


def nt():
    """NoTracing under CrossHair, nothing natively."""
    if _CH:
        from crosshair.tracers import NoTracing
        return NoTracing()
    return contextlib.nullcontext()


def is_conc(x) -> bool:
    if not _CH:
        return True
    with nt():
        return type(x) in (bytes, int, bool, float, str, bytearray, type(None))


def all_conc(xs) -> bool:
    if not _CH:
        return True
    with nt():
        for x in xs:
            if type(x) not in (bytes, int, bool, float, str, bytearray, type(None)):
                return False
        return True


def cells_of(data) -> list:
    """The byte cells of a bytes-like (symbolic cells stay symbolic)."""
    if is_conc(data):
        with nt():
            return list(data)
    return [data[i] for i in range(clen(data))]


def clen(data) -> int:
    """Concrete length (lengths are never symbolic in these harnesses)."""
    if is_conc(data):
        with nt():
            return len(data)
    n = len(data)
    if not is_conc(n):
        n = int(n)          # realises; harness arguments are cut to exact lengths before they get here
        with nt():
            n = int(n)
    return n


def mk(cells):
    if all_conc(cells):
        with nt():
            return bytes(cells)
    return binio._mk(cells)


class PieceFile:
    def __init__(self, pieces=()):
        self.p = []            # [offset, length, data], sorted, contiguous from 0
        self.size = 0
        self.pos = 0
        self.closed = False
        for d in pieces:
            self.write(d)
        self.pos = 0

    def write(self, data) -> int:
        n = clen(data)
        if n == 0:
            return 0
        s, e = self.pos, self.pos + n
        if s >= self.size:
            if s > self.size:
                self.p.append([self.size, s - self.size, bytes(s - self.size)])
            self.p.append([s, n, data])
        else:
            before, after = [], []
            for off, m, d in self.p:
                if off < s:
                    before.append([off, m, d] if off + m <= s else [off, s - off, d[:s - off]])
                if off + m > e:
                    after.append([off, m, d] if off >= e else [e, off + m - e, d[e - off:]])
            self.p = before + [[s, n, data]] + after
        if e > self.size:
            self.size = e
        self.pos = e
        return n

    def read(self, n=-1):
        s = self.pos
        e = self.size if (n is None or n < 0) else min(self.size, s + n)
        if e <= s:
            return b""
        self.pos = e
        parts = []
        for off, m, d in self.p:
            if off + m <= s or off >= e:
                continue
            if off >= s and off + m <= e:
                parts.append(d)
            else:
                parts.append(d[max(s, off) - off:min(e, off + m) - off])
        if len(parts) == 1:
            return parts[0]
        if all_conc(parts):
            with nt():
                return b"".join(parts)
        cells = []
        for d in parts:
            cells.extend(cells_of(d))
        return mk(cells)

    def getvalue(self):
        keep = self.pos
        self.pos = 0
        try:
            return self.read()
        finally:
            self.pos = keep

    def seek(self, off, whence=0):
        if not is_conc(off):
            off = int(off)
            with nt():
                off = int(off)
        if whence == 0:
            if off < 0:
                raise ValueError(f"negative seek value {off}")
            self.pos = off
        elif whence == 1:
            self.pos = max(0, self.pos + off)
        elif whence == 2:
            self.pos = max(0, self.size + off)
        else:
            raise ValueError("invalid whence")
        return self.pos

    def tell(self) -> int:
        return self.pos

    def readable(self):
        return True

    def writable(self):
        return True

    def seekable(self):
        return True

    def flush(self):
        pass

    def close(self):
        self.closed = True

    def __enter__(self):
        return self

    def __exit__(self, *a):
        self.close()
        return False


class ModelFS:
    def __init__(self):
        self.files = {}

    def open(self, name, mode="r", *a, **k):
        assert "b" in mode and "r" in mode, mode
        try:
            f = self.files[str(name)]
        except KeyError:
            raise FileNotFoundError(name) from None
        h = PieceFile()
        h.p, h.size = f.p, f.size       # read-only handle sharing the pieces
        return h

    def atomic_writer(self):
        fs = self

        class ModelAtomicWriter:
            def __init__(self, filename, is_bytes=False, encoding="utf8"):
                assert is_bytes
                self.filename = str(filename)
                self.f = None

            def __enter__(self):
                self.f = PieceFile()
                return self.f

            def __exit__(self, et, ev, tb):
                if et is None:
                    fs.files[self.filename] = self.f
                return False

        return ModelAtomicWriter


# ---------------------------------------------------------------------------------------------------- struct on cells
_INT = binio._INT_CODES


class _StructMeta(type):
    """`isinstance(x, binformat.Struct)` must stay true for the real struct.Struct objects of the lump layouts."""

    def __instancecheck__(cls, obj):
        return type.__instancecheck__(cls, obj) or isinstance(obj, _struct.Struct)


class CellStruct(binio.ModelStruct, metaclass=_StructMeta):
    """binio.ModelStruct with a concrete fast path (the real struct, untraced) and cell arithmetic for symbolic ints."""

    def __init__(self, fmt):
        if isinstance(fmt, bytes):
            fmt = fmt.decode("ascii")
        if fmt.strip() in ("", "<", "@", "="):     # empty format (e.g. a zero-length array): ModelStruct cannot parse it
            self.format, self.size, self.prefix, self.fields, self.nargs = fmt, 0, fmt.strip(), [], 0
        else:
            super().__init__(fmt)
        self._real = _struct.Struct(fmt)

    def pack(self, *args):
        if all_conc(args):
            with nt():
                return self._real.pack(*args)
        if len(args) != self.nargs:
            raise _struct.error(f"pack expected {self.nargs} items for packing (got {len(args)})")
        cells = [0] * self.size
        ai = 0
        for code, cnt, off, size in self.fields:
            if code == "x":
                continue
            v = args[ai]
            ai += 1
            if code == "s":
                vc = cells_of(v)[:cnt]
                cells[off:off + len(vc)] = vc
            elif code in "fd":
                cells[off:off + size] = list(_struct.pack("<" + code, v))
            elif code == "?":
                cells[off] = 1 if v else 0
            else:
                _sz, signed = _INT[code]
                if is_conc(v):
                    with nt():
                        try:
                            cells[off:off + size] = list((v + 0).to_bytes(size, "little", signed=signed))
                        except OverflowError as e:
                            raise _struct.error(str(e)) from e
                    continue
                bits = 8 * size
                lo, hi = (-(1 << (bits - 1)), (1 << (bits - 1)) - 1) if signed else (0, (1 << bits) - 1)
                if v < lo or v > hi:
                    raise _struct.error(f"'{code}' format requires {lo} <= number <= {hi}")
                u = v
                if signed and v < 0:
                    u = v + (1 << bits)
                for k in range(size):
                    cells[off + k] = (u // (256 ** k)) % 256
        return mk(cells)

    def unpack(self, buf):
        if is_conc(buf):
            with nt():
                return self._real.unpack(buf)
        if clen(buf) != self.size:
            raise _struct.error(f"unpack requires a buffer of {self.size} bytes")
        cells = cells_of(buf)
        res = []
        for code, cnt, off, size in self.fields:
            if code == "x":
                continue
            part = cells[off:off + size]
            if all_conc(part):
                with nt():
                    res.append(_struct.unpack("<" + (f"{cnt}s" if code == "s" else code), bytes(part))[0])
                continue
            if code == "s":
                res.append(mk(part))
            elif code == "?":
                res.append(part[0] != 0)
            elif code in "fd":
                raise TypeError("symbolic float field")
            else:
                _sz, signed = _INT[code]
                v = 0
                for k in range(size):
                    v = v + part[k] * (256 ** k)
                if signed and part[size - 1] >= 128:
                    v = v - (1 << (8 * size))
                res.append(v)
        return tuple(res)

    def unpack_from(self, buf, offset=0):
        return self.unpack(buf[offset:offset + self.size])

    def iter_unpack(self, buf):
        if is_conc(buf):
            with nt():
                return iter(list(self._real.iter_unpack(buf)))
        n = clen(buf)
        if n % self.size:
            raise _struct.error(f"iterative unpacking requires a buffer of a multiple of {self.size} bytes")
        return iter([self.unpack(buf[i:i + self.size]) for i in range(0, n, self.size)])


_CS = {}


def cs(fmt) -> CellStruct:
    m = _CS.get(fmt)
    if m is None:
        m = _CS[fmt] = CellStruct(fmt)
    return m


class StructProxy:
    """Stands in for the `struct` module inside srctools.bsp."""
    error = _struct.error
    Struct = CellStruct

    @staticmethod
    def pack(fmt, *args):
        return cs(fmt).pack(*args)

    @staticmethod
    def unpack(fmt, buf):
        return cs(fmt).unpack(buf)

    @staticmethod
    def unpack_from(fmt, buf, offset=0):
        return cs(fmt).unpack_from(buf, offset)

    @staticmethod
    def iter_unpack(fmt, buf):
        return cs(fmt).iter_unpack(buf)

    @staticmethod
    def calcsize(fmt):
        return _struct.calcsize(fmt)


_DONE = False


def selftest() -> None:
    global _DONE, _CH
    if _DONE:
        return
    saved, _CH = _CH, False
    try:
        binio.selftest()
        cases = [("<4si", (b"VBSP", 20)), ("<4i", (1036, 5, -3, 0)), ("<i", (-1,)), ("<4s HH", (b"prps", 65535, 7)),
                 ("<ii", (77, 2 ** 31 - 1)), ("<8xi4x", (9,)), ("<4s HH ii", (b"abcd", 2, 3, -4, 5)), ("<HHH", (1, 2, 65535)),
                 ("i", (-7,)), ("ii", (3, 4)), ("<ffH2x", (1.5, 2.0, 9))]
        for fmt, args in cases:
            real, mine = _struct.Struct(fmt), CellStruct(fmt)
            a = real.pack(*args)
            if mine.pack(*args) != a or mine.unpack(a) != real.unpack(a) or mine.size != real.size:
                raise SystemExit(2)
            # force the cell path: wrap values so that they do not look concrete
            forced = _force_cell_roundtrip(mine, args, a)
            if not forced:
                print("bspio selftest: cell path differs on", fmt)
                raise SystemExit(2)
        for fmt, args in (("<H", (-1,)), ("<i", (2 ** 31,)), ("<h", (40000,))):
            try:
                _cell_pack(CellStruct(fmt), args)
            except _struct.error:
                pass
            else:
                raise SystemExit(2)
        script = [("write", b"hello"), ("tell",), ("write", b"\0\1\2"), ("seek", 2), ("write", b"XY"), ("tell",), ("seek", 0),
                  ("read", 3), ("read", 1), ("read", 100), ("read", 1), ("seek", 12), ("write", b"z"), ("getvalue",), ("seek", 1),
                  ("read", -1), ("seek", -2, 2), ("read", 5), ("seek", 1, 1), ("tell",), ("seek", 3), ("seek", 2, 1), ("read", 2),
                  ("seek", 0), ("write", b"0123456789abcdefgh"), ("seek", 4), ("write", b"__"), ("seek", 3), ("read", 4),
                  ("seek", 16), ("write", b"TAILTAIL"), ("getvalue",), ("seek", 5), ("read", 1), ("read", 0)]
        real_f, mine_f = io.BytesIO(), PieceFile()
        for step in script:
            ra = getattr(real_f, step[0])(*step[1:])
            rb = getattr(mine_f, step[0])(*step[1:])
            if ra != rb:
                print("bspio selftest: PieceFile differs at", step, ra, rb)
                raise SystemExit(2)
        pf = PieceFile([b"ab", b"cdef", b"g"])
        pf.seek(2)
        piece = pf.read(4)
        if piece != b"cdef" or pf.getvalue() != b"abcdefg":
            raise SystemExit(2)
    finally:
        _CH = saved
    _DONE = True


class _Opaque(int):
    """An int that is_conc() would still call concrete natively -- selftest drives the cell code directly instead."""


def _cell_pack(st: CellStruct, args):
    """Run CellStruct.pack's symbolic branch on concrete values (selftest only)."""
    global is_conc, all_conc
    keep = (is_conc, all_conc)
    try:
        is_conc = lambda x: isinstance(x, (bytes, float))      # ints take the arithmetic branch  # noqa: E731
        all_conc = lambda xs: False                            # noqa: E731
        return bytes(binio_cells(st.pack(*args)))
    finally:
        is_conc, all_conc = keep


def binio_cells(b):
    return list(b)


def _force_cell_roundtrip(st: CellStruct, args, packed: bytes) -> bool:
    global is_conc, all_conc
    if any(isinstance(a, float) for a in args):
        return True
    if _cell_pack(st, args) != packed:
        return False
    keep = (is_conc, all_conc)
    try:
        is_conc = lambda x: isinstance(x, int)                 # buffers look symbolic, lengths concrete  # noqa: E731
        all_conc = lambda xs: False                            # noqa: E731
        got = st.unpack(packed)
    finally:
        is_conc, all_conc = keep
    return tuple(got) == tuple(_struct.unpack(st.format, packed))
