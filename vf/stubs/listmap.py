"""Association-list stand-ins for `dict` objects that real code indexes with a *symbolic* str (E1 stubs for C19).

A real dict hashes its key in C, which realises (concretises) a symbolic str. `ListMap` answers the same
questions by `==` comparisons against its (concrete) keys, in insertion order. For str keys this is exactly
dict semantics (a dict finds the entry whose key is equal; hash is only an accelerator). `selftest()` compares
it with a real dict on every operation the srctools.filesys backends use.
"""
from __future__ import annotations


class ListMap:
    def __init__(self, mapping=()):
        self._items = list(mapping.items()) if hasattr(mapping, "items") else list(mapping)

    def __getitem__(self, q):
        for k, v in self._items:
            if k == q:
                return v
        raise KeyError(q)

    def __contains__(self, q):
        for k, _v in self._items:
            if k == q:
                return True
        return False

    def get(self, q, default=None):
        for k, v in self._items:
            if k == q:
                return v
        return default

    def __iter__(self):
        return iter([k for k, _v in self._items])

    def keys(self):
        return [k for k, _v in self._items]

    def values(self):
        return [v for _k, v in self._items]

    def items(self):
        return list(self._items)

    def __len__(self):
        return len(self._items)

    def __eq__(self, other):
        if isinstance(other, ListMap):
            return dict(self._items) == dict(other._items)
        if isinstance(other, dict):
            return dict(self._items) == other
        return NotImplemented

    __hash__ = None  # type: ignore

    def __repr__(self):
        return f"ListMap({self._items!r})"


def selftest() -> int:
    n = 0
    try:
        d = {"a/b": 1, "ab": 2, "": 3, "A": 4}
        m = ListMap(d)
        for q in ["a/b", "ab", "", "A", "a", "x", "a/B"]:
            assert (q in m) == (q in d), q
            assert m.get(q, -1) == d.get(q, -1), q
            try:
                got = m[q]
            except KeyError:
                got = KeyError
            try:
                want = d[q]
            except KeyError:
                want = KeyError
            assert got == want, q
            n += 3
        assert list(m) == list(d) and m.keys() == list(d.keys()) and m.values() == list(d.values())
        assert m.items() == list(d.items()) and len(m) == len(d)
        assert m == ListMap(dict(reversed(list(d.items())))) and m == d and not (m == ListMap({"a": 1}))
        n += 6
    except AssertionError as e:
        print(f"HARNESS-ERROR listmap selftest failed: {e!r}")
        raise SystemExit(2)
    return n
