"""Binary-I/O stubs for E1 harnesses (C20): ModelBytesIO, ModelStruct and a CrossHair engine tweak.

Why: `io.BytesIO` and `struct.Struct(...).pack/unpack` are C code, so a symbolic `bytes` that reaches them is
silently realised (DESIGN section 1, 'Realisation is the enemy').  Both models are plain Python, exact for the
subset they implement, and are compared with the real objects by `selftest()` on every worker start
(a mismatch raises SystemExit(2), i.e. HARNESS-ERROR).  Native replays never use them.
"""
from __future__ import annotations

import io
import struct

_CH = False      # set by enable_symbolic(): hand out SymbolicBytes when a read covers symbolic cells


def enable_symbolic() -> list:
    """Called from setup('chx').  Also installs the `bytes.__contains__` tweak."""
    global _CH
    _CH = True
    return bytes_contains_tweak()


def bytes_contains_tweak() -> list:
    """CrossHair's BytesLike inherits AbcString.__contains__, which realises the buffer (`x in self.data`).
    bytes.__contains__(x) is by definition `self.find(x) != -1` (x: bytes-like or an int byte value);
    BytesLike.find is CrossHair's own symbolic search.  Checked natively against bytes below."""
    from crosshair.libimpl import builtinslib as bl
    if getattr(bl.BytesLike, "_vf_contains", False):
        return []
    for hay in (b"", b"\0", b"ab\0c", b"abc", bytes(range(7))):
        for needle in (b"", b"\0", b"b\0", b"c", 0, 97, 5, b"zz"):
            if (needle in hay) != (hay.find(needle) != -1):
                raise SystemExit(2)

    def __contains__(self, other):
        return self.find(other) != -1

    bl.BytesLike.__contains__ = __contains__
    bl.BytesLike._vf_contains = True
    return ["crosshair BytesLike.__contains__ -> self.find(x) != -1 (the inherited one realises the buffer)"]


def _mk(cells):
    """bytes for a list of byte cells; a SymbolicBytes when some cell is a symbolic int (CrossHair only)."""
    if _CH:
        from crosshair.tracers import NoTracing
        with NoTracing():
            conc = True
            for x in cells:
                if type(x) is not int:
                    conc = False
                    break
        if not conc:
            from crosshair.libimpl.builtinslib import SymbolicBytes
            return SymbolicBytes(cells)
    return bytes(cells)


class ModelBytesIO:
    """In-memory binary file: a flat list of byte cells (ints; under CrossHair a cell may be a symbolic int).
    Positions and lengths are always concrete.  Implements what the srctools writers/readers use."""

    def __init__(self, initial=b""):
        self.cells = list(initial)
        self.pos = 0
        self.closed = False

    # --- writing
    def write(self, data) -> int:
        vals = list(data)
        n = len(vals)
        end = self.pos + n
        if self.pos > len(self.cells):
            self.cells.extend([0] * (self.pos - len(self.cells)))
        self.cells[self.pos:end] = vals
        self.pos = end
        return n

    # --- reading
    def read(self, n=-1):
        if n is None or n < 0:
            end = len(self.cells)
        else:
            end = min(len(self.cells), self.pos + n)
        out = self.cells[self.pos:end]
        self.pos = max(self.pos, end)
        return _mk(out)

    def getvalue(self):
        return _mk(list(self.cells))

    def getbuffer(self):
        return memoryview(self.getvalue())

    def seek(self, off, whence=0):
        if whence == 0:
            if off < 0:
                raise ValueError(f"negative seek value {off}")
            self.pos = off
        elif whence == 1:
            self.pos = max(0, self.pos + off)
        elif whence == 2:
            self.pos = max(0, len(self.cells) + off)
        else:
            raise ValueError("invalid whence")
        return self.pos

    def tell(self) -> int:
        return self.pos

    def readable(self):
        return True

    def writable(self):
        return True

    def seekable(self):
        return True

    def flush(self):
        pass

    def close(self):
        self.closed = True

    def __enter__(self):
        return self

    def __exit__(self, *a):
        self.close()
        return False


_INT_CODES = {"b": (1, True), "B": (1, False), "?": (1, False), "h": (2, True), "H": (2, False),
              "i": (4, True), "I": (4, False), "l": (8, True), "L": (8, False), "q": (8, True), "Q": (8, False)}


class ModelStruct:
    """Pure-Python `struct.Struct` for the codes srctools' small formats use: integer codes, `?`, `Ns`, `x`
    (exact, also for symbolic ints/bytes) and `f`/`d` (delegated to the real struct: floats are kept concrete).
    Layout (native alignment or `<`) is taken from `struct.calcsize` of the growing prefix, so it cannot
    disagree with the real thing.  Little-endian hosts only (asserted)."""

    def __init__(self, fmt: str):
        import sys
        assert sys.byteorder == "little"
        self.format = fmt
        self.size = struct.calcsize(fmt)
        prefix = ""
        body = fmt
        if body[:1] in "@=<>!":
            prefix, body = body[0], body[1:]
        assert prefix in ("", "@", "<", "="), fmt
        self.prefix = prefix
        self.fields = []          # (code, count, offset, size)
        acc = prefix
        num = ""
        for ch in body:
            if ch.isdigit():
                num += ch
                continue
            if ch.isspace():
                continue
            cnt = int(num) if num else 1
            num = ""
            if ch in "sx":
                one = struct.calcsize(prefix + f"{cnt}{ch}")
                acc += f"{cnt}{ch}"
                self.fields.append((ch, cnt, struct.calcsize(acc) - one, one))
            else:
                one = struct.calcsize(prefix + ch)
                for _ in range(cnt):
                    acc += ch
                    self.fields.append((ch, 1, struct.calcsize(acc) - one, one))
        assert struct.calcsize(acc) == self.size, fmt
        self.nargs = sum(1 for f in self.fields if f[0] != "x")

    def pack(self, *args):
        if len(args) != self.nargs:
            raise struct.error(f"pack expected {self.nargs} items for packing (got {len(args)})")
        out = b""
        pos = 0
        ai = 0
        for code, cnt, off, size in self.fields:
            if off > pos:
                out = out + bytes(off - pos)
            if code == "x":
                piece = bytes(size)
            else:
                v = args[ai]
                ai += 1
                if code == "s":
                    if len(v) >= cnt:
                        piece = v[:cnt]
                    else:
                        piece = v + bytes(cnt - len(v))
                elif code in "fd":
                    piece = struct.pack((self.prefix or "@") + code, v)
                elif code == "?":
                    piece = b"\x01" if v else b"\x00"
                else:
                    _sz, signed = _INT_CODES[code]
                    try:
                        piece = (v + 0).to_bytes(size, "little", signed=signed)
                    except OverflowError as e:
                        raise struct.error(str(e)) from e
            out = out + piece
            pos = off + size
        if self.size > pos:
            out = out + bytes(self.size - pos)
        return out

    def unpack(self, buf):
        if len(buf) != self.size:
            raise struct.error(f"unpack requires a buffer of {self.size} bytes")
        res = []
        for code, cnt, off, size in self.fields:
            if code == "x":
                continue
            chunk = buf[off:off + size]
            if code == "s":
                res.append(chunk)
            elif code in "fd":
                res.append(struct.unpack((self.prefix or "@") + code, chunk)[0])
            elif code == "?":
                res.append(chunk != b"\x00")
            else:
                _sz, signed = _INT_CODES[code]
                res.append(int.from_bytes(chunk, "little", signed=signed))
        return tuple(res)

    def unpack_from(self, buf, offset=0):
        return self.unpack(buf[offset:offset + self.size])


_SELFTEST_DONE = False


def selftest() -> None:
    """Differential validation against io.BytesIO / struct.Struct (native, concrete)."""
    global _SELFTEST_DONE
    if _SELFTEST_DONE:
        return
    saved = _CH
    try:
        globals()["_CH"] = False
        # --- ModelStruct
        cases = [
            ("Bi260s260sii260sii", (1, 257, b"abc", b"x" * 260, 1, 0, b"", 1, 0)),
            ("Bi260s260sii260sii", (0, 0, b"y" * 300, b"", -5, 2 ** 31 - 1, b"\0z", 0, 1)),
            ("Bi260s260sii260si", (True, 3, b"q", b"", 1, 1, b"e" * 260, False)),
            ("<hB", (-3, 255)), ("<fB", (0.25, 7)), ("<bhffhhh", (-1, 300, 0.5, -1.0, 0, 1, 2)),
            ("<hBffh", (5, 3, 0.0, 1.0, 2)), ("<fBH", (1.5, 9, 513)), ("<Bhb", (2, -2, 7)), ("<Iii", (2 ** 32 - 1, -1, 4)),
            ("<4s4i", (b"VSIF", 3, 1, 2, 20)), ("I", (7,)), ("<2x3sB", (b"ab", 1)), ("<Bf", (3, 2.5)),
        ]
        for fmt, args in cases:
            real = struct.Struct(fmt)
            mine = ModelStruct(fmt)
            a, b = real.pack(*args), mine.pack(*args)
            if a != b or mine.size != real.size or real.unpack(a) != mine.unpack(a):
                print("binio selftest: ModelStruct differs on", fmt, args)
                raise SystemExit(2)
        for fmt, args in (("<b", (200,)), ("B", (-1,)), ("<h", (40000,))):
            try:
                ModelStruct(fmt).pack(*args)
            except struct.error:
                pass
            else:
                raise SystemExit(2)
        # --- ModelBytesIO: one scripted session against io.BytesIO
        script = [("write", b"hello"), ("tell",), ("write", b"\0\1\2"), ("seek", 2), ("write", b"XY"), ("tell",), ("seek", 0),
                  ("read", 3), ("read", 1), ("read", 100), ("read", 1), ("seek", 12), ("write", b"z"), ("getvalue",), ("seek", 1),
                  ("read", -1), ("seek", -2, 2), ("read", 5), ("seek", 1, 1), ("tell",), ("seek", 3), ("seek", 2, 1), ("read", 2)]
        real_f, mine_f = io.BytesIO(), ModelBytesIO()
        for step in script:
            ra = getattr(real_f, step[0])(*step[1:])
            rb = getattr(mine_f, step[0])(*step[1:])
            if ra != rb:
                print("binio selftest: ModelBytesIO differs at", step, ra, rb)
                raise SystemExit(2)
        if io.BytesIO(b"abc").read() != ModelBytesIO(b"abc").read():
            raise SystemExit(2)
    finally:
        globals()["_CH"] = saved
    _SELFTEST_DONE = True


# --- module-level struct.pack / struct.unpack / struct.Struct on ModelStruct -------------------------------------
# CrossHair 0.0.110's own struct model treats every format that does not start with '<' as big-endian and
# unaligned (structlib._byteorder_for_int), which is wrong for native formats ('I', 'Bi260s...') on this host,
# and it realises 's' fields.  Modules that call `pack('I', n)` / `struct.pack('B', n)` get this proxy instead.

_MS_CACHE = {}


def _ms(fmt):
    m = _MS_CACHE.get(fmt)
    if m is None:
        m = _MS_CACHE[fmt] = ModelStruct(fmt)
    return m


def pack(fmt, *args):
    return _ms(fmt).pack(*args)


def unpack(fmt, buf):
    return _ms(fmt).unpack(buf)


def calcsize(fmt):
    return struct.calcsize(fmt)


class StructModule:
    """Stands in for the `struct` module inside a srctools module namespace."""
    error = struct.error
    pack = staticmethod(pack)
    unpack = staticmethod(unpack)
    calcsize = staticmethod(calcsize)
    Struct = ModelStruct
