"""Stubs for srctools.instancing under CrossHair (C17).

`EntityDef.engine_def(classname)` unpickles an lzma-compressed database and deep-copies the entity definition:
C code plus tens of thousands of traced opcodes, on a CONCRETE classname. The proxy below evaluates the real
classmethods natively (untraced) and memoises per classname; collapse_one only reads the definitions, so sharing
one object per classname is observationally the same as the fresh deep copy the real classmethod returns.
Self-test (every install): the proxy's answers are compared with the real classmethods' for the classnames given.
"""
from __future__ import annotations


class EntityDefProxy:
    def __init__(self, real):
        self._real = real
        self._defs = {}
        self._classes = None

    def _nt(self):
        from crosshair.tracers import NoTracing
        return NoTracing()

    def engine_def(self, classname):
        with self._nt():
            if not isinstance(classname, str):
                raise TypeError("inststubs: engine_def needs a concrete classname")
            try:
                return self._defs[classname]
            except KeyError:
                pass
            d = self._real.engine_def(classname)      # KeyError propagates exactly like the real one
            self._defs[classname] = d
            return d

    def engine_classes(self):
        with self._nt():
            if self._classes is None:
                self._classes = frozenset(self._real.engine_classes())
            return self._classes

    def __call__(self, *a, **kw):
        return self._real(*a, **kw)

    def __getattr__(self, n):
        return getattr(self._real, n)


def stub_engine_defs(classnames=()) -> list:
    import srctools.instancing as inst
    from srctools.fgd import EntityDef
    if isinstance(inst.EntityDef, EntityDefProxy):
        return []
    proxy = EntityDefProxy(EntityDef)
    # self-test against the real classmethods (native)
    for cn in classnames:
        try:
            real = EntityDef.engine_def(cn)
        except KeyError:
            real = None
        try:
            got = proxy.engine_def(cn)
        except KeyError:
            got = None
        if (real is None) != (got is None):
            raise SystemExit(2)
        if real is not None:
            if sorted(real.kv) != sorted(got.kv) or any(real.kv[k].type is not got.kv[k].type for k in real.kv):
                raise SystemExit(2)
    if set(EntityDef.engine_classes()) != set(proxy.engine_classes()):
        raise SystemExit(2)
    inst.EntityDef = proxy
    return ["srctools.instancing.EntityDef -> proxy: engine_def/engine_classes evaluated natively (untraced) and memoised per "
            "concrete classname; self-tested against the real classmethods"]
