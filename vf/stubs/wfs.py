"""Writable model file system with crash / fault injection and a pathlib.Path stand-in (E1 stub for C12).

Semantics assumed (the environment contract, listed in C12's META):
* names map to inodes; `replace`/`rename` atomically rebinds a name to the source inode (POSIX rename);
* exclusive create ('x') fails with FileExistsError when the name exists;
* data written to a handle reaches the inode only on flush/close (user-space buffering): a crash loses unflushed data,
  a handle keeps writing to its inode after the inode was renamed;
* every public operation is one *FS operation*: numbered from 0, it can be the crash point (`crash_at`: the process stops
  before performing it, and performs nothing afterwards) or the fault point (`fault_at`: it raises `fault_exc` once).
"""
from __future__ import annotations

from typing import Dict, List, Optional


class Crash(BaseException):
    """The process was killed here."""


class HarnessGap(BaseException):
    """The code used a file-system call the model does not implement (inconclusive, never a verdict)."""


class _Inode:
    __slots__ = ("data",)

    def __init__(self):
        self.data = b""


class ModelFS:
    def __init__(self):
        self.names: Dict[str, _Inode] = {}
        self.dirs = {"/"}
        self.n_ops = 0
        self.crash_at: Optional[int] = None
        self.fault_at: Optional[int] = None
        self.fault_exc: Optional[BaseException] = None
        self.dead = False
        self.log: List[tuple] = []          # (op index, op name, path, actor, owner of the path at that time)
        self.actor = 0                       # which writer is running (set by the scheduler)
        self.created_by: Dict[str, int] = {}  # temp path -> actor that created it

    # -- bookkeeping -----------------------------------------------------------------
    def _op(self, name: str, path: str):
        if self.dead:
            raise Crash()
        i = self.n_ops
        self.n_ops += 1
        if self.crash_at is not None and i == self.crash_at:
            self.dead = True
            raise Crash()
        self.log.append((i, name, path, self.actor, self.created_by.get(path)))
        if self.fault_at is not None and i == self.fault_at:
            exc = self.fault_exc
            self.fault_at = None
            self.faulted_op = (name, path)
            raise exc

    faulted_op = None

    def put(self, path: str, data: bytes):
        ino = _Inode()
        ino.data = data
        self.names[path] = ino
        self.dirs.add(path.rsplit("/", 1)[0] or "/")

    def read(self, path: str) -> Optional[bytes]:
        ino = self.names.get(path)
        return None if ino is None else ino.data

    def listing(self, folder: str) -> List[str]:
        pre = folder.rstrip("/") + "/"
        return sorted(p for p in self.names if p.startswith(pre) and "/" not in p[len(pre):])

    # -- operations ------------------------------------------------------------------
    def mkdir(self, path, parents=False, exist_ok=False):
        self._op("mkdir", path)
        if path in self.dirs:
            if not exist_ok:
                raise FileExistsError(path)
            return
        self.dirs.add(path)

    def open(self, path, mode="r", encoding=None):
        self._op("open:" + mode, path)
        text = "b" not in mode
        if "x" in mode:
            if path in self.names:
                raise FileExistsError(path)
            self.names[path] = _Inode()
            self.created_by[path] = self.actor
        elif "w" in mode:
            if path in self.names:
                self.names[path].data = b""
            else:
                self.names[path] = _Inode()
                self.created_by.setdefault(path, self.actor)
        elif "a" in mode:
            self.names.setdefault(path, _Inode())
        else:
            if path not in self.names:
                raise FileNotFoundError(path)
        return Handle(self, path, self.names[path], text, encoding or "utf8", writable=any(c in mode for c in "xwa+"))

    def unlink(self, path, missing_ok=False):
        self._op("unlink", path)
        if path not in self.names:
            if missing_ok:
                return
            raise FileNotFoundError(path)
        del self.names[path]
        self.created_by.pop(path, None)

    def replace(self, src, dst):
        self._op("replace", src)
        if src not in self.names:
            raise FileNotFoundError(src)
        self.names[dst] = self.names.pop(src)
        self.created_by.pop(src, None)

    def stat(self, path):
        self._op("stat", path)
        if path not in self.names:
            raise FileNotFoundError(path)
        return _Stat(len(self.names[path].data))

    def exists(self, path):
        self._op("exists", path)
        return path in self.names or path in self.dirs


class _Stat:
    def __init__(self, size):
        self.st_size = size
        self.st_mtime_ns = 0
        self.st_mode = 0o100644


class Handle:
    def __init__(self, fs: ModelFS, path: str, ino: _Inode, text: bool, encoding: str, writable: bool):
        self.fs, self.name, self._ino, self._text, self._enc, self._w = fs, path, ino, text, encoding, writable
        self._buf = b""
        self.closed = False
        self._pos = 0

    def write(self, data):
        if self.closed:
            raise ValueError("I/O operation on closed file")
        if self._text:
            if not isinstance(data, str):
                raise TypeError("write() argument must be str")
            data = data.encode(self._enc)
        elif isinstance(data, str):
            raise TypeError("a bytes-like object is required, not 'str'")
        self.fs._op("write", self.name)
        self._buf = self._buf + bytes(data)
        return len(data)

    def flush(self):
        self.fs._op("flush", self.name)
        self._ino.data = self._ino.data + self._buf
        self._buf = b""

    def close(self):
        if self.closed:
            return
        try:
            self.fs._op("close", self.name)
        except Crash:
            raise
        except BaseException:
            self.closed = True       # a failing close still releases the handle; buffered data is lost
            self._buf = b""
            raise
        self._ino.data = self._ino.data + self._buf
        self._buf = b""
        self.closed = True

    def tell(self):
        return len(self._ino.data) + len(self._buf)

    def seek(self, pos, whence=0):
        raise HarnessGap("seek on a model handle")

    def __enter__(self):
        return self

    def __exit__(self, et, ev, tb):
        self.close()
        return None


def make_path_class(fs: ModelFS):
    """A pathlib.Path stand-in bound to `fs` (only pure path algebra + the I/O calls the model knows)."""

    class ModelPath:
        def __init__(self, p):
            self._p = p._p if isinstance(p, ModelPath) else str(p)
            if not self._p.startswith("/"):
                self._p = "/cwd/" + self._p

        def __str__(self):
            return self._p

        __fspath__ = __str__

        def __repr__(self):
            return f"ModelPath({self._p!r})"

        def __eq__(self, o):
            return isinstance(o, ModelPath) and o._p == self._p

        def __hash__(self):
            return hash(self._p)

        @property
        def name(self):
            return self._p.rsplit("/", 1)[1]

        @property
        def parent(self):
            return ModelPath(self._p.rsplit("/", 1)[0] or "/")

        def with_name(self, n):
            return ModelPath((self._p.rsplit("/", 1)[0] or "") + "/" + n)

        def __truediv__(self, o):
            return ModelPath(self._p.rstrip("/") + "/" + str(o))

        def mkdir(self, mode=0o777, parents=False, exist_ok=False):
            return fs.mkdir(self._p, parents, exist_ok)

        def open(self, mode="r", buffering=-1, encoding=None, errors=None, newline=None):
            return fs.open(self._p, mode, encoding)

        def unlink(self, missing_ok=False):
            return fs.unlink(self._p, missing_ok)

        def replace(self, target):
            fs.replace(self._p, str(ModelPath(target)))
            return ModelPath(target)

        rename = replace

        def stat(self):
            return fs.stat(self._p)

        def exists(self):
            return fs.exists(self._p)

        def is_file(self):
            fs._op("is_file", self._p)
            return self._p in fs.names

        def touch(self, exist_ok=True):
            fs.open(self._p, "a").close()

        def __getattr__(self, n):
            raise HarnessGap(f"ModelPath has no {n!r}")

    return ModelPath


def selftest() -> int:
    """Differential validation of the model against a real temp directory on scripted sequences."""
    import os
    import tempfile
    from pathlib import Path
    n = 0
    with tempfile.TemporaryDirectory() as td:
        fs = ModelFS()
        MP = make_path_class(fs)
        fs.dirs.add("/d")
        real, model = Path(td), MP("/d")
        for P, root in ((Path, real), (MP, model)):
            pass
        scripts = [
            [("open", "a", "xb", b"one"), ("open", "a", "xb", b"two")],
            [("open", "a", "wb", b"one"), ("replace", "a", "b"), ("read", "b"), ("read", "a")],
            [("open", "t", "xb", b"data"), ("unlink", "t"), ("unlink", "t")],
            [("open", "a", "wb", b"old"), ("open", "t", "xb", b"new"), ("replace", "t", "a"), ("read", "a"), ("list",)],
            [("open", "x", "xt", "text"), ("read", "x")],
        ]
        for script in scripts:
            for f in list(real.iterdir()):
                f.unlink()
            fs.names.clear()
            outs = []
            for which, root in (("real", real), ("model", model)):
                out = []
                for step in script:
                    try:
                        if step[0] == "open":
                            with (root / step[1]).open(step[2]) as h:
                                h.write(step[3])
                            out.append("ok")
                        elif step[0] == "replace":
                            (root / step[1]).replace(root / step[2])
                            out.append("ok")
                        elif step[0] == "unlink":
                            (root / step[1]).unlink()
                            out.append("ok")
                        elif step[0] == "read":
                            if which == "real":
                                out.append((root / step[1]).read_bytes())
                            else:
                                d = fs.read(str(root / step[1]))
                                if d is None:
                                    raise FileNotFoundError(step[1])
                                out.append(d)
                        elif step[0] == "list":
                            out.append(sorted(p.name for p in real.iterdir()) if which == "real" else [p.rsplit("/", 1)[1] for p in fs.listing("/d")])
                    except OSError as e:
                        out.append(type(e).__name__)
                    n += 1
                outs.append(out)
            assert outs[0] == outs[1], (script, outs)
    return n
