"""Stubs for srctools.vmf under CrossHair."""
from __future__ import annotations

import builtins


def stub_copyset() -> list:
    """CopySet.__iter__ does `frozenset(self)`; CrossHair's frozenset patch re-enters __iter__ (RecursionError).
    What CPython's C constructor does for a set subclass is to read the underlying table: reproduce that, untraced."""
    import srctools.vmf as vmf
    from crosshair.tracers import NoTracing

    def _fs(it=()):
        with NoTracing():
            if isinstance(it, set):
                return builtins.frozenset(set.__iter__(it))
            return builtins.frozenset(it)
    vmf.frozenset = _fs
    return ["srctools.vmf.frozenset -> real frozenset of the underlying set table, untraced (CopySet.__iter__)"]


def stub_array() -> list:
    """CrossHair replaces array.array by a SymbolicArray model that (a) treats 'i' as 16-bit and (b) cannot `extend()` from a generator
    (Side._parse_displacement_data does `Array('i').extend(map(int, ...))` -> TypeError inside the model). The displacement
    allowed_verts hold concrete ints in every C06 harness, so the real array type is used, constructed untraced."""
    import array as _array_mod
    import srctools.vmf as vmf
    from crosshair.core import deep_realize
    from crosshair.tracers import NoTracing
    real = _array_mod.array

    def Array(code, init=()):
        vals = deep_realize([v for v in init])
        with NoTracing():
            return real(code, vals)
    vmf.Array = Array
    return ["srctools.vmf.Array -> real array.array built untraced from realised (concrete) items"]
