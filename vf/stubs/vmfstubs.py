"""Stubs for srctools.vmf under CrossHair."""
from __future__ import annotations

import builtins


def stub_copyset() -> list:
    """CopySet.__iter__ does `frozenset(self)`; CrossHair's frozenset patch re-enters __iter__ (RecursionError).
    What CPython's C constructor does for a set subclass is to read the underlying table: reproduce that, untraced."""
    import srctools.vmf as vmf
    from crosshair.tracers import NoTracing

    def _fs(it=()):
        with NoTracing():
            if isinstance(it, set):
                return builtins.frozenset(set.__iter__(it))
            return builtins.frozenset(it)
    vmf.frozenset = _fs
    return ["srctools.vmf.frozenset -> real frozenset of the underlying set table, untraced (CopySet.__iter__)"]
