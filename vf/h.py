"""Helpers usable inside harness functions (traced by CrossHair or run natively)."""
from __future__ import annotations

import os
import sys


class Fail(Exception):
    """The property is violated on this path."""


def assume(cond) -> None:
    """Precondition: abandon this path when cond is false."""
    if not cond:
        from crosshair.util import IgnoreAttempt
        raise IgnoreAttempt("assume")


def check(cond, msg: str = "assertion failed", *detail) -> None:
    if not cond:
        raise Fail(msg + (": " + " | ".join(repr(d) for d in detail) if detail else ""))


def ensure_worktree() -> None:
    """Every harness must be looking at /repo's working tree (DESIGN section 0)."""
    import srctools
    root = os.environ.get("VF_REPO", "/repo")
    want = os.path.realpath(os.path.join(root, "src")) + os.sep
    got = os.path.realpath(srctools.__file__)
    if not got.startswith(want):
        print(f"HARNESS-ERROR wrong srctools imported: {got} (want under {want})", file=sys.stderr)
        raise SystemExit(2)


class ChunkSink:
    """File-like sink that keeps the written pieces apart (rule (i): never concatenate)."""
    def __init__(self) -> None:
        self.parts = []

    def write(self, s) -> int:
        self.parts.append(s)
        return len(s)

    def text(self) -> str:
        return ''.join(self.parts)
