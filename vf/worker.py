"""Subprocess entry: run ONE obligation slice and print its JSON result on the last line.

usage: python -m vf.worker <module> <function> <json-spec>
spec: {"engine": "chx"|"call", "params": {...}, "budget_s": float, "per_path_s": float}
engine "chx"  : symbolic execution of `function` with CrossHair (vf.chx.explore)
engine "call" : `function(**params)` returns the result dict itself (E2/E3 obligations, native replays)
"""
from __future__ import annotations

import importlib
import json
import os
import sys
import time
import traceback


def main() -> int:
    modname, fname, spec_s = sys.argv[1:4]
    spec = json.loads(spec_s)
    t0 = time.perf_counter()
    out = {"module": modname, "function": fname, "params": spec.get("params", {})}
    try:
        from vf.h import ensure_worktree
        ensure_worktree()
        if spec.get("engine") == "chx":
            import crosshair.core_and_libs  # noqa: F401  (registers opcode patches and library models)
        mod = importlib.import_module(modname)
        if hasattr(mod, "setup"):
            mod.setup(spec.get("engine"))
        fn = getattr(mod, fname)
        if spec.get("engine") == "chx":
            from vf import chx
            r = chx.explore(fn, spec.get("params", {}), spec.get("budget_s", 60.0),
                            spec.get("per_path_s", 20.0), n_samples=spec.get("n_samples", 2))
        else:
            r = fn(**spec.get("params", {}))
        out.update(r)
    except SystemExit as e:
        out.update(verdict="harness-error", error=f"SystemExit({e.code})")
    except BaseException as e:  # noqa
        out.update(verdict="harness-error", error=f"{type(e).__name__}: {e}", trace=traceback.format_exc()[-4000:])
    out["cpu_s"] = round(time.process_time(), 3)
    out["total_wall_s"] = round(time.perf_counter() - t0, 3)
    sys.stdout.write("\n@@RESULT@@" + json.dumps(out) + "\n")
    sys.stdout.flush()
    return 0


if __name__ == "__main__":
    sys.exit(main())
