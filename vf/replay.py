"""Native replay of a solver model against the real code (no tracing, no symbolic values)."""
from __future__ import annotations

import importlib
import traceback
from typing import Any, Dict

from vf.chx import unplain


def replay(module: str, func: str, cex: Dict[str, Any], params: Dict[str, Any]) -> Dict[str, Any]:
    mod = importlib.import_module(module)
    if hasattr(mod, "setup"):
        mod.setup("replay")
    fn = getattr(mod, func)
    args = {k: unplain(v) for k, v in cex.items()}
    try:
        fn(**args, **params)
    except Exception as e:  # noqa
        return {"verdict": "reproduced", "detail": f"{type(e).__name__}: {e}"[:1500], "trace": traceback.format_exc()[-2000:]}
    except BaseException as e:  # assume() outside tracing
        return {"verdict": "not-reproduced", "detail": f"precondition not met natively: {type(e).__name__}: {e}"}
    return {"verdict": "not-reproduced", "detail": "harness returned normally on the realised model"}
