"""Solver-based checking machinery for srctools (see /verif/DESIGN.md)."""
