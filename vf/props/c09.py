"""C09 - copies of map objects are complete and independent of their source (E1, CrossHair; operator purity of Vec/Angle/Matrix on E2).

Concrete skeleton x symbolic leaves x symbolic mutation.  For every copy form (Output / Side / Solid / Entity / VisGroup / EntityGroup /
EntityFixup / Keyvalues.copy, '+', '+=', extend; same map and other map) the harness
  1. builds the source with symbolic leaves (str of exact length, free ints for `times`/lightmap/smoothing, bools, list-chosen hashed values),
  2. copies it and checks COMPLETENESS: the structural snapshot (every field reachable through slots/__dict__, ids masked) of the copy equals the
     source's, and the export of the copy equals, piece for piece, the export of the source written under the copy's ids,
  3. applies ONE mutation, chosen by a symbolic index from the list of mutators *derived from the object graph* of the mutated side (in-place
     `+=` on every reachable Vec, pop/append on every list, add on every set, item store on every array, a store to every scalar field of every
     reachable mutable object, plus the public movers translate()/localise() and the Entity / EntityFixup mapping operations), to the copy or
     to the source (symbolic bool), and checks INDEPENDENCE: snapshot and export of the untouched side are unchanged.
collapse_one (instancing) is driven as a naturally occurring mutation history: the instance file's map must be unchanged by collapsing it.
"""
from __future__ import annotations

import time

from vf.core import Obl
from vf.h import ChunkSink, Fail, assume, check

MOD = "vf.props.c09"

META = {
    "level": "model_checking",
    "functions": [
        "srctools.vmf:Entity.copy", "srctools.vmf:Solid.copy", "srctools.vmf:Side.copy", "srctools.vmf:Output.copy", "srctools.vmf:VisGroup.copy",
        "srctools.vmf:EntityGroup.copy", "srctools.vmf:UVAxis.copy", "srctools.vmf:EntityFixup.copy_values", "srctools.vmf:EntityFixup.__copy__",
        "srctools.vmf:EntityFixup.__deepcopy__", "srctools.vmf:EntityFixup.__setitem__", "srctools.vmf:Entity.__init__",
        "srctools.vmf:Entity.__setitem__", "srctools.vmf:Entity.export", "srctools.vmf:Solid.export", "srctools.vmf:Side.export",
        "srctools.vmf:Side._export_displacement", "srctools.vmf:Side.translate", "srctools.vmf:Side.localise", "srctools.vmf:Solid.translate",
        "srctools.vmf:Solid.localise", "srctools.vmf:UVAxis.localise", "srctools.vmf:Output.__init__", "srctools.vmf:Output.as_keyvalue",
        "srctools.vmf:VisGroup.export", "srctools.keyvalues:Keyvalues.copy", "srctools.keyvalues:Keyvalues.__add__",
        "srctools.keyvalues:Keyvalues.__iadd__", "srctools.keyvalues:Keyvalues.extend", "srctools.instancing:collapse_one",
        "srctools.math:Vec.__iadd__", "srctools.math:Vec.localise", "srctools.math:VecBase.__add__", "srctools.math:VecBase.__sub__",
        "srctools.math:VecBase.__mul__", "srctools.math:VecBase.__truediv__", "srctools.math:VecBase.__matmul__", "srctools.math:VecBase.cross",
        "srctools.math:MatrixBase.__matmul__", "srctools.math:MatrixBase.transpose", "srctools.math:AngleBase.__matmul__",
    ],
    "bounds": "skeletons: output (5 separator/instance forms), wedge solid, prism with Strata point data, displacement face power 1 (quick) and 2 "
              "(thorough) with alpha / multiblend / allowed-vertex data, point entity with outputs+fixups, brush entity holding a displacement, "
              "nested visgroups, entity group, Keyvalues tree of depth 2; one symbolic str leaf (exact length 0..1 quick, 0..2 thorough, all code "
              "points) per slice plus free symbolic ints (times, lightmap, smoothing) and bools; ONE mutation after the copy, chosen by symbolic "
              "index over every mutator derived from the object graph, on a symbolic side; same map and other map; floats are concrete constants",
    "outside": "histories of more than one mutation after the copy; displacement power 3-4; the float continuum; mutations that go through "
               "the VMF-level containers (by_class/by_target are C07); Camera/Cordon/viewport copies; pickling / copy.deepcopy of map objects "
               "other than EntityFixup; the Cython twins; Vec/Angle/Matrix operator purity is shown over the reals for one operand pair per "
               "operator (no IEEE rounding)",
    "stubs": ["srctools.keyvalues.sys.intern / srctools.vmf.intern -> identity", "srctools.tokenizer.BARE_DISALLOWED frozenset -> tuple",
              "CrossHair casefold fast path", "srctools.vmf.frozenset -> real frozenset untraced (CopySet.__iter__)",
              "srctools.math.math/float shims of vf/symx.py in the operator-purity obligation only"],
    "trusted_base": ["crosshair-tool 0.0.110", "z3", "vf/chx.py driver", "vf/symx.py (operator purity)",
                     "the graph walker of this module (slots/__dict__/list/set/dict/array traversal) that derives snapshots and mutators"],
    "assumptions": ["the mutation index, the mutated side, the copy form and the hashed values are small finite choices: the solver enumerates "
                    "them (enumeration in solver clothing); its real contribution is the symbolic leaves carried through copy and export",
                    "a field is part of an object iff it is reachable through __slots__/__dict__ (back-pointers map/vmf excluded)",
                    "exporting the source under the copy's ids (ids swapped for the duration of the export) is the reading of "
                    "'exports exactly like the original apart from freshly assigned IDs'"],
    "explanation": "",
}


def setup(engine):
    _ENGINE[0] = engine
    if engine == "chx":
        from vf.stubs.common import text_stubs
        from vf.stubs.vmfstubs import stub_copyset
        text_stubs()
        stub_copyset()
    try:    # warm the FGD engine database natively (lzma + binary parse are C code / irrelevant to the property): collapse_one only looks up
        from srctools.fgd import EntityDef
        EntityDef.engine_classes()
        for cls in ("info_target", "func_instance", "logic_relay", "func_brush", "_CBaseEntity_"):
            try:
                EntityDef.engine_def(cls)
            except KeyError:
                pass
    except Exception:  # noqa
        pass


def pick(lst, idx):
    """Concrete element chosen by a symbolic index (one path per element)."""
    for k in range(len(lst)):
        if idx == k:
            return lst[k]
    assume(False)


# ------------------------------------------------------------------------------------------ object graph: fields, snapshot, reachable nodes

_BACK = ("map", "vmf", "_matcher", "__weakref__")
_ID_MASKED = ("Entity", "Solid", "Side", "VisGroup", "EntityGroup")


def _classes():
    import srctools.vmf as vmf
    return (vmf.Entity, vmf.Solid, vmf.Side, vmf.DispVertex, vmf.UVAxis, vmf.Output, vmf.FixupValue, vmf.EntityFixup, vmf.VisGroup,
            vmf.EntityGroup, vmf.Camera, vmf.Cordon)


def _field_names(obj):
    names = []
    for k in type(obj).__mro__:
        sl = k.__dict__.get("__slots__", ())
        if isinstance(sl, str):
            sl = (sl,)
        for n in sl:
            if n not in names:
                names.append(n)
    d = getattr(obj, "__dict__", None)
    if d is not None:
        for n in d:
            if n not in names:
                names.append(n)
    return [n for n in names if n not in _BACK]


def _fields(obj):
    out = []
    for n in _field_names(obj):
        try:
            out.append((n, getattr(obj, n)))
        except AttributeError:
            out.append((n, "<unset>"))
    return out


def _is_vec(x):
    from srctools.math import Vec
    return isinstance(x, Vec)


def _is_array(x):
    from array import array
    return isinstance(x, array)


def snap(obj, mask_ids=False):
    """Structural rendering of everything reachable (back-pointers excluded) as nested tuples of plain values."""
    import enum
    if obj is None or isinstance(obj, (str, int, float, bool)):
        return obj
    if isinstance(obj, enum.Enum):
        return ("enum", type(obj).__name__, obj.value)
    if _is_vec(obj):
        return ("Vec", obj.x, obj.y, obj.z)
    if isinstance(obj, (list, tuple)):
        return (type(obj).__name__,) + tuple([snap(x, mask_ids) for x in obj])
    if isinstance(obj, (set, frozenset)):
        return ("set",) + tuple(sorted(obj))
    if isinstance(obj, dict):
        return ("dict",) + tuple([(k, snap(v, mask_ids)) for k, v in obj.items()])
    if _is_array(obj):
        return ("array", obj.typecode) + tuple(obj)
    if isinstance(obj, _classes()):
        name = type(obj).__name__
        return (name,) + tuple([(n, "#" if (mask_ids and n == "id" and name in _ID_MASKED) else snap(v, mask_ids)) for n, v in _fields(obj)])
    import srctools.vmf as vmf
    if isinstance(obj, vmf.Vec4):
        return ("Vec4", obj.x, obj.y, obj.z, obj.w)
    from srctools.keyvalues import Keyvalues
    if isinstance(obj, Keyvalues):
        v = obj._value
        return ("KV", obj._real_name, obj._folded_name, snap(v, mask_ids) if isinstance(v, list) else v)
    raise Fail(f"snapshot: unknown object type {type(obj).__name__}")


def nodes(root):
    """Every *mutable* object reachable from root (root included), with a readable path, deduplicated by identity, in a fixed order."""
    from srctools.keyvalues import Keyvalues
    out = []
    seen = set()

    def walk(o, path):
        if o is None or isinstance(o, (str, int, float, bool)):
            return
        mutable = _is_vec(o) or isinstance(o, (list, set, dict, Keyvalues)) or _is_array(o) or isinstance(o, _classes())
        if not mutable:
            return
        if id(o) in seen:
            return
        seen.add(id(o))
        out.append((path, o))
        if isinstance(o, list):
            for i, x in enumerate(o):
                walk(x, f"{path}[{i}]")
        elif isinstance(o, dict):
            for k, x in o.items():
                walk(x, f"{path}[{k!r}]")
        elif isinstance(o, Keyvalues):
            if isinstance(o._value, list):
                walk(o._value, path + "._value")
        elif isinstance(o, _classes()):
            for n, v in _fields(o):
                walk(v, f"{path}.{n}")
    walk(root, "")
    return out


def check_disjoint(a, b, what):
    """No mutable object is reachable from both (direct statement of independence; the mutation step shows the consequence)."""
    ida = {id(o): p for p, o in nodes(a)}
    for p, o in nodes(b):
        if id(o) in ida:
            raise Fail(f"{what}: the copy and the source share the mutable object at copy{p} / source{ida[id(o)]} ({type(o).__name__})")


# ------------------------------------------------------------------------------------------ mutators derived from the graph

def _changed(v):
    import enum
    import srctools.vmf as vmf
    if isinstance(v, bool):
        return not v
    if isinstance(v, int):
        return v + 1
    if isinstance(v, float):
        return v + 1.5
    if isinstance(v, str):
        return "mutated"
    if isinstance(v, vmf.Vec4):
        return vmf.Vec4(9.0, 8.0, 7.0, 6.0)
    if isinstance(v, vmf.TriangleTag):
        return vmf.TriangleTag(9) if v.value != 9 else vmf.TriangleTag(0)
    if isinstance(v, vmf.DispFlag):
        return vmf.DispFlag(8) if v.value != 8 else vmf.DispFlag(1)
    return None


def mutate_node(o):
    """In-place mutation of one reachable mutable object through its public surface."""
    from srctools.math import Vec
    from srctools.keyvalues import Keyvalues
    import srctools.vmf as vmf
    if _is_vec(o):
        o += Vec(1.0, -2.0, 4.0)
    elif isinstance(o, list):
        if len(o):
            o.pop()
        else:
            o.append(Vec(5.0, 5.0, 5.0))
    elif isinstance(o, set):
        o.add(987654)
    elif _is_array(o):
        o[0] = 5 if o[0] != 5 else 6
        o[len(o) - 1] = 7 if o[len(o) - 1] != 7 else 8
    elif isinstance(o, dict):
        if len(o):
            k = next(iter(o))
            del o[k]
        else:
            o["new"] = "x"
    elif isinstance(o, Keyvalues):
        o._real_name = "mutated"
        o._folded_name = "mutated"
        if isinstance(o._value, list):
            o._value.append(Keyvalues("extra", "1"))
        else:
            o._value = "mutated"
    elif isinstance(o, vmf.EntityFixup):
        for var in list(o):
            o[var] = "mutated"
        o["zz_new"] = "1"
    elif isinstance(o, vmf.Entity):
        for n, v in _fields(o):
            if n not in ("id", "_keys", "_fixup") and _changed(v) is not None:
                setattr(o, n, _changed(v))
        o["message"] = "mutated"
        o["zz_new"] = "1"
        del o["origin"]
        o.fixup["var"] = "mutated"
        o.fixup["zz_new"] = "1"
    else:
        for n, v in _fields(o):
            if n == "id" and type(o).__name__ in _ID_MASKED:
                continue
            c = _changed(v)
            if c is not None:
                setattr(o, n, c)


def movers(root):
    """Public geometric movers on the root and every solid/side under it."""
    import srctools.vmf as vmf
    from srctools.math import Vec, Angle
    out = []
    for p, o in nodes(root):
        if isinstance(o, (vmf.Solid, vmf.Side)):
            out.append((p + ".translate()", o, lambda x: x.translate(Vec(8.0, -16.0, 24.0))))
            out.append((p + ".localise()", o, lambda x: x.localise(Vec(100.0, 200.0, 300.0), Angle(0.0, 90.0, 0.0))))
    return out


def mutators(root):
    ms = [(p or ".", o, mutate_node) for p, o in nodes(root)]
    return ms + movers(root)


# ------------------------------------------------------------------------------------------ export helpers

def _export(obj, mb=True):
    import srctools.vmf as vmf
    s = ChunkSink()
    if isinstance(obj, (vmf.Solid, vmf.Side)):
        obj.export(s, "\t", mb)
    elif isinstance(obj, vmf.Entity):
        obj.export(s, disp_multiblend=mb)
    elif isinstance(obj, vmf.EntityFixup):
        obj.export(s, "")
    else:
        obj.export(s, "\t")
    return s.parts


def _id_objs(obj):
    """(object) list of everything under obj that carries a map-assigned id, in a fixed order."""
    import srctools.vmf as vmf
    return [o for _p, o in nodes(obj) if isinstance(o, (vmf.Entity, vmf.Solid, vmf.Side, vmf.VisGroup, vmf.EntityGroup))]


def _export_under_ids(src, cp, mb=True):
    """Export of the source written under the copy's ids (ids swapped for the duration of the export only)."""
    a, b = _id_objs(src), _id_objs(cp)
    check(len(a) == len(b), "the copy has a different number of id-carrying objects", len(a), len(b))
    saved = [o.id for o in a]
    try:
        for o, n in zip(a, b):
            o.id = n.id
        return _export(src, mb)
    finally:
        for o, i in zip(a, saved):
            o.id = i


def _same_pieces(p1, p2, what):
    if len(p1) != len(p2):
        raise Fail(f"{what}: piece count {len(p1)} != {len(p2)}: {_first_diff(p1, p2)}")
    for a, b in zip(p1, p2):
        if a != b:
            raise Fail(f"{what}: {a!r} != {b!r}")


def _first_diff(p1, p2):
    for a, b in zip(p1, p2):
        if a != b:
            return f"{a!r} != {b!r}"
    return f"extra {(p1[len(p2):] or p2[len(p1):])[:2]!r}"


def _snap_diff(a, b, path=""):
    if type(a) is tuple and type(b) is tuple and len(a) == len(b):
        for i, (x, y) in enumerate(zip(a, b)):
            if x != y:
                tag = x[0] if type(x) is tuple and len(x) and isinstance(x[0], str) else i
                return _snap_diff(x, y, f"{path}/{tag}")
        return path
    return f"{path}: {a!r} != {b!r}"[:600]


def complete_and_independent(src, cp, mi, on_copy, what, lo=-1, hi=10 ** 9, exports=(True,), check_complete=True, disjoint=True, fast=False):
    """The shared body: completeness, disjointness, one mutation chosen by symbolic index, independence."""
    assume(lo <= mi)
    assume(mi < hi)
    if check_complete and mi == -1:
        s_src, s_cp = snap(src, True), snap(cp, True)
        if s_src != s_cp:
            raise Fail(f"{what}: copy is not field-for-field equal to the source (ids masked) at {_snap_diff(s_src, s_cp)}")
        for mb in exports:
            _same_pieces(_export_under_ids(src, cp, mb), _export(cp, mb), f"{what}: export of the copy differs from the source (multiblend={mb})")
    if mi == -1:     # completeness + sharing only
        if disjoint:
            check_disjoint(src, cp, what)
        return
    victim, other = (cp, src) if on_copy else (src, cp)
    ms = mutators(victim)
    path, target, fn = pick(ms, mi)
    vname, oname = ("copy", "source") if on_copy else ("source", "copy")

    def body():
        before_snap = snap(other)
        before_exp = [_export(other, mb) for mb in exports]
        fn(target)
        after = snap(other)
        if after != before_snap:
            return f"{what}: mutating {vname}{path} changed the {oname} at {_snap_diff(before_snap, after)}"
        for mb, exp in zip(exports, before_exp):
            now = _export(other, mb)
            if now != exp:
                return f"{what}: mutating {vname}{path} changed the export of the {oname}: {_first_diff(exp, now)}"
        return None
    msg = _untraced(body) if fast else body()
    if msg:
        raise Fail(msg)


_ENGINE = [None]


def _untraced(fn):
    """Independence slices pass every leaf concretely: after the mutator has been picked nothing is symbolic, so the oracle (snapshots,
    exports) and the mutation run natively."""
    if _ENGINE[0] == "chx":
        from crosshair.tracers import NoTracing
        with NoTracing():
            return fn()
    return fn()


# ------------------------------------------------------------------------------------------ skeleton builders

F6 = [0.0, 1.0, -1.0, 0.5, -64.25, 128.125, 0.000001, -0.000001, 16384.0, 0.1, 123456.789, 1e-07, 0.015625]
G6 = [0.0, 45.0, -90.5, 0.1, 3.14159e-05, 1.5e-07, 123456.0, 2.5e9, 0.00123456, 99999.5]
OUT_FORMS = [(False, None, None), (True, None, None), (False, "rl", None), (False, None, "in_a"), (True, "o", "i")]
OUT_SLOTS = ["output", "target", "input", "params", "inst_out", "inst_in"]


def _vec(i):
    from srctools.math import Vec
    return Vec(F6[i % len(F6)], F6[(i + 3) % len(F6)], F6[(i + 7) % len(F6)])


def _mk_output(slot, s, form, times, delay=0.25):
    import srctools.vmf as vmf
    comma, io, ii = OUT_FORMS[form]
    f = {"output": "OnTrigger", "target": "a b", "input": "Fire\\User1", "params": 'p "q"\n,r,', "inst_out": io, "inst_in": ii}
    if slot in ("inst_out", "inst_in") and f[slot] is None:
        assume(False)
    if slot in f:
        f[slot] = s
    return vmf.Output(f["output"], f["target"], f["input"], f["params"], delay, times=times, inst_out=f["inst_out"],
                      inst_in=f["inst_in"], comma_sep=comma)


def _mk_side(m, pts, mat, fid, k=0, lightmap=16, smooth=0):
    import srctools.vmf as vmf
    from srctools.math import Vec
    u = vmf.UVAxis(F6[(k + 1) % len(F6)], F6[(k + 2) % len(F6)], F6[(k + 5) % len(F6)], F6[(k + 4) % len(F6)], 0.25 if k % 2 else 0.1)
    v = vmf.UVAxis(0.0, -1.0, 0.000001, -64.25, 0.015625)
    return vmf.Side(m, [Vec(*p) for p in pts], des_id=fid, lightmap=lightmap, smoothing=smooth, mat=mat, rotation=G6[k % len(G6)], uaxis=u, vaxis=v)


WEDGE = [
    [(0, 0, 0), (128.125, 0, 0), (0, 0.5, 0)],
    [(0, 0, 0), (0, 0, -64.25), (123456.789, 0, 0)],
    [(0, 0, 0), (0, 0.000001, 0), (0, 0, 1e-07)],
    [(1, 0, 0), (0, 1, 0), (0, 0, 0.015625)],
]


def _mk_disp(m, power, mb, fid=4, mat="nature/blend", allowed=5):
    """A displacement face with every vertex field set to distinct concrete values (mb: 0 none, 1 blend+alpha+colours, 2 blend+alpha)."""
    import srctools.vmf as vmf
    from srctools.math import Vec
    from array import array
    side = vmf.Side(m, [Vec(0, 0, 0), Vec(128.125, 0, 0), Vec(0, 0.5, 0)], des_id=fid, mat=mat, disp_power=power)
    side.disp_pos = Vec(-64.25, 0.000001, 16384)
    side.disp_elevation = 0.5
    side.disp_flags = vmf.DispFlag(5)
    side.disp_allowed_vert = array("i", [allowed, -1, 0, 1, 2, 3, -7, 32767, -32768, allowed])
    size = side.disp_size
    for k, v in enumerate(side._disp_verts):
        v.normal = _vec(k)
        v.distance = F6[(k + 2) % len(F6)]
        v.offset = _vec(k + 1)
        v.offset_norm = _vec(k + 2)
        v.alpha = F6[(k + 5) % len(F6)] if k % 3 else 255.0
        if v.x < size - 1 and v.y < size - 1:
            v.triangle_a = vmf.TriangleTag(1 if k % 2 else 9)
            v.triangle_b = vmf.TriangleTag(0 if k % 2 else 1)
        if mb:
            v.multi_blend = vmf.Vec4(G6[k % len(G6)], 0.5, 1.0, G6[(k + 4) % len(G6)])
            v.multi_alpha = vmf.Vec4(0.25, G6[(k + 1) % len(G6)], 0.0, 1.0)
            if mb == 1:
                v.multi_colors = [_vec(k + 3), Vec(1, 1, 1), _vec(k + 4), Vec(0.5, 0.25, 0)]
    return side


def _mk_solid(m, mat, kind="wedge", sid=5, hidden=False, group=7, vis=(2, 9), vs=True, vas=True, cordon=False, color=(0, 180, 0),
              lightmap=16, smooth=0, fid0=11, power=1, mb=1):
    import srctools.vmf as vmf
    from srctools.math import Vec
    if kind == "prism":
        s = m.make_prism(Vec(-64.25, 0, 0), Vec(128.125, 16384, 0.5), mat, set_points=True).solid
        s.hidden, s.group_id, s.visgroup_ids = hidden, group, set(vis)
        s.vis_shown, s.vis_auto_shown, s.is_cordon, s.editor_color = vs, vas, cordon, Vec(color)
        s.sides[0].lightmap, s.sides[0].smooth = lightmap, smooth
        return s
    sides = [_mk_side(m, p, mat if i == 0 else "dev/dev_measuregeneric01", fid0 + i * 3, k=i, lightmap=lightmap if i == 0 else 16,
                      smooth=smooth if i == 0 else 3) for i, p in enumerate(WEDGE)]
    if kind == "disp":
        sides[1] = _mk_disp(m, power, mb, fid=fid0 + 3)
    return vmf.Solid(m, sid, sides, vis, hidden, group, vs, vas, cordon, Vec(color))


KEYSETS = [
    {"classname": "info_target", "origin": "0 0 64", "targetname": "tgt", "message": "m"},
    {"classname": "func_instance", "origin": "8 8 8", "file": "inst/a.vmf", "Angles": "0 90 0", "replace": "x", "message": "hello"},
]


def _mk_entity(m, slot, s, ks=0, times=7, hidden=False, vs=True, vas=True, solids=(), ent_id=7, lone_fixup=False):
    import srctools.vmf as vmf
    keys = dict(KEYSETS[ks])
    if slot == "value":
        keys["message"] = s
    fix = [vmf.FixupValue("var", s if slot == "fixup" else " lead tail ", 1), vmf.FixupValue("Other", "", 2),
           vmf.FixupValue("q", 'a "b" \\', 13)]
    outs = [vmf.Output("OnTrigger", "tgt", "Fire", s if slot == "param" else "a,b", 0.1, times=times),
            vmf.Output("OnUser1", "t", "Kill", "", 0.0, comma_sep=True, inst_out="r", inst_in="i", only_once=True)]
    return vmf.Entity(m, keys=keys, fixup=fix, ent_id=ent_id, outputs=outs, solids=list(solids), hidden=hidden, groups=(3, 8),
                      vis_ids=(2, 5), vis_shown=vs, vis_auto_shown=vas, editor_color=(220, 30, 220),
                      logical_pos=s if slot == "logical_pos" else "[0 500]", comments=s if slot == "comments" else 'c "1"\nline2')


def _maps(other):
    """Source map and destination map (the same one, or another map that already uses some of the ids)."""
    import srctools.vmf as vmf
    m = vmf.VMF()
    if not other:
        return m, None
    m2 = vmf.VMF()
    m2.create_ent("info_other")
    return m, m2


# ------------------------------------------------------------------------------------------ harnesses: Output

TIMES = [-1, 1, 0, 7, 2 ** 31]
INTS = [16, 0, 2 ** 31]


def h_output(s: str, ti: int, comma: bool, mi: int, on_copy: bool, n: int, slot: str, form: int = 0, lo: int = -1, hi: int = 10 ** 9, fast: bool = False) -> None:
    """Output.copy(): every field survives (times by index from TIMES), export identical; one mutation of either side is invisible on the
    other."""
    assume(len(s) == n)
    o = _mk_output(slot, s, form, pick(TIMES, ti))
    o.comma_sep = comma
    c = o.copy()
    check(c is not o, "Output.copy() returned the same object")
    complete_and_independent(o, c, mi, on_copy, "Output.copy()", lo, hi, fast=fast)


def h_output_w(s: str, ti: int, comma: bool, mi: int, on_copy: bool, n: int, slot: str, form: int = 0, lo: int = -1, hi: int = 10 ** 9, fast: bool = False) -> None:
    h_output(s, ti, comma, mi, on_copy, n, slot, form, lo, hi, fast)
    assume(mi >= 0)
    raise Fail("reached")


def h_output_fields(s: str, times: int, comma: bool, once: bool, n: int, slot: str, form: int = 0) -> None:
    """Output.copy() field for field, for ALL integers `times` (no text conversion on this path: the int stays symbolic), built with
    times= or with only_once=."""
    import srctools.vmf as vmf
    assume(len(s) == n)
    o = _mk_output(slot, s, form, times)
    if once:
        o = vmf.Output(o.output, o.target, o.input, o.params, o.delay, only_once=True, inst_out=o.inst_out, inst_in=o.inst_in)
    o.comma_sep = comma
    c = o.copy()
    check(c is not o, "Output.copy() returned the same object")
    check(c.times == o.times, "Output.copy(): times differs", o.times, c.times)
    check(c.only_once == o.only_once, "Output.copy(): only_once differs")
    a, b = snap(o), snap(c)
    check(a == b, "Output.copy(): copy is not field-for-field equal to the source")


# ------------------------------------------------------------------------------------------ harnesses: Side / Solid

def _copy_solidlike(obj, m2, mapping):
    if m2 is None:
        return obj.copy(side_mapping=mapping)
    return obj.copy(vmf_file=m2, side_mapping=mapping)


def h_side(s: str, li: int, mi: int, on_copy: bool, n: int, kind: str = "plain", other: bool = False, lo: int = -1, hi: int = 10 ** 9,
           power: int = 1, mb: int = 1, both_exports: bool = False, sm: int = 5, fast: bool = False) -> None:
    """Side.copy(): plain face, face with Strata point data, displacement face (alpha, multiblend, allowed verts, triangle tags)."""
    import srctools.vmf as vmf
    assume(len(s) == n)
    lm = pick(INTS, li)
    m, m2 = _maps(other)
    if kind == "disp":
        side = _mk_disp(m, power, mb, mat=s)
        side.lightmap, side.smooth = lm, sm
    else:
        side = _mk_side(m, WEDGE[1], s, 11, k=1, lightmap=lm, smooth=sm)
        if kind == "points":
            side.strata_points = [_vec(2), _vec(5), _vec(6), _vec(9)]
    mapping = {}
    c = _copy_solidlike(side, m2, mapping)
    check(mapping == {side.id: c.id}, "Side.copy(): side_mapping not updated with old -> new", mapping)
    check(c.map is (m2 or m), "Side.copy(): copy belongs to the wrong map")
    complete_and_independent(side, c, mi, on_copy, f"Side.copy()[{kind}]", lo, hi, exports=(True, False) if both_exports else (True,), fast=fast)


def h_side_w(s: str, li: int, mi: int, on_copy: bool, n: int, kind: str = "plain", other: bool = False, lo: int = -1, hi: int = 10 ** 9,
             power: int = 1, mb: int = 1, both_exports: bool = False, sm: int = 5, fast: bool = False) -> None:
    h_side(s, li, mi, on_copy, n, kind, other, lo, hi, power, mb, both_exports, sm, fast)
    assume(mi >= 0)
    raise Fail("reached")


def h_solid(s: str, li: int, hidden: bool, vs: bool, cordon: bool, mi: int, on_copy: bool, n: int, kind: str = "wedge", other: bool = False,
            keep_vis: bool = True, lo: int = -1, hi: int = 10 ** 9, power: int = 1, mb: int = 1, fast: bool = False) -> None:
    """Solid.copy(): wedge / prism with point data / brush with a displacement face; group, visgroups, colour, flags."""
    assume(len(s) == n)
    lm = pick(INTS, li)
    m, m2 = _maps(other)
    sol = _mk_solid(m, s, kind=kind, hidden=hidden, vs=vs, cordon=cordon, lightmap=lm, power=power, mb=mb)
    mapping = {}
    if keep_vis:
        c = _copy_solidlike(sol, m2, mapping)
    else:
        c = sol.copy(vmf_file=m2, side_mapping=mapping, keep_vis=False)
    check(mapping == {a.id: b.id for a, b in zip(sol.sides, c.sides)}, "Solid.copy(): side_mapping wrong", mapping)
    if not keep_vis:
        # documented: visibility information is dropped; everything else must still be complete
        check(c.visgroup_ids == set() and not c.hidden and c.vis_shown and c.vis_auto_shown, "Solid.copy(keep_vis=False) kept visibility data")
        c.visgroup_ids, c.hidden, c.vis_shown, c.vis_auto_shown = set(sol.visgroup_ids), sol.hidden, sol.vis_shown, sol.vis_auto_shown
    complete_and_independent(sol, c, mi, on_copy, f"Solid.copy()[{kind}]", lo, hi, fast=fast)


def h_solid_w(s: str, li: int, hidden: bool, vs: bool, cordon: bool, mi: int, on_copy: bool, n: int, kind: str = "wedge", other: bool = False,
              keep_vis: bool = True, lo: int = -1, hi: int = 10 ** 9, power: int = 1, mb: int = 1, fast: bool = False) -> None:
    h_solid(s, li, hidden, vs, cordon, mi, on_copy, n, kind, other, keep_vis, lo, hi, power, mb, fast)
    assume(mi >= 0)
    raise Fail("reached")


# ------------------------------------------------------------------------------------------ harnesses: Entity

def h_entity(s: str, ti: int, hidden: bool, vs: bool, mi: int, on_copy: bool, n: int, slot: str = "value", brush: str = "", other: bool = False,
             in_map: bool = False, ks: int = 0, lo: int = -1, hi: int = 10 ** 9, fast: bool = False) -> None:
    """Entity.copy(): keys, fixups, outputs (arbitrary `times`), solids (optionally a displacement brush), editor data."""
    assume(len(s) == n)
    if slot == "logical_pos":
        assume(n > 0)
    times = pick(TIMES, ti)
    m, m2 = _maps(other)
    solids = []
    if brush:
        solids = [_mk_solid(m, "tools/toolsnodraw", kind=brush, sid=3), _mk_solid(m, "dev/x", kind="wedge", sid=9, fid0=40, hidden=True)]
    e = _mk_entity(m, slot, s, ks=ks, times=times, hidden=hidden, vs=vs, solids=solids)
    if in_map:
        m.add_ent(e)
    mapping = {}
    c = e.copy(vmf_file=m2, side_mapping=mapping)
    if in_map:
        (m2 or m).add_ent(c)
    check(c.map is (m2 or m), "Entity.copy(): copy belongs to the wrong map")
    complete_and_independent(e, c, mi, on_copy, "Entity.copy()", lo, hi, fast=fast)


def h_entity_w(s: str, ti: int, hidden: bool, vs: bool, mi: int, on_copy: bool, n: int, slot: str = "value", brush: str = "", other: bool = False,
               in_map: bool = False, ks: int = 0, lo: int = -1, hi: int = 10 ** 9, fast: bool = False) -> None:
    h_entity(s, ti, hidden, vs, mi, on_copy, n, slot, brush, other, in_map, ks, lo, hi, fast)
    assume(mi >= 0)
    raise Fail("reached")


def h_fixup(s: str, form: int, mi: int, on_copy: bool, n: int, lo: int = -1, hi: int = 10 ** 9, fast: bool = False) -> None:
    """EntityFixup duplicates: EntityFixup(copy_values()), copy.copy, copy.deepcopy - editing a variable of one side must not show on the other."""
    import copy
    import srctools.vmf as vmf
    assume(len(s) == n)
    fx = vmf.EntityFixup([vmf.FixupValue("var", s, 1), vmf.FixupValue("Other", "", 2), vmf.FixupValue("q", 'a "b" \\', 13)])
    f = pick([0, 1, 2], form)
    if f == 0:
        c = vmf.EntityFixup(fx.copy_values())
    elif f == 1:
        c = copy.copy(fx)
    else:
        c = copy.deepcopy(fx)
    if f == 1:      # a shallow copy: only the mapping surface (fx[var] = value, del, new variable) has to be independent
        assume(mi <= 0)
    complete_and_independent(fx, c, mi, on_copy, ["EntityFixup(copy_values())", "copy.copy(EntityFixup)", "copy.deepcopy(EntityFixup)"][f],
                             lo, hi, disjoint=f != 1, fast=fast)


# ------------------------------------------------------------------------------------------ harnesses: VisGroup / EntityGroup

def h_visgroup(s: str, mi: int, on_copy: bool, n: int, depth: int = 1, other: bool = False, lo: int = -1, hi: int = 10 ** 9, fast: bool = False) -> None:
    import srctools.vmf as vmf
    from srctools.math import Vec
    assume(len(s) == n)
    m, m2 = _maps(other)
    names = ['top "q"', "mid\\", "leaf"]
    names[depth] = s
    leaf = vmf.VisGroup(m, names[2], 55, Vec(1, 2, 3))
    mid = vmf.VisGroup(m, names[1], 7, Vec(220, 30, 220), [leaf, vmf.VisGroup(m, "sib", 56)])
    top = vmf.VisGroup(m, names[0], 2, Vec(0, 128, 255), [mid])
    mapping = {}
    c = top.copy(m2, mapping)
    src_objs, cp_objs = _id_objs(top), _id_objs(c)
    check(len(src_objs) == len(cp_objs), "VisGroup.copy(): number of groups")
    check(mapping == {a.id: b.id for a, b in zip(src_objs, cp_objs)}, "VisGroup.copy(): group_mapping is not old -> new for every group", mapping)
    for g in cp_objs:
        check(g.vmf is (m2 or m), "VisGroup.copy(): a copied group belongs to the wrong map", g.name)
    complete_and_independent(top, c, mi, on_copy, "VisGroup.copy()", lo, hi, fast=fast)


def h_group(shown: bool, auto: bool, mi: int, on_copy: bool, other: bool = False) -> None:
    import srctools.vmf as vmf
    from srctools.math import Vec
    m, m2 = _maps(other)
    g = vmf.EntityGroup(m, 7, shown, auto, Vec(220, 30, 220))
    c = g.copy(m2)
    complete_and_independent(g, c, mi, on_copy, "EntityGroup.copy()")


# ------------------------------------------------------------------------------------------ harnesses: Keyvalues

KV_SLOTS = ["root_name", "leaf_name", "leaf_value", "sub_name", "deep_value", "b_name", "b_value"]
KV_OPS = ["copy", "add_root", "add_list", "add_single", "iadd_root", "iadd_list", "iadd_single", "extend_root", "extend_list"]


def _kv_trees(slot, s):
    from srctools.keyvalues import Keyvalues
    f = {k: None for k in KV_SLOTS}
    f.update(root_name="Root", leaf_name="Key", leaf_value='v "1"', sub_name="Sub", deep_value="deep", b_name="Bee", b_value="bv")
    f[slot] = s
    a = Keyvalues(f["root_name"], [
        Keyvalues(f["leaf_name"], f["leaf_value"]),
        Keyvalues(f["sub_name"], [Keyvalues("inner", f["deep_value"]), Keyvalues("Empty", [])]),
        Keyvalues("Key", "second"),
    ])
    b_kids = [Keyvalues(f["b_name"], f["b_value"]), Keyvalues("BBlock", [Keyvalues("x", "1"), Keyvalues("y", [Keyvalues("z", "2")])])]
    return a, b_kids


def h_keyvalues(s: str, mi: int, which: int, n: int, slot: str, op: str, lo: int = -1, hi: int = 10 ** 9) -> None:
    """Keyvalues.copy / + / += / extend: operands documented as unchanged stay snapshot-equal; the result has exactly the expected contents;
    result and operands share no node; one mutation (every node of the victim, by symbolic index) of result/left/right leaves the others alone."""
    import warnings
    from srctools.keyvalues import Keyvalues
    assume(len(s) == n)
    assume(lo <= mi)
    assume(mi < hi)
    a, b_kids = _kv_trees(slot, s)
    if op.endswith("_root"):
        b = Keyvalues.root(*b_kids)
    elif op.endswith("_single"):
        b = Keyvalues("Single", b_kids)
    else:
        b = b_kids
    sa, sb = snap(a), snap(b)
    a_kids_before = list(sa[3][1:])
    if op.endswith("_single"):
        added = [sb]
    elif op.endswith("_root"):
        added = list(sb[3][1:])
    else:
        added = list(sb[1:])
    with warnings.catch_warnings():
        warnings.simplefilter("ignore")
        if op == "copy":
            r = a.copy()
            added = []
        elif op.startswith("add"):
            r = a + b
        elif op.startswith("iadd"):
            r = a
            r += b
        else:
            r = a
            r.extend(b)
    inplace = r is a
    check(inplace == (not (op == "copy" or op.startswith("add"))), f"{op}: result identity", inplace)
    if not inplace:
        check(snap(a) == sa, f"Keyvalues {op}: the left operand was modified: {_snap_diff(sa, snap(a))}")
        check_disjoint(a, r, f"Keyvalues {op} (left operand vs result)")
    check(snap(b) == sb, f"Keyvalues {op}: the right operand was modified: {_snap_diff(sb, snap(b))}")
    sr = snap(r)
    check(sr[1] == sa[1] and sr[2] == sa[2], f"Keyvalues {op}: result name", sr[1], sa[1])
    want = a_kids_before + added
    check(list(sr[3][1:]) == want, f"Keyvalues {op}: result children differ from left children + added: {_snap_diff(tuple(want), tuple(sr[3][1:]))}")
    check_disjoint(b, r, f"Keyvalues {op} (right operand vs result)")
    # one mutation of one of the (up to) three trees; the others must not move
    trees = [("result", r), ("right", b)] + ([] if inplace else [("left", a)])
    if mi == -1:
        return
    vname, victim = pick(trees, which)
    ms = [(p, o) for p, o in nodes(victim)]
    path, target = pick(ms, mi)
    others = [(nm, t, snap(t)) for nm, t in trees if t is not victim]
    mutate_node(target)
    for nm, t, before in others:
        after = snap(t)
        check(after == before, f"Keyvalues {op}: mutating {vname}{path} changed the {nm} operand at {_snap_diff(before, after)}")


def h_keyvalues_w(s: str, mi: int, which: int, n: int, slot: str, op: str, lo: int = -1, hi: int = 10 ** 9) -> None:
    h_keyvalues(s, mi, which, n, slot, op, lo, hi)
    assume(mi >= 0)
    raise Fail("reached")


# ------------------------------------------------------------------------------------------ harness: collapse_one as a mutation history

FIXUP_STYLES = [0, 1, 2]


def h_collapse(name: str, style: int, vis: int, twice: bool, n: int, disp: bool = True) -> None:
    """instancing.collapse_one copies the instance file's contents into the target and then edits the copies in place (localise, name fixup,
    fixup rewriting, output retargeting): the instance file's own map must export exactly as before, and a second collapse of the same file
    must produce the same contents as the first (modulo ids)."""
    import srctools.vmf as vmf
    from srctools.math import Vec, Matrix
    from srctools.instancing import Instance, InstanceFile, FixupStyle, collapse_one
    assume(len(name) == n)
    for ch in name:
        assume(ch not in "@!")
    im = vmf.VMF()
    im.add_brush(_mk_solid(im, "dev/x", kind="disp" if disp else "wedge", sid=3, vis=(), group=None))
    e1 = _mk_entity(im, "none", "", ks=0, ent_id=20)
    e1.visgroup_ids = set()
    im.add_ent(e1)
    e2 = _mk_entity(im, "none", "", ks=1, ent_id=21, solids=[])
    e2.visgroup_ids = set()
    im.add_ent(e2)
    e3 = vmf.Entity(im, keys={"classname": "func_brush", "origin": "1 2 3", "targetname": "br"},
                    solids=[_mk_solid(im, "dev/y", kind="disp" if disp else "wedge", sid=30, fid0=60, vis=(), group=None)], ent_id=22)
    im.add_ent(e3)
    file = InstanceFile(im)
    things = list(im.brushes) + list(im.entities)
    before = [(snap(t), _export(t)) for t in things]
    target = vmf.VMF()
    vmode = pick([False, True], vis)
    st = FixupStyle(pick(FIXUP_STYLES, style))
    results = []
    cache = {}
    for rnd in range(2 if twice else 1):
        inst = Instance(name, "inst/a.vmf", Vec(1024.0, 0.0, -64.0), Matrix.from_yaw(90.0), st,
                        fixup=[vmf.FixupValue("var", "repl", 1)])
        nb, ne = len(target.brushes), len(target.entities)
        collapse_one(target, inst, file, visgroup=vmode, engine_cache=cache)
        new = list(target.brushes[nb:]) + list(target.entities[ne:])
        check(len(new) == len(things), "collapse_one: number of collapsed objects", len(new), len(things))
        results.append([snap(t, True) for t in new])
        for t, (sn, ex) in zip(things, before):
            now = snap(t)
            check(now == sn, f"collapse_one (round {rnd}) modified the instance file's own {type(t).__name__} at {_snap_diff(sn, now)}")
            _same_pieces(ex, _export(t), f"collapse_one (round {rnd}) changed the export of the instance file's own {type(t).__name__}")
        for t, o in zip(things, new):
            check_disjoint(t, o, "collapse_one")
    if twice:
        for k, (x, y) in enumerate(zip(results[0], results[1])):
            check(x == y, f"collapsing the same instance file twice gave different contents for object {k}: {_snap_diff(x, y)}")


def h_collapse_w(name: str, style: int, vis: int, twice: bool, n: int, disp: bool = True) -> None:
    h_collapse(name, style, vis, twice, n, disp)
    raise Fail("reached")


# ------------------------------------------------------------------------------------------ E2: Vec / Angle / Matrix operators are pure

def o_math_pure(_exclude=None, _concrete=None):
    """Operators documented as producing a new value leave their operands unchanged: the real srctools.math code runs on symbolic reals and
    z3 is asked whether any component of an operand can differ from its value before the call (for all reals; sin/cos as constrained symbols)."""
    import re
    import z3
    from vf import symx
    import srctools.math as sm
    t0 = time.perf_counter()
    symx.install_math_shims()
    items, unknown = [], []
    fail = None
    cons = []

    def R(nm):
        return symx.SymReal(z3.Real(nm))

    def mk_vec(cls, p):
        return cls(R(p + "_x"), R(p + "_y"), R(p + "_z"))

    def mk_ang(cls, p):
        tags = []
        for ax in "pyr":
            s_, c_ = z3.Real(f"{p}_s{ax}"), z3.Real(f"{p}_c{ax}")
            cons.append(s_ * s_ + c_ * c_ == 1)
            tags.append(symx.AngleTag(symx.SymReal(s_), symx.SymReal(c_), f"{p}.{ax}"))
        a = cls.__new__(cls)
        a._pitch, a._yaw, a._roll = tags
        return a

    def mk_mat(cls, p):
        return cls._from_raw(*[R(f"{p}_{i}{j}") for i in range(3) for j in range(3)])

    def comps(o):
        if isinstance(o, sm.VecBase):
            return [("x", o.x), ("y", o.y), ("z", o.z)]
        if isinstance(o, sm.AngleBase):
            return [("pitch", o._pitch), ("yaw", o._yaw), ("roll", o._roll)]
        if isinstance(o, sm.MatrixBase):
            return [(n, getattr(o, n)) for n in ("_aa", "_ab", "_ac", "_ba", "_bb", "_bc", "_ca", "_cb", "_cc")]
        if isinstance(o, tuple):
            return [(str(i), v) for i, v in enumerate(o)]
        return [("value", o)]

    V, FV, A, FA, M, FM = sm.Py_Vec, sm.Py_FrozenVec, sm.Py_Angle, sm.Py_FrozenAngle, sm.Py_Matrix, sm.Py_FrozenMatrix
    k = R("k")
    ops = []
    for vc in (V, FV):
        nm = vc.__name__
        for oc in (V, FV):
            ops += [(f"{nm}+{oc.__name__}", lambda a, b: a + b, lambda vc=vc: mk_vec(vc, "a"), lambda oc=oc: mk_vec(oc, "b")),
                    (f"{nm}-{oc.__name__}", lambda a, b: a - b, lambda vc=vc: mk_vec(vc, "a"), lambda oc=oc: mk_vec(oc, "b")),
                    (f"{nm}.cross({oc.__name__})", lambda a, b: a.cross(b), lambda vc=vc: mk_vec(vc, "a"), lambda oc=oc: mk_vec(oc, "b")),
                    (f"{nm}.dot({oc.__name__})", lambda a, b: a.dot(b), lambda vc=vc: mk_vec(vc, "a"), lambda oc=oc: mk_vec(oc, "b"))]
        ops += [(f"{nm}+tuple", lambda a, b: a + b, lambda vc=vc: mk_vec(vc, "a"), lambda: (R("b_x"), R("b_y"), R("b_z"))),
                (f"tuple-{nm}", lambda a, b: b - a, lambda vc=vc: mk_vec(vc, "a"), lambda: (R("b_x"), R("b_y"), R("b_z"))),
                (f"{nm}*k", lambda a, b: a * b, lambda vc=vc: mk_vec(vc, "a"), lambda: k),
                (f"k*{nm}", lambda a, b: b * a, lambda vc=vc: mk_vec(vc, "a"), lambda: k),
                (f"{nm}/k", lambda a, b: a / b, lambda vc=vc: mk_vec(vc, "a"), lambda: k),
                (f"-{nm}", lambda a, b: -a, lambda vc=vc: mk_vec(vc, "a"), lambda: None),
                (f"+{nm}", lambda a, b: +a, lambda vc=vc: mk_vec(vc, "a"), lambda: None),
                (f"abs({nm})", lambda a, b: abs(a), lambda vc=vc: mk_vec(vc, "a"), lambda: None),
                (f"{nm}.copy()", lambda a, b: a.copy(), lambda vc=vc: mk_vec(vc, "a"), lambda: None),
                (f"{nm}.thaw/freeze()", (lambda a, b: a.freeze()) if vc is V else (lambda a, b: a.thaw()), lambda vc=vc: mk_vec(vc, "a"), lambda: None),
                (f"{nm}.mag_sq()", lambda a, b: a.mag_sq(), lambda vc=vc: mk_vec(vc, "a"), lambda: None),
                (f"{nm}.with_axes", lambda a, b: a.with_axes("x", b), lambda vc=vc: mk_vec(vc, "a"), lambda: k)]
        for rc in (A, FA):
            ops.append((f"{nm}@{rc.__name__}", lambda a, b: a @ b, lambda vc=vc: mk_vec(vc, "a"), lambda rc=rc: mk_ang(rc, "r")))
        for rc in (M, FM):
            ops.append((f"{nm}@{rc.__name__}", lambda a, b: a @ b, lambda vc=vc: mk_vec(vc, "a"), lambda rc=rc: mk_mat(rc, "m")))
    for mc in (M, FM):
        nm = mc.__name__
        for rc in (M, FM):
            ops.append((f"{nm}@{rc.__name__}", lambda a, b: a @ b, lambda mc=mc: mk_mat(mc, "a"), lambda rc=rc: mk_mat(rc, "m")))
        for rc in (A, FA):
            ops.append((f"{nm}@{rc.__name__}", lambda a, b: a @ b, lambda mc=mc: mk_mat(mc, "a"), lambda rc=rc: mk_ang(rc, "r")))
            ops.append((f"{nm}.from_angle({rc.__name__})", lambda a, b: type(a).from_angle(b), lambda mc=mc: mk_mat(mc, "a"), lambda rc=rc: mk_ang(rc, "r")))
        ops += [(f"{nm}.transpose()", lambda a, b: a.transpose(), lambda mc=mc: mk_mat(mc, "a"), lambda: None),
                (f"{nm}.copy()", lambda a, b: a.copy(), lambda mc=mc: mk_mat(mc, "a"), lambda: None),
                (f"{nm}.forward()", lambda a, b: (a.forward(), a.left(), a.up()), lambda mc=mc: mk_mat(mc, "a"), lambda: None)]
    for ac in (A, FA):
        nm = ac.__name__
        ops += [(f"{nm}.copy()", lambda a, b: a.copy(), lambda ac=ac: mk_ang(ac, "a"), lambda: None)]
        for rc in (M, FM):
            ops.append((f"{nm}@{rc.__name__}", lambda a, b: a @ b, lambda ac=ac: mk_ang(ac, "a"), lambda rc=rc: mk_mat(rc, "m")))
    npaths = 0
    for label, fn, mka, mkb in ops:
        if _exclude and any(re.search(rx, label) for rx in _exclude):
            continue
        try:
            a, b = mka(), mkb()
            before_a = [(n, v) for n, v in comps(a)]
            before_b = [(n, v) for n, v in comps(b)] if b is not None else []

            def run():
                return fn(a, b)
            for pc, res, unk in symx.explore(run, list(cons), timeout_ms=20000, max_paths=64):
                npaths += 1
                if res is a or (b is not None and res is b):
                    if type(res).__name__.startswith("Py_Frozen") or "Frozen" in type(res).__name__:
                        pass    # immutable: returning self is a new value for every purpose
                    else:
                        fail = fail or {"query": f"{label}: returned one of its mutable operands", "goal": "", "model": {}}
                goals = []
                for (n, v0), (_n, v1) in list(zip(before_a, comps(a))) + list(zip(before_b, comps(b) if b is not None else [])):
                    if v0 is v1:
                        continue
                    if isinstance(v0, symx.AngleTag) or isinstance(v1, symx.AngleTag):
                        g = symx.same_tag_goals(v0, v1) if isinstance(v0, symx.AngleTag) and isinstance(v1, symx.AngleTag) else None
                        goals += [(n, x) for x in (g if g is not None else [z3.BoolVal(False)])]
                    else:
                        goals.append((n, symx._rv(v0) == symx._rv(v1)))
                for n, g in goals:
                    r_, model = symx.prove(list(cons) + list(pc), g, 20000)
                    if r_ == "cex" and fail is None:
                        fail = {"query": f"{label}: operand component {n} changed", "goal": str(g)[:200],
                                "model": {str(d): symx.model_value(model, d()) for d in model.decls()}}
                    elif r_ == "unknown":
                        unknown.append(f"{label}: {n}")
                items.append({"q": label, "r": "operands identical" if not goals else f"{len(goals)} goals"})
        except symx.Escaped as e:
            unknown.append(f"{label}: escaped {e}")
        except Exception as e:  # noqa
            unknown.append(f"{label}: {type(e).__name__}: {e}"[:160])
    st = symx.STATS
    verdict = "refuted" if fail else ("unknown" if unknown else "confirmed")
    return {"verdict": verdict, "queries": st["queries"], "solver_checks": st["queries"], "solver_s": round(st["seconds"], 3), "paths": npaths,
            "cex": dict(fail["model"], _query=fail["query"]) if fail else None, "failure": fail,
            "unknown_reasons": {u: 1 for u in unknown[:8]}, "samples": [items[:3]], "wall_s": round(time.perf_counter() - t0, 3)}


def replay_math_pure(**cex):
    """Native re-run of every operator on concrete floats: operands must be bit-identical afterwards."""
    import srctools.math as sm
    V, FV, A, FA, M, FM = sm.Py_Vec, sm.Py_FrozenVec, sm.Py_Angle, sm.Py_FrozenAngle, sm.Py_Matrix, sm.Py_FrozenMatrix
    for vc in (V, FV):
        for other in (V(4, 5, 6), FV(4, 5, 6), A(10, 20, 30), FA(10, 20, 30), M.from_yaw(30), FM.from_yaw(30), 2.5):
            a = vc(1.5, -2.0, 3.25)
            sa, so = repr(a), repr(other)
            for f in (lambda: a + other, lambda: a - other, lambda: a * other, lambda: a / other, lambda: a @ other, lambda: -a, lambda: abs(a)):
                try:
                    f()
                except (TypeError, ZeroDivisionError):
                    pass
                check(repr(a) == sa and repr(other) == so, "operator modified an operand", sa, repr(a), so, repr(other))


# ------------------------------------------------------------------------------------------ obligations

def _ranges(total, width):
    return [(lo, min(lo + width, total)) for lo in range(0, total, width)]


CONC = 'm/x "q"'      # concrete leaf used by the independence slices (a quote and a space: awkward for every writer)


def _indep(base, total, width):
    """Independence slices: every leaf concrete, the mutator index (within [lo, hi)) and the mutated side symbolic."""
    return [dict(base, lo=lo, hi=hi) for lo, hi in _ranges(total, width)]


def obligations(tier):
    import srctools.vmf as vmf
    q = tier == "quick"
    lens = [0, 1] if q else [0, 1, 2]
    obls = []
    C = {"lo": -1, "hi": 0}      # completeness slices: leaves symbolic, no mutation

    # --- Output
    combos = [("output", 0), ("target", 0), ("input", 1), ("params", 1), ("inst_out", 2), ("inst_in", 3), ("params", 4)]
    sl = [dict(C, n=n, slot=slot, form=form, ti=ti) for n in lens for slot, form in combos for ti in ([3] if (q or n == 2) else range(len(TIMES)))
          if not (q and n == 0 and slot not in ("target", "inst_out"))]
    sl += [{"s": CONC, "n": len(CONC), "ti": ti, "comma": c, "slot": "params", "form": f, "lo": 0, "hi": 9}
           for f in range(len(OUT_FORMS)) for ti, c in ((3, False), (1, True))]
    obls.append(Obl("output", MOD, "h_output", slices=sl, budget_s=600 if q else 2400, per_path_s=60,
                    desc="Output.copy(): symbolic str leaf, times by index, symbolic comma_sep: complete (fields + export); one mutation of "
                         "either side invisible on the other", bound="one str leaf of exact length, times from [-1,1,0,7,2**31]"))
    obls.append(Obl("output_fields", MOD, "h_output_fields", slices=[{"n": 1, "slot": "params", "form": f} for f in range(len(OUT_FORMS))],
                    budget_s=600, per_path_s=60, desc="Output.copy() field for field for every integer times (and only_once)", bound="all ints"))
    obls.append(Obl("output.witness", MOD, "h_output_w", slices=[{"n": 1, "slot": "target", "form": 0, "ti": 3, "lo": 0, "hi": 1}], budget_s=120,
                    per_path_s=60, witness=True))

    # --- Side
    def side_total(kind, power=1, mb=1):
        m = vmf.VMF()
        if kind == "disp":
            probe = _mk_disp(m, power, mb)
        else:
            probe = _mk_side(m, WEDGE[1], "x", 11, k=1)
            if kind == "points":
                probe.strata_points = [_vec(2), _vec(5), _vec(6), _vec(9)]
        return len(mutators(probe))
    sl = []
    for kind in ("plain", "points"):
        for other in (False, True):
            sl += [dict(C, n=n, kind=kind, other=other) for n in (lens if kind == "plain" else [1])]
            sl += _indep({"s": CONC, "n": len(CONC), "li": 2, "kind": kind, "other": other}, side_total(kind), 16)
    obls.append(Obl("side", MOD, "h_side", slices=sl, budget_s=900, per_path_s=90,
                    desc="Side.copy(): plain face and face with Strata point data; symbolic material, lightmap by index; every mutator",
                    bound="material of exact length"))
    sl = []
    disp_cfgs = [(1, 1, True, (False, True)), (1, 2, False, (True,)), (1, 0, False, (False,))]
    if not q:
        disp_cfgs += [(2, 1, True, (False, True)), (2, 0, False, (True,))]
    for power, mb, both, others in disp_cfgs:
        for other in others:
            sl += [dict(C, n=n, kind="disp", other=other, power=power, mb=mb, both_exports=both) for n in ([1] if q else [0, 1, 2])]
            sl += _indep({"s": CONC, "n": len(CONC), "li": 2, "kind": "disp", "other": other, "power": power, "mb": mb, "both_exports": both},
                         side_total("disp", power, mb), 12 if power == 1 else 10)
    obls.append(Obl("side_disp", MOD, "h_side", slices=sl, budget_s=1500, per_path_s=120,
                    desc="Side.copy() of a displacement: start position, flags, elevation, allowed verts, per-vertex vectors, alpha, triangle "
                         "tags, multiblend blend/alpha/colours; both export modes; every mutator (incl. localise/translate)",
                    bound="power 1 (quick) / 1-2 (thorough)"))
    obls.append(Obl("side.witness", MOD, "h_side_w", slices=[{"s": CONC, "n": len(CONC), "li": 0, "kind": "disp", "lo": 0, "hi": 2}], budget_s=300,
                    per_path_s=120, witness=True))

    # --- Solid
    def solid_total(kind, power=1, mb=1):
        return len(mutators(_mk_solid(vmf.VMF(), "x", kind=kind, power=power, mb=mb)))
    sl = []
    solid_cfgs = [("wedge", False, True), ("wedge", True, True), ("prism", True, True), ("disp", False, True)]
    if not q:
        solid_cfgs += [("wedge", True, False), ("prism", False, True), ("disp", True, True)]
    for kind, other, keep in solid_cfgs:
        sl += [dict(C, n=n, li=li, kind=kind, other=other, keep_vis=keep) for n in ([1] if q else lens) for li in ((2,) if q else (0, 1, 2))]
        sl += _indep({"s": CONC, "n": len(CONC), "li": 2, "hidden": kind == "wedge", "vs": kind != "wedge", "cordon": kind == "prism", "kind": kind,
                      "other": other, "keep_vis": keep}, solid_total(kind), 14)
    obls.append(Obl("solid", MOD, "h_solid", slices=sl, budget_s=1500, per_path_s=120,
                    desc="Solid.copy(): wedge, prism with point data, brush with a displacement; group, visgroups, colour, flags; every mutator",
                    bound="material of exact length; lightmap by index; symbolic hidden/vis_shown/is_cordon in the completeness slices"))
    obls.append(Obl("solid.witness", MOD, "h_solid_w", slices=[{"s": CONC, "n": len(CONC), "li": 0, "hidden": False, "vs": True, "cordon": False,
                                                              "kind": "wedge", "lo": 0, "hi": 2}], budget_s=300, per_path_s=120, witness=True))

    # --- Entity
    def ent_total(brush, ks):
        m = vmf.VMF()
        solids = [_mk_solid(m, "t", kind=brush, sid=3), _mk_solid(m, "d", kind="wedge", sid=9, fid0=40)] if brush else []
        return len(mutators(_mk_entity(m, "none", "", ks=ks, solids=solids)))
    sl = []
    ent_cfgs = [("value", "", False, False, 0), ("fixup", "", True, True, 1), ("param", "wedge", True, False, 0)]
    if not q:
        ent_cfgs += [("comments", "", True, False, 0), ("logical_pos", "", False, True, 1), ("value", "disp", False, True, 0),
                     ("fixup", "disp", True, True, 1)]
    for slot, brush, other, in_map, ks in ent_cfgs:
        base = {"slot": slot, "brush": brush, "other": other, "in_map": in_map, "ks": ks}
        sl += [dict(C, n=n, ti=3, **base) for n in ([1] if q else lens) if not (slot == "logical_pos" and n == 0)]
        if not q:
            sl += [dict(C, n=1, ti=ti, **base) for ti in (0, 1, 2, 4)]
        sl += _indep(dict(base, s=CONC, n=len(CONC), ti=3, hidden=bool(brush), vs=not brush), ent_total(brush, ks), 14)
    obls.append(Obl("entity", MOD, "h_entity", slices=sl, budget_s=1500, per_path_s=120,
                    desc="Entity.copy(): keys, fixups, outputs, solids, editor data; in and out of the map's indexes; same / other map; every "
                         "mutator incl. the Entity and EntityFixup mapping operations",
                    bound="one str leaf of exact length; times by index; symbolic hidden/vis_shown in the completeness slices"))
    obls.append(Obl("entity.witness", MOD, "h_entity_w", slices=[{"s": CONC, "n": len(CONC), "ti": 3, "hidden": False, "vs": True, "lo": 0, "hi": 2}],
                    budget_s=300, per_path_s=120, witness=True))
    sl = [dict(C, n=n) for n in lens] + [{"s": CONC, "n": len(CONC), "lo": 0, "hi": 9}]
    obls.append(Obl("fixup", MOD, "h_fixup", slices=sl, budget_s=600, per_path_s=60,
                    desc="EntityFixup(copy_values()) / copy.copy (mapping surface only) / copy.deepcopy are independent of the source"))

    # --- VisGroup / EntityGroup
    sl = [dict(C, n=n, depth=d, other=o) for n in lens for d in (0, 2) for o in (False, True)]
    sl += [{"s": CONC, "n": len(CONC), "depth": 1, "other": o, "lo": 0, "hi": 99} for o in (False, True)]
    obls.append(Obl("visgroup", MOD, "h_visgroup", slices=sl, budget_s=600, per_path_s=60,
                    desc="VisGroup.copy(): nested groups, names, colours, group_mapping, destination map; every mutator"))
    obls.append(Obl("group", MOD, "h_group", slices=[{"other": False}, {"other": True}], budget_s=300, per_path_s=60, desc="EntityGroup.copy()"))

    # --- Keyvalues
    slots_q = ["leaf_name", "deep_value", "b_name"]
    sl = [dict(C, n=n, slot=slot, op=op) for op in KV_OPS for n in lens for slot in (slots_q if q else KV_SLOTS)
          if not (q and n == 0 and slot != "leaf_name")]
    sl += [{"s": "Na me", "n": 5, "slot": "leaf_name", "op": op, "lo": 0, "hi": 99} for op in KV_OPS]
    obls.append(Obl("keyvalues", MOD, "h_keyvalues", slices=sl, budget_s=900, per_path_s=60,
                    desc="Keyvalues.copy / + / += / extend with a root, a list and a single (deprecated) right operand: operands unchanged, "
                         "result contents exact, no shared node; one mutation of any node of any of the trees leaves the others alone",
                    bound="one str leaf (name or value) of exact length"))
    obls.append(Obl("keyvalues.witness", MOD, "h_keyvalues_w", slices=[{"s": "k", "n": 1, "slot": "leaf_name", "op": "add_list", "lo": 0, "hi": 2}],
                    budget_s=300, per_path_s=60, witness=True))

    # --- collapse_one
    # measured: a symbolic instance name forks in every casefold/startswith/compare of collapse_one (>100 paths at 3 s, never exhausted):
    # the name is a concrete slice parameter; fixup style, visgroup mode and once/twice are the symbolic choices
    sl = [{"name": nm, "n": len(nm), "disp": d} for nm in (["i"] if q else ["i", "", "Inst 1", "\u00df"]) for d in ((True,) if q else (True, False))]
    obls.append(Obl("collapse", MOD, "h_collapse", slices=sl, budget_s=1500, per_path_s=240,
                    desc="collapse_one leaves the instance file's map untouched; two collapses of the same file agree",
                    bound="instance name from a short list (slice parameter); fixup style, visgroup mode, once/twice symbolic"))
    obls.append(Obl("collapse.witness", MOD, "h_collapse_w", slices=[{"name": "i", "n": 1, "disp": False}], budget_s=600, per_path_s=240, witness=True))

    # --- operator purity (E2)
    obls.append(Obl("math_pure", MOD, "o_math_pure", engine="call", slices=[{}], budget_s=600, replay="replay_math_pure",
                    desc="Vec/FrozenVec/Angle/Matrix operators that return a new value leave every operand component unchanged (over the reals)"))
    return obls
