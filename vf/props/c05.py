"""C05 — Angle stays in [0,360) (E3: every write site as an SMT floating-point query), frozen values never change and
copies are independent (E2: real operators on symbolic reals), canonical text form (E1 + ModelFloat)."""
from __future__ import annotations

import ast
import json
import math
import os
import re
import time

from vf.core import Obl, REPO
from vf.h import Fail, assume, check

MOD = "vf.props.c05"

META = {
    "level": "other",
    "functions": ["srctools.math:Angle.__init__", "srctools.math:FrozenAngle.__new__", "srctools.math:Angle.__setitem__", "srctools.math:Angle.__imul__",
                  "srctools.math:MatrixBase._to_angle", "srctools.math:Angle.transform", "srctools.math:Angle.copy", "srctools.math:Angle.freeze",
                  "srctools.math:FrozenAngle.thaw", "srctools.math:format_float", "srctools.math:VecBase.__str__", "srctools.math:VecBase.join",
                  "srctools.math:AngleBase.__str__", "srctools.math:AngleBase.join", "srctools.math:MatrixBase.__matmul__",
                  "srctools.math:MatrixBase.__rmatmul__", "srctools.math:VecBase.__matmul__", "srctools.math:AngleBase.__matmul__",
                  "srctools.math:FrozenVec.__new__", "srctools.math:FrozenMatrix.__new__", "srctools.math:Vec.copy", "srctools.math:Matrix.copy"],
    "bounds": "range: every store to _pitch/_yaw/_roll found by ast in math.py, for ALL finite doubles feeding it (no history bound: induction over "
              "write sites); frozen/copies: all reals, one operation per obligation over the full operator table; text: every shape the '%.6f' "
              "formatter can emit with integer part from 5 representatives and fraction digits from {0,5} (64 patterns) x sign",
    "outside": "NaN/inf inputs and products that overflow to inf; IEEE rounding inside frozen/copy obligations (over the reals); float(str) and the "
               "5e-7 rounding of '%.6f' (C library: ModelFloat's contract); parse_vec_str on symbolic text; the Cython twins; pickle of symbolic values",
    "stubs": ["Python float % modelled by the C fmod contract + CPython's sign adjustment (exact when |x| < 360, over-approximating otherwise)",
              "degrees(atan2(y,x)) abstracted to any finite double in [-180, 180]", "ModelFloat.__format__ = sign + digits + '.' + 6 digits",
              "srctools.math.math/float shims of vf/symx.py for the frozen/copy obligations"],
    "trusted_base": ["z3 floating-point theory (QF_FP)", "z3 nlsat", "vf/symx.py", "crosshair-tool 0.0.110", "the ast scanner in this file"],
    "assumptions": ["an Angle field is only ever written through attribute stores on _pitch/_yaw/_roll in srctools/math.py (setattr/object.__setattr__ "
                    "stores make the obligation inconclusive)", "field copies preserve the invariant by induction"],
    "explanation": "Range: each assignment to an angle field is translated from the current source to a Float64 term and z3 is asked for a finite "
                   "input that leaves [0,360); unsat at every site means the invariant holds after any history. Frozen/copy: the real operators run "
                   "on symbolic reals and z3 proves each frozen operand's fields unchanged. Text: the real format_float/str code runs under CrossHair "
                   "on an object whose formatter output is solver-chosen.",
}


def setup(engine):
    pass


# ------------------------------------------------------------------------------------------------ (1) range, E3

FIELDS = ("_pitch", "_yaw", "_roll")


def _scan_sites():
    """Every store to an angle field in the current math.py: (lineno, enclosing qualname, field, rhs ast, source)."""
    path = os.path.join(REPO, "src", "srctools", "math.py")
    src = open(path).read()
    tree = ast.parse(src)
    sites = []
    suspicious = []

    def visit(node, qual):
        for child in ast.iter_child_nodes(node):
            q = qual
            if isinstance(child, (ast.FunctionDef, ast.ClassDef, ast.AsyncFunctionDef)):
                q = (qual + "." if qual else "") + child.name
            if isinstance(child, ast.Assign):
                for tgt in child.targets:
                    pairs = []
                    if isinstance(tgt, ast.Attribute) and tgt.attr in FIELDS:
                        pairs.append((tgt, child.value))
                    elif isinstance(tgt, (ast.Tuple, ast.List)):
                        vals = child.value.elts if isinstance(child.value, (ast.Tuple, ast.List)) and len(child.value.elts) == len(tgt.elts) else None
                        for i, t in enumerate(tgt.elts):
                            if isinstance(t, ast.Attribute) and t.attr in FIELDS:
                                pairs.append((t, vals[i] if vals else None))
                    for t, v in pairs:
                        sites.append({"line": child.lineno, "func": q, "field": t.attr, "rhs": v,
                                      "src": ast.get_source_segment(src, child) or ""})
            elif isinstance(child, (ast.AugAssign, ast.AnnAssign)):
                t = child.target
                if isinstance(t, ast.Attribute) and t.attr in FIELDS and not (isinstance(child, ast.AnnAssign) and child.value is None):
                    sites.append({"line": child.lineno, "func": q, "field": t.attr, "rhs": None, "src": ast.get_source_segment(src, child) or ""})
            elif isinstance(child, ast.Call):
                f = child.func
                name = f.attr if isinstance(f, ast.Attribute) else getattr(f, "id", "")
                if name in ("setattr", "__setattr__") and any(isinstance(a, ast.Constant) and a.value in FIELDS for a in child.args):
                    suspicious.append(child.lineno)
            visit(child, q)
    visit(tree, "")
    return sites, suspicious


def _is_mod360(node):
    return (isinstance(node, ast.BinOp) and isinstance(node.op, ast.Mod) and isinstance(node.right, ast.Constant)
            and node.right.value in (360, 360.0))


def _classify(rhs):
    """('double_mod'|'single_mod'|'copy'|'const'|'unknown', detail)"""
    if rhs is None:
        return "unknown", "no expression (augmented or unpacked store)"
    if isinstance(rhs, ast.Constant) and isinstance(rhs.value, (int, float)):
        return "const", float(rhs.value)
    if isinstance(rhs, ast.Attribute) and rhs.attr in FIELDS:
        return "copy", rhs.attr
    if _is_mod360(rhs):
        inner = rhs.left
        if _is_mod360(inner):
            return "double_mod", _inner_kind(inner.left)
        return "single_mod", _inner_kind(inner)
    return "unknown", ast.dump(rhs)[:120]


def _inner_kind(node):
    """'atan2deg' when the operand is math.degrees(math.atan2(..)) (range [-180,180]); else 'any' (arbitrary finite double)."""
    if isinstance(node, ast.Call) and getattr(node.func, "attr", "") == "degrees" and node.args:
        a = node.args[0]
        if isinstance(a, ast.Call) and getattr(a.func, "attr", "") == "atan2":
            return "atan2deg"
    return "any"


def _pymod(z3, s, x, y, tag):
    """CPython float % for a positive constant y, fmod abstracted by its C contract (DESIGN A.4)."""
    F = z3.Float64()
    zero = z3.FPVal(0.0, F)
    m = z3.FP(f"fmod_{tag}", F)
    ax = z3.fpAbs(x)
    s.add(z3.Not(z3.fpIsNaN(m)), z3.Not(z3.fpIsInf(m)))
    s.add(z3.fpLT(z3.fpAbs(m), y))
    s.add(z3.Or(z3.fpIsZero(m), z3.fpIsNegative(m) == z3.fpIsNegative(x)))
    s.add(z3.Implies(z3.fpLT(ax, y), z3.fpEQ(m, x)))
    adj = z3.If(z3.fpLT(m, zero), z3.fpAdd(z3.RNE(), m, y), m)
    return z3.If(z3.fpIsZero(m), zero, adj)


def o_range(_exclude=None):
    import z3
    from vf import symx
    t0 = time.perf_counter()
    skip = [re.compile(x) for x in (_exclude or [])]
    sites, suspicious = _scan_sites()
    F = z3.Float64()
    y = z3.FPVal(360.0, F)
    zero = z3.FPVal(0.0, F)
    items, fail, unknown = [], None, []
    if suspicious:
        unknown.append(f"setattr-style store to an angle field at lines {suspicious}")
    if len(sites) < 20:
        return {"verdict": "harness-error", "error": f"ast scan found only {len(sites)} stores to angle fields: scanner out of date"}
    n_q = 0
    for st in sites:
        kind, detail = _classify(st["rhs"])
        label = f"{st['func']}:{st['field']} [{kind}] `{st['src'][:70]}`"
        if any(rx.search(label) for rx in skip):
            items.append({"site": label, "line": st["line"], "r": "skipped (open known finding)"})
            continue
        if kind == "copy":
            items.append({"site": label, "line": st["line"], "r": "copy of an angle field (invariant by induction)"})
            continue
        if kind == "const":
            ok = 0.0 <= detail < 360.0
            items.append({"site": label, "line": st["line"], "r": "ok" if ok else "FAILED"})
            if not ok and fail is None:
                fail = {"site": label, "line": st["line"], "func": st["func"], "field": st["field"], "x": detail}
            continue
        if kind == "unknown":
            unknown.append(f"line {st['line']}: untranslatable store {detail}")
            items.append({"site": label, "line": st["line"], "r": "untranslatable"})
            continue
        s = symx.new_solver(60000)
        x = z3.FP("x", F)
        s.add(z3.Not(z3.fpIsNaN(x)), z3.Not(z3.fpIsInf(x)))
        if detail == "atan2deg":
            s.add(z3.fpLEQ(z3.FPVal(-180.0, F), x), z3.fpLEQ(x, z3.FPVal(180.0, F)))
        r1 = _pymod(z3, s, x, y, "a")
        res = r1 if kind == "single_mod" else _pymod(z3, s, r1, y, "b")
        # vacuity: the constraints alone are satisfiable
        if symx.check(s) != "sat":
            unknown.append(f"line {st['line']}: constraints not satisfiable")
            continue
        bad = z3.Not(z3.And(z3.fpLEQ(zero, res), z3.fpLT(res, y)))
        # counterexamples are sought in the exact region of the fmod abstraction first
        s.push()
        s.add(bad, z3.fpLT(z3.fpAbs(x), y))
        r = symx.check(s)
        n_q += 1
        if r == "sat":
            m = s.model()
            import struct as _st
            bits = m.eval(z3.fpToIEEEBV(x), model_completion=True).as_long()
            xv = _st.unpack("<d", _st.pack("<Q", bits))[0]
            items.append({"site": label, "line": st["line"], "r": "sat", "x": repr(xv)})
            if fail is None:
                fail = {"site": label, "line": st["line"], "func": st["func"], "field": st["field"], "x": xv}
            s.pop()
            continue
        s.pop()
        s.push()
        s.add(bad)
        r2 = symx.check(s)
        n_q += 1
        s.pop()
        if r == "unsat" and r2 == "unsat":
            items.append({"site": label, "line": st["line"], "r": "unsat"})
        else:
            unknown.append(f"line {st['line']}: {r}/{r2} (model only in the abstract region or solver unknown)")
            items.append({"site": label, "line": st["line"], "r": f"{r}/{r2}"})
    stt = symx.STATS
    verdict = "refuted" if fail else ("unknown" if unknown else "confirmed")
    cex = None
    if fail:
        cex = {"func": fail["func"], "field": fail["field"], "x": fail["x"], "line": fail["line"]}
    return {"verdict": verdict, "queries": stt["queries"], "solver_checks": stt["queries"], "solver_s": round(stt["seconds"], 3), "paths": len(sites),
            "cex": cex, "failure": fail, "unknown_reasons": {u: 1 for u in unknown[:6]}, "samples": [items[:4], {"sites": len(sites)}],
            "sites": items, "wall_s": round(time.perf_counter() - t0, 3)}


def _fpval(v):
    import z3
    if z3.is_fprm_value(v):
        return 0.0
    if v.isNaN():
        return float("nan")
    if v.isInf():
        return float("-inf") if v.isNegative() else float("inf")
    sign = -1.0 if v.isNegative() else 1.0
    if v.isZero():
        return sign * 0.0
    return float(v.as_string()) if "oo" not in v.as_string() and "NaN" not in v.as_string() else float(sign)


def _drivers(func, field):
    """Public-API routes that reach a write site: each maps a double d to an Angle-like object."""
    import srctools.math as sm
    A, FA, M = sm.Py_Angle, sm.Py_FrozenAngle, sm.Py_Matrix
    ax = FIELDS.index(field)
    name = ("pitch", "yaw", "roll")[ax]

    def tri(d):
        v = [0.0, 0.0, 0.0]
        v[ax] = d
        return v
    by_matrix = [lambda d: getattr(M, "from_" + name)(d).to_angle(),
                 lambda d: A() @ getattr(M, "from_" + name)(d),
                 lambda d: FA() @ getattr(M, "from_" + name)(d),
                 lambda d: _imatmul(A(), getattr(M, "from_" + name)(d)),
                 lambda d: _transform(A(), getattr(M, "from_" + name)(d))]
    general = [lambda d: A(*tri(d)), lambda d: FA(*tri(d)), lambda d: A(tri(d)), lambda d: FA(tri(d)),
               lambda d: _setattr(A(), name, d), lambda d: _setitem(A(), ax, d), lambda d: _setitem(A(), name, d),
               lambda d: A.with_axes(name, d), lambda d: FA.with_axes(name, d), lambda d: A.from_str(" ".join(repr(t) for t in tri(d))),
               lambda d: _imul(A(*tri(1.0)), d), lambda d: A(*tri(1.0)) * d, lambda d: d * FA(*tri(1.0)),
               lambda d: _imul(A(*tri(d)), 1.0)]
    return by_matrix + general if "_to_angle" in func else general + by_matrix


def _setattr(a, n, d):
    setattr(a, n, d)
    return a


def _setitem(a, k, d):
    a[k] = d
    return a


def _imul(a, d):
    a *= d
    return a


def _imatmul(a, m):
    a @= m
    return a


def _transform(a, m):
    with a.transform() as t:
        t @= m
    return a


def replay_range(func: str = "", field: str = "_yaw", x: float = 0.0, line: int = 0):
    """Native replay of a range model: push the double through every public route to the site and look at the angle."""
    tried = 0
    cands = [x, math.nextafter(x, 0.0), math.nextafter(x, -1e9), x / 2, x * 2]
    for drv in _drivers(func, field):
        for d in cands:
            try:
                a = drv(d)
            except Exception:  # noqa: a route that rejects the value is simply not a witness
                continue
            tried += 1
            for f in ("pitch", "yaw", "roll"):
                v = getattr(a, f)
                if not (0.0 <= v < 360.0):
                    raise Fail(f"angle field out of [0,360): {f} == {v!r} after feeding {d!r} through the public API (site {func}:{field}, line {line})")
    check(tried > 0, "no public route accepted the value")


# ------------------------------------------------------------------------------------------------ (2) frozen / copies, E2

def o_frozen(_exclude=None, _concrete=None):
    """No operation changes a frozen operand; copy/freeze/thaw results are equal to and independent of their source."""
    from vf.props import c04
    fx = c04._fx(_concrete)
    z3, sm, symx = fx.z3, fx.sm, fx.symx
    rec = c04.Rec(fx)
    skip = [re.compile(x) for x in (_exclude or [])]
    ta, tb = fx.angle("a"), fx.angle("b")
    vx, wx = fx.vec("v"), fx.vec("w")
    k = fx.vec("k")[0]
    rec.satisfiable(fx.cons, "frozen")
    V, FV, A, FA, M, FM = sm.Py_Vec, sm.Py_FrozenVec, sm.Py_Angle, sm.Py_FrozenAngle, sm.Py_Matrix, sm.Py_FrozenMatrix

    def snap(o):
        if isinstance(o, (V, FV)):
            return [o.x, o.y, o.z]
        if isinstance(o, (A, FA)):
            return [o._pitch, o._yaw, o._roll] if fx.concrete is None else [o.pitch, o.yaw, o.roll]
        return [x for row in c04._ents(o) for x in row]

    def same(label, before, after):
        if any(rx.search(label) for rx in skip):
            rec.items.append({"q": label, "r": "skipped (open known finding)"})
            return
        goals = []
        for b, a in zip(before, after):
            if b is a:
                continue
            if isinstance(b, symx.AngleTag) or isinstance(a, symx.AngleTag):
                rec.native(label + " (angle field replaced)", False, "a frozen angle field was rebound")
                return
            goals.append(c04.Eq(a, b))
        if goals:
            rec.prove(label, fx.cons, goals, conj=True)
        else:
            rec.items.append({"q": label, "r": "untouched"})

    def operands():
        fm, _ = fx.gen_matrix(FM, "m")
        return {"FrozenVec": FV(*vx), "FrozenAngle": fx.mk_angle(FA, ta), "FrozenMatrix": fm}

    def rots():
        return {"Angle": fx.mk_angle(A, tb), "FrozenAngle": fx.mk_angle(FA, tb), "Matrix": fx.gen_matrix(M, "n")[0], "FrozenMatrix": fx.gen_matrix(FM, "n")[0]}

    ops = []
    for rk in ("Angle", "FrozenAngle", "Matrix", "FrozenMatrix"):
        ops.append((f"x @ {rk}", lambda x, rk=rk: x @ rots()[rk]))
        ops.append((f"x @= {rk}", lambda x, rk=rk: _aug_matmul(x, rots()[rk])))
        ops.append((f"{rk} @ x (reflected)", lambda x, rk=rk: rots()[rk].__rmatmul__(x)))
    vec_ops = [("x + Vec", lambda x: x + V(*wx)), ("x - tuple", lambda x: x - (1.0, 2.0, 3.0)), ("x * k", lambda x: x * k), ("k * x", lambda x: k * x),
               ("x / 2", lambda x: x / 2.0), ("-x", lambda x: -x), ("+x", lambda x: +x), ("abs(x)", lambda x: abs(x)),
               ("x += Vec", lambda x: _aug(x, "+", V(*wx))), ("x -= 1", lambda x: _aug(x, "-", 1.0)), ("x *= k", lambda x: _aug(x, "*", k)),
               ("x /= 2", lambda x: _aug(x, "/", 2.0)), ("x.cross(Vec)", lambda x: x.cross(V(*wx))), ("x.dot(Vec)", lambda x: x.dot(V(*wx))),
               ("x.copy()", lambda x: x.copy()), ("x.thaw()", lambda x: x.thaw()), ("Vec(x)", lambda x: V(x)), ("FrozenVec(x)", lambda x: FV(x)),
               ("x.localise", lambda x: V(x).localise(V(*wx), fx.mk_angle(A, tb))), ("x.with_axes", lambda x: FV.with_axes("x", x)),
               ("x.len_sq()", lambda x: x.len_sq()), ("x.as_tuple()", lambda x: tuple(x))]
    ang_ops = [("x * k", lambda x: x * 2.0), ("x.copy()", lambda x: x.copy()), ("x.thaw()", lambda x: x.thaw()), ("Angle(x)", lambda x: A(x)),
               ("FrozenAngle(x)", lambda x: FA(x)), ("Matrix.from_angle(x)", lambda x: M.from_angle(x)), ("x.as_tuple()", lambda x: x.as_tuple())]
    mat_ops = [("x.copy()", lambda x: x.copy()), ("x.thaw()", lambda x: x.thaw()), ("Matrix(x)", lambda x: M(x)), ("FrozenMatrix(x)", lambda x: FM(x)),
               ("x.transpose()", lambda x: x.transpose()), ("x.forward()", lambda x: x.forward()), ("x.left()", lambda x: x.left()), ("x.up()", lambda x: x.up()),
               ("x.to_angle()", lambda x: x.to_angle())]
    table = {"FrozenVec": ops[:] + vec_ops, "FrozenAngle": [o for o in ops if "reflected" not in o[0]] + ang_ops,
             "FrozenMatrix": [o for o in ops if "reflected" not in o[0]] + mat_ops}
    n_ops = 0
    for kind, oplist in table.items():
        for name, op in oplist:
            if kind == "FrozenAngle" and name.startswith("x * k") and fx.concrete is None:
                continue   # Angle * k goes through float % 360 on a tag (no symbolic model of the modulo); covered concretely by replay/validation
            label = f"{kind}: {name}"

            def run():
                x = operands()[kind]
                before = snap(x)
                try:
                    res = op(x)
                except symx.Escaped as e:
                    return x, before, _Esc(str(e))
                except TypeError as e:
                    return x, before, None
                return x, before, res
            try:
                runs = c04._paths(fx, run)
            except symx.Escaped as e:
                rec.unknown.append(f"{label}: {e}")
                continue
            for pc, _side, (x, before, res), _unk in runs:
                n_ops += 1
                if isinstance(res, _Esc):
                    rec.unknown.append(f"{label}: {res.msg}")
                    continue
                same(label + " leaves the frozen operand unchanged", before, snap(x))
    # copies are equal to and independent of their source
    for cname, mk, mutate in (
        ("Vec.copy", lambda: V(*vx), lambda o: _aug(o, "+", V(*wx))),
        ("Matrix.copy", lambda: fx.gen_matrix(M, "m")[0], lambda o: _aug_matmul(o, fx.gen_matrix(M, "n")[0])),
    ):
        src = mk()
        before = snap(src)
        cp = src.copy()
        rec.native(f"{cname} returns a new object", cp is not src)
        same(f"{cname} equals its source", before, snap(cp))
        cp2 = mutate(cp)
        same(f"mutating a {cname} result leaves the source unchanged", before, snap(src))
        src2 = mk()
        cp = src2.copy()
        b2 = snap(cp)
        mutate(src2)
        same(f"mutating the source leaves its {cname} result unchanged", b2, snap(cp))
    for fname, mk in (("Vec.freeze/thaw", lambda: V(*vx)), ("Matrix.freeze/thaw", lambda: fx.gen_matrix(M, "m")[0])):
        src = mk()
        fr = src.freeze()
        b = snap(fr)
        th = fr.thaw()
        same(f"{fname}: frozen equals source", snap(src), b)
        if isinstance(src, V):
            _aug(src, "+", V(*wx))
            _aug(th, "*", k)
        else:
            _aug_matmul(src, fx.gen_matrix(M, "n")[0])
            _aug_matmul(th, fx.gen_matrix(M, "n")[0])
        same(f"{fname}: mutating source and thawed copy leaves the frozen value unchanged", b, snap(fr))
    res = rec.result()
    res["operations"] = n_ops
    return res


class _Esc:
    def __init__(self, msg):
        self.msg = msg


def _aug(x, op, y):
    if op == "+":
        x += y
    elif op == "-":
        x -= y
    elif op == "*":
        x *= y
    else:
        x /= y
    return x


def _aug_matmul(x, r):
    x @= r
    return x


def replay_frozen(**cex):
    r = o_frozen(_concrete={k: v for k, v in cex.items() if not k.startswith("_")})
    if r["verdict"] == "reproduced":
        raise Fail(r["detail"])


def o_frozen_validate():
    """Encoding validation: the frozen/copy obligation in concrete mode on test-style values must pass on real floats."""
    bad = None
    n = 0
    for i, ang in enumerate([(0.0, 0.0, 0.0), (45.0, 90.0, 135.0), (12.5, 333.0, 271.0), (90.0, 0.0, 0.0)]):
        model = {}
        for pre in ("a", "b"):
            for ax, v in zip("pyr", ang if pre == "a" else ang[::-1]):
                model[f"{pre}_s{ax}"] = math.sin(math.radians(v))
                model[f"{pre}_c{ax}"] = math.cos(math.radians(v))
        r = o_frozen(_concrete=model)
        n += r.get("checked", 0)
        if r["verdict"] == "reproduced" and bad is None:
            bad = r["detail"]
    return {"verdict": "confirmed" if bad is None else "refuted", "failure": {"detail": bad} if bad else None, "cex": {} if bad else None,
            "paths": n, "queries": 0, "samples": [{"concrete checks": n}]}


# ------------------------------------------------------------------------------------------------ (3) canonical text, E1

IPARTS = ["0", "7", "10", "120", "1000000"]
CANON = re.compile(r"-?(0|[1-9][0-9]*)(\.[0-9]{1,6})?\Z")


_DELTAS = {}


class ModelFloat(float):
    """A float whose '.Nf' formatting is solver-chosen: sign + integer digits + '.' + N digits — the range of the C
    formatter over finite floats ('-0.000000' included: -1e-9 formats to it). The true value is the printed decimal plus
    a solver-chosen rounding residue `delta` with |delta| < 5e-7 (what '%.6f' may have rounded away); comparisons see the
    true value, formatting sees the text."""

    def __new__(cls, text, delta=0.0):
        self = float.__new__(cls, float(text))
        self.text = text
        self.base = float(text)
        # kept in a side table: CrossHair's f-string interception deep-realises the formatted object's attributes
        _DELTAS[id(self)] = delta
        return self

    def _true(self):
        return self.base + _DELTAS[id(self)] * 1e-9

    def __add__(self, o):
        return self          # x + 0.0 keeps the value (and CPython keeps the sign of a negative non-zero x)

    __radd__ = __add__

    def __lt__(self, o):
        return self._true() < o

    def __le__(self, o):
        return self._true() <= o

    def __gt__(self, o):
        return self._true() > o

    def __ge__(self, o):
        return self._true() >= o

    def __eq__(self, o):
        return self._true() == o

    def __ne__(self, o):
        return self._true() != o

    __hash__ = float.__hash__

    def __format__(self, spec):
        m = re.fullmatch(r"\.(\d+)f", spec)
        if not m:
            return float.__format__(self, spec)
        places = int(m.group(1))
        ip, _, fr = self.text.partition(".")
        return ip + "." + (fr + "0" * places)[:places] if places else ip


def _mk_text(neg, ipi, bits, last_one=False):
    from vf.props.c08 import pick
    ip = pick(IPARTS, ipi)
    frac = ""
    for b in bits:
        frac += "5" if b else "0"
    if last_one:
        frac = frac[:-1] + "1"       # a last digit of 1: the smallest printed step
    return ("-" if neg else "") + ip + "." + frac


def _residue(delta, text):
    """|delta| < 5e-7, and the residue cannot flip the sign of the printed number's true value past zero the wrong way."""
    assume(-490 < delta < 490)        # residue in units of 1e-9 (an int keeps the unused case fork-free)
    return delta


def _check_canonical(out, text, what, true_value=None):
    from decimal import Decimal
    if true_value is not None:
        check(abs(float(out) - true_value) <= 5e-7 + 1e-12, f"{what}: does not parse back within 5e-7 of the value", out, text)
    check(CANON.match(out) is not None, f"{what}: not a plain canonical decimal", out)
    check(out != "-0", f"{what}: produced '-0'", text)
    if "." in out:
        check(not out.endswith("0"), f"{what}: trailing zero", out)
    check(Decimal(out) == Decimal(text), f"{what}: denotes a different number than the formatter output", out, text)


def h_format_float(neg: bool, ipi: int, b0: bool, b1: bool, b2: bool, b3: bool, b4: bool, b5: bool, last_one: bool, delta: int) -> None:
    import srctools.math as sm
    text = _mk_text(neg, ipi, (b0, b1, b2, b3, b4, b5), last_one)
    delta = _residue(delta, text)
    mf = ModelFloat(text, delta)
    out = sm.format_float(mf)
    _check_canonical(out, text, "format_float")


def h_format_float_w(neg: bool, ipi: int, b0: bool, b1: bool, b2: bool, b3: bool, b4: bool, b5: bool, last_one: bool, delta: int) -> None:
    h_format_float(neg, ipi, b0, b1, b2, b3, b4, b5, last_one, delta)
    raise Fail("reached")


def h_str(neg: bool, ipi: int, b0: bool, b1: bool, b2: bool, b3: bool, b4: bool, b5: bool, last_one: bool, delta: int, cls: str, form: str) -> None:
    """str()/join()/format of Vec and Angle classes use the canonical component text."""
    import srctools.math as sm
    text = _mk_text(neg, ipi, (b0, b1, b2, b3, b4, b5), last_one)
    delta = _residue(delta, text)
    mf = ModelFloat(text, delta)
    c = getattr(sm, "Py_" + cls)
    obj = c.__new__(c)
    if "Vec" in cls:
        obj._x, obj._y, obj._z = mf, 1.0, 2.5
    else:
        obj._pitch, obj._yaw, obj._roll = mf, 1.0, 2.5
    if form == "str":
        s = str(obj)
        parts = s.split(" ")
    elif form == "join":
        s = obj.join(", ")
        parts = s.split(", ")
    else:
        s = obj.__format__("")      # (the format() builtin is intercepted by CrossHair and deep-realises the object)
        parts = s.split(" ")
    check(len(parts) == 3, "three components", s)
    _check_canonical(parts[0], text, f"{cls} {form}")
    check(parts[1] == "1" and parts[2] == "2.5", "other components", s)


def obligations(tier):
    strs = [{"cls": c, "form": f} for c in ("Vec", "FrozenVec", "Angle", "FrozenAngle") for f in (("str", "join") if tier == "quick" else ("str", "join", "format"))]
    return [
        Obl("range", MOD, "o_range", engine="call", budget_s=600, replay="replay_range",
            desc="every store to an Angle field keeps 0 <= x < 360 for all finite doubles (induction over write sites found by ast)",
            bound="all finite doubles; unbounded histories"),
        Obl("frozen", MOD, "o_frozen", engine="call", budget_s=900, replay="replay_frozen",
            desc="no operator/method changes a FrozenVec/FrozenAngle/FrozenMatrix operand; copy/freeze/thaw are equal and independent",
            bound="all reals; one operation per query, full operator table"),
        Obl("frozen.validation", MOD, "o_frozen_validate", engine="call", budget_s=300, desc="the same obligation in concrete mode on real floats"),
        Obl("format_float", MOD, "h_format_float", budget_s=600, per_path_s=60, desc="format_float on every formatter shape: canonical, never '-0', same value",
            bound="5 integer parts x 64 fraction patterns (+ last digit 1) x sign x a symbolic rounding residue |delta| < 5e-7"),
        Obl("format_float.witness", MOD, "h_format_float_w", budget_s=120, witness=True),
        Obl("str_join", MOD, "h_str", slices=strs, budget_s=900, per_path_s=60, desc="str()/join()/format() of Vec/Angle classes use the canonical text"),
    ]
