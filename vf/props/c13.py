"""C13 — a writable VPK returns exactly what was last written, across reopen (E1, CrossHair + in-memory file system).

Obligations
  hist        histories of add_file / FileInfo.write / del / new_file over 2 sessions (each with its own open mode and
              dir_data_limit) on a directory VPK; after every session the archive is reopened read-only and compared with a
              dict oracle: listing, bytes, verify(), three key forms, an independent decoder of the bytes on "disk",
              read-only rejection.  Operation codes, file choice, payload sizes and archive indexes are solver variables.
  single      the same on a single-file VPK.
  big         payload sizes around the 16-bit preload field (65535/65536/65537) x preload limit x layout.
  names       _get_file_parts on symbolic folder/name/ext: str, 2-tuple and 3-tuple forms agree, result is canonical.
  listed      the listed name of a file (FileInfo.filename) resolves to the same parts again.
  codec       write_dirfile -> load_dirfile keeps every FileInfo field for symbolic crc/offset/arch_len/arch_index.
Payload bytes are concrete (zlib.crc32 is C code): PATS[slot][:n] with the length n symbolic.
"""
from __future__ import annotations

import struct
import zlib

from vf.core import Obl
from vf.h import Fail, assume, check

MOD = "vf.props.c13"

META = {
    "level": "model_checking",
    "functions": ["srctools.vpk:VPK.__init__", "srctools.vpk:VPK.load_dirfile", "srctools.vpk:VPK.write_dirfile", "srctools.vpk:VPK.add_file",
                  "srctools.vpk:VPK.new_file", "srctools.vpk:VPK.__delitem__", "srctools.vpk:VPK.__getitem__", "srctools.vpk:VPK.__contains__",
                  "srctools.vpk:VPK.filenames", "srctools.vpk:VPK.verify_all", "srctools.vpk:VPK.__exit__", "srctools.vpk:FileInfo.write",
                  "srctools.vpk:FileInfo.read", "srctools.vpk:FileInfo.verify", "srctools.vpk:_get_file_parts", "srctools.vpk:_join_file_parts",
                  "srctools.vpk:iter_nullstr", "srctools.vpk:_write_nullstring", "srctools.vpk:get_arch_filename"],
    "bounds": "histories: 2 sessions (modes w/a then a/w, explicit write_dirfile or with-block), 3 (quick) / 3-4 (thorough) well-formed operations from "
              "{add_file, FileInfo.write, del, new_file} (+ ill-formed 2/3-operation histories) over 2 file names (thorough: one slice family with 3, incl. an "
              "empty name part), payload length {0,2} (quick) / 0..2, one family 0..3 (thorough) bytes, archive index in {0, None} (quick) / {0, 1, None}, "
              "dir_data_limit pairs (1,0) (0,1) (None,1) (quick) / {0,1,None,1024}^2 + (2,1) (thorough); sizes 65535..65537 x limits {0, 1024, 65535, 65536, None} x {directory, "
              "single file}; names: folder over {a b . /} len <= 3, name over {a b .} len <= 3, ext over {a b} len <= 2 (exact length per slice); "
              "codec: all 32/16-bit field values, preload length 0..2",
    "outside": "payloads of hundreds of KiB as symbols (three fixed sizes around 64 KiB only); CRC collisions (the `new_checksum == self.crc` early "
               "return); file names containing a space-only part (' ' is the on-disk spelling of an empty part), non-ASCII names, name parts containing "
               "'/', extensions containing '.'; version-2 directory files; add_folder/extract_all/script_write (real directory walking); "
               "concurrent writers; OS-level I/O errors",
    "stubs": ["srctools.vpk.open -> vf.stubs.vpkmodel.MemFS.open (in-memory files, POSIX semantics of rb/wb/ab/r+b, validated against real files on every run)",
              "srctools.vpk.os -> vf.stubs.vpkmodel.OsProxy (pure-Python posixpath split/join/splitext/normpath, validated against os.path on all strings "
              "over {a . /} up to length 5)",
              "srctools.vpk.struct / struct_read -> vf.stubs.vpkmodel.StructProxy (Struct objects delegate to module-level struct.pack/unpack)",
              "srctools.vpk.iter_nullstr -> the module's own pure-Python _Py_iter_nullstr (no Cython here anyway)"],
    "trusted_base": ["crosshair-tool 0.0.110", "z3", "vf/chx.py", "vf/stubs/vpkmodel.py", "vf/stubs/pathmodel.py (normpath reference)", "zlib.crc32 (real)"],
    "assumptions": ["the file system behaves like POSIX regular files (append handles write at the end, no short writes, no errors)",
                    "payload sizes, operation codes, archive indexes and file choice are small integers that CrossHair realises where they reach "
                    "C code (crc32, dict keys): on those the solver enumerates and proves exhaustion (enumeration in solver clothing); the genuinely "
                    "symbolic parts are the name strings (names/listed) and the directory-entry fields (codec)"],
    "explanation": "",
    "validation_runs": 760,
}

# ---------------------------------------------------------------- fixtures

DIR_PATH = "pak/pak01_dir.vpk"
SOLO_PATH = "pak/solo.vpk"
# (folder, name, ext): nested folder; root folder with the same extension; empty name part; empty extension
FILES = [("mat/dev", "alpha", "vmt"), ("", "beta", "vmt"), ("mat/dev", "", "cfg"), ("mat", "gamma", "")]
ARCH = [0, 1, None]
ARCH2 = [0, None]
_BIG = 65600


def _pat(slot: int, size: int) -> bytes:
    return bytes((slot * 37 + i * 7 + 1) % 251 for i in range(size))


PATS = [_pat(k, 8) for k in range(8)]
BIGPATS = None


def _forms(parts):
    folder, name, ext = parts
    s = f"{folder}{'/' if folder else ''}{name}{'.' if ext else ''}{ext}"
    two = (folder, name + "." + ext) if ext else (folder, name)
    return [s, two, (folder, name, ext)]


def pick(lst, idx):
    for k in range(len(lst)):
        if idx == k:
            return lst[k]
    assume(False)


_FS = None


def setup(engine):
    from vf.stubs import vpkmodel, pathmodel
    vpkmodel.selftest()
    import srctools.vpk as V
    V.iter_nullstr = V._Py_iter_nullstr
    if engine == "chx":
        vpkmodel.symstr_rstrip_fix()
    if engine in ("chx", "replay", "call"):
        V.struct = vpkmodel.StructProxy
        V.struct_read = vpkmodel.struct_read


def _install():
    """Fresh in-memory file system behind srctools.vpk's `open` and `os`."""
    import srctools.vpk as V
    from vf.stubs import vpkmodel
    fs = vpkmodel.MemFS()
    V.open = fs.open
    V.os = vpkmodel.OsProxy(fs)
    return fs


# ---------------------------------------------------------------- oracle side

def _zstr(buf, pos):
    j = buf.find(b"\x00", pos)
    check(j >= 0, "decoder: unterminated string")
    s = buf[pos:j].decode("ascii")
    return ("" if s == " " else s), s == "", j + 1


def _decode(fs, path):
    """Independent decoder of a version-1 directory file, written from the format description:
    header <III (signature, version, tree length); tree = ext{ folder{ name <IHHIIH preload }* 0 }* 0 }* 0; then the data section.
    Returns {listed name: (bytes, crc)}."""
    from vf.stubs.pathmodel import normpath
    buf = fs.files[normpath(path)]
    check(len(buf) >= 13, "decoder: directory file shorter than an empty archive", len(buf))
    sig, ver, tree_len = struct.unpack("<III", buf[:12])
    check(sig == 0x55AA1234, "decoder: bad signature", sig)
    check(ver == 1, "decoder: bad version", ver)
    end = 12 + tree_len
    check(end <= len(buf), "decoder: tree length beyond the file", tree_len, len(buf))
    footer = buf[end:]
    folder_of_file = path.rsplit("/", 1)[0]
    base = path.rsplit("/", 1)[1]
    prefix = base[:-8] if base.endswith("_dir.vpk") else None
    pos = 12
    out = {}
    while True:
        ext, stop, pos = _zstr(buf, pos)
        if stop:
            break
        while True:
            folder, stop, pos = _zstr(buf, pos)
            if stop:
                break
            while True:
                name, stop, pos = _zstr(buf, pos)
                if stop:
                    break
                crc, pre, ai, off, alen, term = struct.unpack("<IHHIIH", buf[pos:pos + 18])
                pos += 18
                check(term == 0xFFFF, "decoder: bad entry terminator", term)
                data = buf[pos:pos + pre]
                check(len(data) == pre, "decoder: preload data truncated")
                pos += pre
                if alen:
                    if ai == 0x7FFF:
                        tail = footer[off:off + alen]
                    else:
                        check(prefix is not None, "decoder: numbered archive referenced from a single-file VPK", ai)
                        key = normpath(f"{folder_of_file}/{prefix}_{ai:03}.vpk")
                        check(key in fs.files, "decoder: entry points into a missing archive file", key)
                        tail = fs.files[key][off:off + alen]
                    check(len(tail) == alen, "decoder: entry points beyond the end of its archive", ai, off, alen)
                    data = data + tail
                full = f"{folder}{'/' if folder else ''}{name}{'.' if ext else ''}{ext}"
                check(full not in out, "decoder: the same file listed twice", full)
                out[full] = (data, crc)
    check(pos == end, "decoder: tree length field does not match the tree", pos, end)
    return out


def _verify(fs, path, exp, where):
    """Reopen read-only and compare with the oracle `exp` ({parts: bytes})."""
    import srctools.vpk as V
    want = {_forms(p)[0]: d for p, d in exp.items()}
    # (a) the bytes on disk, decoded independently
    dec = _decode(fs, path)
    check(sorted(dec) == sorted(want), f"{where}: directory tree lists the wrong files", sorted(dec), sorted(want))
    for nm, (data, crc) in dec.items():
        check(data == want[nm], f"{where}: bytes stored for {nm!r} differ from what was written", data, want[nm])
        check(crc == zlib.crc32(want[nm]), f"{where}: stored checksum of {nm!r} wrong")
    # (b) the library's own view after reopening
    snap = dict(fs.files)
    vpk = V.VPK(path, mode="r")
    check(sorted(vpk.filenames()) == sorted(want), f"{where}: filenames() after reopen", sorted(vpk.filenames()), sorted(want))
    check(len(vpk) == len(want), f"{where}: len() after reopen", len(vpk))
    for parts, data in exp.items():
        s, two, three = _forms(parts)
        info = vpk[s]
        check(vpk[two] is info and vpk[three] is info, f"{where}: key forms resolve to different entries", s)
        check(s in vpk and two in vpk and three in vpk, f"{where}: `in` disagrees between key forms", s)
        check(info.filename == s, f"{where}: FileInfo.filename", info.filename, s)
        got = info.read()
        check(got == data, f"{where}: {s!r} reads back different bytes", got, data)
        check(info.size == len(data), f"{where}: {s!r} size", info.size, len(data))
        check(info.verify(), f"{where}: {s!r} fails verify()")
    check(vpk.verify_all(), f"{where}: verify_all()")
    for parts in FILES:
        if parts not in exp:
            for form in _forms(parts):
                check(form not in vpk, f"{where}: deleted/never added file is listed", form)
    # (c) a read-only archive rejects every mutation and touches nothing
    probe = FILES[0] if FILES[0] in exp else None
    muts = [lambda: vpk.add_file("ro/new.txt", b"x"), lambda: vpk.new_file("ro/new.txt"), lambda: vpk.write_dirfile()]
    if probe is not None:
        muts += [lambda: vpk.__delitem__(_forms(probe)[0]), lambda: vpk[_forms(probe)[0]].write(b"changed", 0)]
    for k, m in enumerate(muts):
        try:
            m()
        except ValueError:
            pass
        else:
            raise Fail(f"{where}: mutator #{k} accepted by a read-only VPK")
    with vpk:
        pass
    check(fs.files == snap, f"{where}: read-only VPK modified the file system")
    check(sorted(vpk.filenames()) == sorted(want), f"{where}: read-only VPK changed by a rejected mutation")


def _apply(vpk, exp, code, parts, data, arch, form, valid):
    """One operation on the VPK and on the oracle. Invalid operations must raise the documented error and change nothing."""
    key = _forms(parts)[form]
    present = parts in exp
    if code == 0 or code == 3:       # add_file / new_file
        if valid:
            assume(not present)
        try:
            if code == 0:
                vpk.add_file(key, data, arch_index=arch)
            else:
                vpk.new_file(key)
        except FileExistsError:
            check(present, "FileExistsError for a file that does not exist", key)
            return
        check(not present, "adding an existing file did not raise FileExistsError", key)
        exp[parts] = data if code == 0 else b""
    elif code == 1:                   # overwrite through FileInfo.write
        if valid:
            assume(present)
        try:
            info = vpk[key]
        except KeyError:
            check(not present, "KeyError for an existing file", key)
            return
        check(present, "lookup of a missing file succeeded", key)
        info.write(data, arch)
        exp[parts] = data
    else:                             # delete
        if valid:
            assume(present)
        try:
            del vpk[key]
        except KeyError:
            check(not present, "KeyError deleting an existing file", key)
            return
        check(present, "deleting a missing file did not raise", key)
        del exp[parts]


# ---------------------------------------------------------------- hist / single

def _history(ops, k1, k2, l1, l2, m1, m2, path, nmax, nfiles, valid, narch=3, nstep=1):
    import srctools.vpk as V
    total = k1 + k2
    dec = []
    for k, (o, f, n, x) in enumerate(ops):
        if k >= total:
            check(o == 0 and f == 0 and n == 0 and x == 0, "slice must pin unused operation slots")
            continue
        code = pick([0, 1, 2, 3], o)
        parts = pick(FILES[:nfiles], f)
        if code <= 1:
            assume(0 <= n <= nmax)
            if nstep > 1:
                assume(n % nstep == 0)
            arch = pick(ARCH if narch == 3 else ARCH2, x)
        else:
            assume(n == 0 and x == 0)
            arch = 0
        dec.append((code, parts, n, arch))
    if valid:
        # only well-formed histories (add a missing file, write/delete an existing one): decided here, before any archive work
        present = set()
        for k, (code, parts, n, arch) in enumerate(dec):
            if k == k1 and m2 == "w":
                present = set()
            if code == 0 or code == 3:
                assume(parts not in present)
                present.add(parts)
            else:
                assume(parts in present)
                if code == 2:
                    present.discard(parts)
    fs = _install()
    exp = {}
    # session 1: explicit write_dirfile()
    vpk = V.VPK(path, mode=m1, dir_data_limit=l1)
    for k in range(k1):
        code, parts, n, arch = dec[k]
        _apply(vpk, exp, code, parts, PATS[k][:n], arch, k % 3, valid)
    vpk.write_dirfile()
    _verify(fs, path, exp, "after session 1")
    # session 2: context manager saves on exit
    if m2 == "w":
        exp = {}
    with V.VPK(path, mode=m2, dir_data_limit=l2) as vpk:
        check(sorted(vpk.filenames()) == sorted(_forms(p)[0] for p in exp), "session 2 sees a different listing")
        for k in range(k1, total):
            code, parts, n, arch = dec[k]
            _apply(vpk, exp, code, parts, PATS[k][:n], arch, (k + 1) % 3, valid)
    _verify(fs, path, exp, "after session 2")
    return exp


def h_hist(o0: int, f0: int, n0: int, x0: int, o1: int, f1: int, n1: int, x1: int, o2: int, f2: int, n2: int, x2: int,
           o3: int, f3: int, n3: int, x3: int, k1: int, k2: int, l1, l2, m1: str = "w", m2: str = "a", nmax: int = 2,
           nfiles: int = 2, valid: int = 1, path: str = DIR_PATH, narch: int = 3, nstep: int = 1) -> None:
    _history([(o0, f0, n0, x0), (o1, f1, n1, x1), (o2, f2, n2, x2), (o3, f3, n3, x3)], k1, k2, l1, l2, m1, m2, path, nmax, nfiles, valid, narch, nstep)


def h_hist_w(o0: int, f0: int, n0: int, x0: int, o1: int, f1: int, n1: int, x1: int, o2: int, f2: int, n2: int, x2: int,
             o3: int, f3: int, n3: int, x3: int, k1: int, k2: int, l1, l2, m1: str = "w", m2: str = "a", nmax: int = 2,
             nfiles: int = 2, valid: int = 1, path: str = DIR_PATH, narch: int = 3, nstep: int = 1) -> None:
    exp = _history([(o0, f0, n0, x0), (o1, f1, n1, x1), (o2, f2, n2, x2), (o3, f3, n3, x3)], k1, k2, l1, l2, m1, m2, path, nmax, nfiles, valid, narch, nstep)
    # reachability: two files alive at the end, one of them with data beyond the preload limit in a numbered archive / the data section
    if len(exp) == 2 and any(len(d) == nmax for d in exp.values()):
        raise Fail("reached")


# ---------------------------------------------------------------- big

def _bigpat(slot, n):
    global BIGPATS
    if BIGPATS is None:
        BIGPATS = [_pat(k, _BIG) for k in range(2)]
    return BIGPATS[slot][:n]


def h_big(ni: int, li: int, xi: int, path: str = DIR_PATH) -> None:
    """One small and one large file (size around the 16-bit preload length field), then overwrite the small one."""
    import srctools.vpk as V
    n = pick([65535, 65536, 65537], ni)
    lim = pick([0, 1024, 65535, 65536, None], li)
    arch = pick(ARCH, xi)
    fs = _install()
    exp = {}
    with V.VPK(path, mode="w", dir_data_limit=lim) as vpk:
        _apply(vpk, exp, 0, FILES[1], PATS[0][:3], 0, 0, 1)
        _apply(vpk, exp, 0, FILES[0], _bigpat(0, n), arch, 2, 1)
    _verify(fs, path, exp, "big: after session 1")
    with V.VPK(path, mode="a", dir_data_limit=lim) as vpk:
        _apply(vpk, exp, 1, FILES[1], _bigpat(1, n), arch, 1, 1)
    _verify(fs, path, exp, "big: after session 2")


def h_big_w(ni: int, li: int, xi: int, path: str = DIR_PATH) -> None:
    h_big(ni, li, xi, path)
    raise Fail("reached")


# ---------------------------------------------------------------- names

def _alpha(s, alpha):
    for c in s:
        assume(c in alpha)


def _names_args(folder, name, ext, nf, nn, ne):
    assume(len(folder) == nf and len(name) == nn and len(ext) == ne)
    _alpha(folder, "ab./")
    _alpha(name, "ab.")
    _alpha(ext, "ab")


def h_names(folder: str, name: str, ext: str, nf: int, nn: int, ne: int) -> None:
    """The three spellings of one file resolve to the same (folder, name, ext) key, and the key is canonical."""
    import srctools.vpk as V
    _install()
    _names_args(folder, name, ext, nf, nn, ne)
    s, two, three = _forms((folder, name, ext))
    p3 = V._get_file_parts(three)
    p2 = V._get_file_parts(two)
    p1 = V._get_file_parts(s)
    check(p2 == p3, "2-tuple and 3-tuple forms resolve differently", two, p2, p3)
    check(p1 == p3, "str and 3-tuple forms resolve differently", s, p1, p3)
    path = p3[0]
    check(path != "." and not path.endswith("/") and "\\" not in path, "folder key not canonical", path)
    if name != "" and "." not in name:
        check(p3[1] == name and p3[2] == ext, "name/extension changed", p3)
    if name == "":
        check(p3[1] == "" and p3[2] == ext, "empty name part not kept", p3)


def h_names_w(folder: str, name: str, ext: str, nf: int, nn: int, ne: int) -> None:
    h_names(folder, name, ext, nf, nn, ne)
    if name == "" or "." in name:
        raise Fail("reached")


def h_listed(folder: str, name: str, ext: str, nf: int, nn: int, ne: int) -> None:
    """A file stored under the key of (folder, name, ext) is listed as FileInfo.filename; that listed name must lead back to the same key."""
    import srctools.vpk as V
    _install()
    _names_args(folder, name, ext, nf, nn, ne)
    key = V._get_file_parts((folder, name, ext))
    listed = V._join_file_parts(*key)
    check(V._get_file_parts(listed) == key, "listed name does not resolve to its own entry", key, listed, V._get_file_parts(listed))


# ---------------------------------------------------------------- codec

def h_codec(crc: int, off: int, alen: int, ai: int, crc2: int, pre: int, none_idx: bool) -> None:
    """write_dirfile -> load_dirfile keeps every field of every entry (two entries, the first with symbolic fields)."""
    import srctools.vpk as V
    assume(0 <= crc < 2 ** 32 and 0 <= off < 2 ** 32 and 0 <= alen < 2 ** 32 and 0 <= ai < 0x7FFF and 0 <= crc2 < 2 ** 32)
    fs = _install()
    vpk = V.VPK(DIR_PATH, mode="w")
    a = vpk.new_file(_forms(FILES[0])[0])
    b = vpk.new_file(_forms(FILES[1])[0])
    a.crc, a.offset, a.arch_len, a.arch_index, a.start_data = crc, off, alen, (None if none_idx else ai), PATS[0][:pre]
    b.crc, b.start_data = crc2, PATS[1][:2]
    vpk.footer_data = b"FOOTER"
    vpk.write_dirfile()
    back = V.VPK(DIR_PATH, mode="r")
    check(len(back) == 2, "entry count", len(back))
    a2 = back[FILES[0]]
    b2 = back[FILES[1]]
    check(a2.crc == crc, "crc", a2.crc, crc)
    check(a2.arch_len == alen, "arch_len", a2.arch_len, alen)
    check(a2.arch_index == (None if none_idx else ai), "arch_index", a2.arch_index, ai)
    check(a2.offset == (off if alen else 0), "offset", a2.offset, off)
    check(a2.start_data == PATS[0][:pre], "preload data", a2.start_data)
    check(b2.crc == crc2 and b2.start_data == PATS[1][:2] and b2.arch_len == 0 and b2.arch_index is None, "second entry damaged")
    check(back.footer_data == b"FOOTER", "data section", back.footer_data)


def h_codec_w(crc: int, off: int, alen: int, ai: int, crc2: int, pre: int, none_idx: bool) -> None:
    h_codec(crc, off, alen, ai, crc2, pre, none_idx)
    if crc > 70000 and alen > 0 and off > 70000 and not none_idx:
        raise Fail("reached")


def h_codec_names(which: int, fill: int, L: int) -> None:
    """Directory tree strings of any length survive write_dirfile -> load_dirfile: one component (folder / name / extension,
    solver-chosen) is L characters long (L concrete per slice, around the powers of two where block-wise readers have their
    boundaries), next to short neighbours; listing, lookup and the fields of every entry are unchanged after reopening."""
    import srctools.vpk as V
    assume(0 <= which <= 2 and 0 <= fill <= 2)
    ch = "a" if fill == 0 else ("q" if fill == 1 else "0")
    long = ch * (L - 1) + "z"
    parts = [("mat", "x", "vmt"), ("", "y", "vmt")]
    target = ["mat/dev", "alpha", "cfg"]
    for k in range(3):          # explicit fork: a store through a symbolic index is modelled imprecisely
        if which == k:
            target[k] = long
    fs = _install()
    vpk = V.VPK(DIR_PATH, mode="w")
    infos = []
    for k, pr in enumerate([parts[0], tuple(target), parts[1]]):
        f = vpk.new_file(pr)
        f.crc, f.start_data = 1000 + k, PATS[k][:k + 1]
        infos.append((pr, f.filename))
    vpk.footer_data = b"FOOT"
    vpk.write_dirfile()
    back = V.VPK(DIR_PATH, mode="r")
    check(len(back) == 3, "entry count after reopening", len(back), L)
    check(sorted(f.filename for f in back) == sorted(n for _p, n in infos), "listing after reopening", sorted(f.filename for f in back))
    for k, (pr, fname) in enumerate(infos):
        check(pr in back and fname in back, "stored name not found after reopening", pr, L)
        g = back[pr]
        check(g.crc == 1000 + k and g.start_data == PATS[k][:k + 1] and g.filename == fname, "entry fields after reopening", pr, g.crc)
    check(back.footer_data == b"FOOT", "data section", back.footer_data)


def h_codec_names_w(which: int, fill: int, L: int) -> None:
    h_codec_names(which, fill, L)
    if which == 1 and fill == 2:
        raise Fail("reached")


# ---------------------------------------------------------------- obligations

def _pin(sl):
    """Unused operation slots are pinned to 0 and the sliced operation codes c0/c1 become concrete o0/o1."""
    out = []
    for d in sl:
        d = dict(d)
        for k in range(d["k1"] + d["k2"], 4):
            d.update({f"o{k}": 0, f"f{k}": 0, f"n{k}": 0, f"x{k}": 0})
        for k in (0, 1):
            if f"c{k}" in d:
                d[f"o{k}"] = d.pop(f"c{k}")
        for k in (0, 1):
            if d.get(f"o{k}") in (2, 3):      # delete / new_file carry no payload
                d.update({f"n{k}": 0, f"x{k}": 0})
        out.append(d)
    return out


def _hist_slices(tier):
    sl = []
    if tier == "quick":
        # 3 operations (2 + reopen + 1); first operation on file 0 (the two names are interchangeable for the placement logic)
        # payload sizes {0, 2} against limits 0 / 1 / None (below, inside, above the limit)
        for l1, l2 in ((1, 0), (0, 1), (None, 1)):
            for c0 in (0, 3):
                for c1 in (0, 1, 2, 3):
                    sl.append({"k1": 2, "k2": 1, "l1": l1, "l2": l2, "c0": c0, "c1": c1, "f0": 0, "narch": 2, "nstep": 2})
        # invalid operations (documented errors, nothing changes) on two-operation histories
        for c0 in (0, 1, 2, 3):
            sl.append({"k1": 1, "k2": 1, "l1": 1, "l2": 1, "valid": 0, "c0": c0})
        # second session opened in 'w' mode forgets everything; first session in 'a' mode on a missing file
        sl.append({"k1": 1, "k2": 1, "l1": 1, "l2": 0, "m2": "w"})
        sl.append({"k1": 1, "k2": 1, "l1": 0, "l2": 1, "m1": "a"})
    else:
        lims = [0, 1, None]
        for l1 in lims + [1024]:
            for l2 in lims + [1024]:
                full = (l1, l2) in ((1, 0), (0, 1), (1, 1))
                for c0 in (0, 3):
                    for c1 in (0, 1, 2, 3):
                        d = {"k1": 2, "k2": 1, "l1": l1, "l2": l2, "c0": c0, "c1": c1, "narch": 3 if full else 2}
                        if full and c0 == 0 and c1 in (0, 1):
                            sl += [dict(d, f0=f) for f in (0, 1)]
                        elif full:
                            sl.append(d)
                        else:
                            sl.append(dict(d, f0=0))
        # 4 operations, payload sizes {0, 2}
        for l1, l2 in ((1, 0), (1, 1)):
            for c0 in (0, 3):
                for c1 in (0, 1, 2, 3):
                    sl.append({"k1": 2, "k2": 2, "l1": l1, "l2": l2, "c0": c0, "c1": c1, "f0": 0, "narch": 2, "nstep": 2})
                    sl.append({"k1": 3, "k2": 1, "l1": l1, "l2": l2, "c0": c0, "c1": c1, "f0": 0, "narch": 2, "nstep": 2})
        # three file names, payload length up to 3 against limit 2
        for c0 in (0, 3):
            for c1 in (0, 1, 2, 3):
                sl.append({"k1": 2, "k2": 1, "l1": 2, "l2": 1, "c0": c0, "c1": c1, "f0": 2, "nfiles": 3, "nmax": 3, "narch": 2})
        for c0 in (0, 1, 2, 3):
            for c1 in (0, 1, 2, 3):
                sl.append({"k1": 2, "k2": 1, "l1": 1, "l2": 1, "valid": 0, "c0": c0, "c1": c1, "narch": 2, "nstep": 2})
        for l1, l2 in ((1, 0), (0, 1), (1, 1)):
            sl.append({"k1": 2, "k2": 1, "l1": l1, "l2": l2, "m2": "w", "narch": 2})
            sl.append({"k1": 2, "k2": 1, "l1": l1, "l2": l2, "m1": "a", "narch": 2})
    return _pin(sl)


def _name_slices(tier):
    nf, nn, ne = (2, 2, 1) if tier == "quick" else (3, 3, 2)
    return [{"nf": a, "nn": b, "ne": c} for a in range(nf + 1) for b in range(nn + 1) for c in range(ne + 1)]


def obligations(tier):
    q = tier == "quick"
    solo = [{"k1": 2, "k2": 1, "l1": l, "l2": l2, "path": SOLO_PATH, "c0": c0, "f0": 0, "narch": 2, "nstep": 2} for (l, l2) in ((1, 0),) for c0 in (0, 3)]
    if not q:
        solo = [{"k1": 2, "k2": 1, "l1": l, "l2": l2, "path": SOLO_PATH, "c0": c0, "c1": c1, "f0": 0, "narch": 2} for (l, l2) in ((1, 0), (None, 1))
                for c0 in (0, 3) for c1 in (0, 1, 2, 3)]
    obls = [
        Obl("hist", MOD, "h_hist", slices=_hist_slices(tier), budget_s=600 if q else 3000, per_path_s=60,
            desc="two-session histories on a directory VPK: listing, bytes, checksums, key forms, independent decoder, read-only rejection after every save",
            bound="<= 3/4 operations, payload length <= 2/3, limits per session"),
        Obl("hist.witness", MOD, "h_hist_w", slices=_pin([{"k1": 2, "k2": 1, "l1": 1, "l2": 0, "c0": 0, "c1": 0, "f0": 0, "narch": 2}]), budget_s=300, per_path_s=60, witness=True),
        Obl("single", MOD, "h_hist", slices=_pin(solo), budget_s=600 if q else 3000, per_path_s=60,
            desc="the same histories on a single-file VPK (no numbered archives may appear)", bound="as hist"),
        Obl("big", MOD, "h_big", slices=[{"path": p} for p in (DIR_PATH, SOLO_PATH)], budget_s=900, per_path_s=120,
            desc="payloads of 65535/65536/65537 bytes x preload limit {0,1024,65535,65536,None} x archive index x layout",
            bound="three fixed sizes (enumeration)"),
        Obl("big.witness", MOD, "h_big_w", slices=[{"path": DIR_PATH}], budget_s=300, per_path_s=120, witness=True),
        Obl("names", MOD, "h_names", slices=_name_slices(tier), budget_s=600 if q else 2400, per_path_s=60,
            desc="str / 2-tuple / 3-tuple spellings resolve to the same canonical key", bound="exact lengths per slice"),
        Obl("names.witness", MOD, "h_names_w", slices=[{"nf": 1, "nn": 1, "ne": 1}, {"nf": 1, "nn": 0, "ne": 1}], budget_s=120, per_path_s=60, witness=True),
        Obl("listed", MOD, "h_listed", slices=_name_slices(tier), budget_s=600 if q else 2400, per_path_s=60,
            desc="FileInfo.filename of a stored file resolves to the same key again", bound="exact lengths per slice"),
        Obl("codec.names", MOD, "h_codec_names", slices=[{"L": n} for n in ((1, 2, 63, 64, 65, 128, 256) if q else (1, 2, 3, 31, 32, 33, 63, 64, 65, 127, 128, 129, 255, 256, 257))],
            budget_s=600, per_path_s=120, desc="a folder / name / extension of L characters survives write_dirfile -> load_dirfile (tree strings of any length)",
            bound="L concrete per slice (around powers of two); which component and the fill character are solver-chosen"),
        Obl("codec.names.witness", MOD, "h_codec_names_w", slices=[{"L": 64}], budget_s=300, per_path_s=120, witness=True),
        Obl("codec", MOD, "h_codec", slices=[{"pre": p} for p in (0, 1, 2)], budget_s=600, per_path_s=60,
            desc="directory entry encode/decode keeps crc, offset, archive length/index and preload bytes for all field values",
            bound="all 32-bit crc/offset/length, all archive indexes < 0x7fff or None"),
        Obl("codec.witness", MOD, "h_codec_w", slices=[{"pre": 1}], budget_s=120, per_path_s=60, witness=True),
    ]
    return obls
