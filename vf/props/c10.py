"""C10 -- saving an unmodified BSP is lossless whichever lumps were looked at (E1, CrossHair on a synthesised BSP).

Two harness families, both driving the REAL `BSP.read` / `ParsedLump.__get__` / `BSP.save` / lump readers+writers:
* h_plain : no view touched.  Symbolic: the bytes of map revision, one lump's version field, one raw lump payload,
            one game lump's flags+version and payload; concrete per slice: BSP version/layout (19, 20, 21, L4D2 order,
            22 INFRA, 25 Chaos, 43 Vitamin, unknown), where the lumps sit in the file, which concrete lumps are LZMA
            compressed.  read -> (agrees with the file) -> save -> read -> everything equal and every lump byte-identical
            -> save again (same object and re-read object) -> byte-identical files.
* h_views : an ordered subset of views (symbolic indexes into a cluster: enumeration in solver clothing) is looked at,
            with symbolic FACEIDS bytes (hammer id); save; original and saved file are then re-read and
            compared: header, versions, flags, raw bytes of every lump that no view covers, parsed content of every view;
            saving the same object again gives a byte-identical file; a full-parse save/read cycle keeps the content.
"""
from __future__ import annotations

import struct

from vf.core import Obl
from vf.h import Fail, assume, check

MOD = "vf.props.c10"

META = {
    "level": "model_checking",
    "functions": ["srctools.bsp:BSP.read", "srctools.bsp:BSP.save", "srctools.bsp:ParsedLump.__get__",
                  "srctools.binformat:DeferredWrites.write", "srctools.binformat:DeferredWrites.set_data",
                  "srctools.binformat:compress_lzma", "srctools.binformat:decompress_lzma",
                  "srctools.bsp:BSP._read_faces_common", "srctools.bsp:BSP._write_faces_common",
                  "srctools.bsp:BSP._lmp_write_hdr_faces", "srctools.bsp:BSP._lmp_write_water_leaf_info",
                  "srctools.bsp:BSP._lmp_write_surfedges", "srctools.bsp:BSP._lmp_write_primitives",
                  "srctools.bsp:BSP._lmp_write_texinfo", "srctools.bsp:BSP._lmp_write_nodes",
                  "srctools.bsp:BSP._lmp_write_visleafs", "srctools.bsp:BSP._lmp_write_bmodels",
                  "srctools.bsp:BSP._lmp_write_brushes"],
    "bounds": "one synthesised 64-lump BSP (one quad face present in ORIGINALFACES/FACES/FACES_HDR with FACEIDS, plane, 5 "
              "vertexes, 5 edges, 4 surfedges, texinfo/texdata/texture name, one primitive, one brush+side, one node, two "
              "leafs, one water-leaf record, one cubemap, one brush model, two entities, empty static/detail prop game "
              "lumps, one opaque game lump).  h_plain: symbolic bytes of map revision (4), one lump version (4), one raw "
              "payload (exact length 0..3 per slice, thorough ..6), game-lump flags+version (4, compression bit clear) and "
              "game-lump payload (0..2); header kind x lump x file layout x compressed-set are concrete slices.  h_views: "
              "ordered subsets of <= 2 (quick) / <= 3 (thorough) views inside each of 5 interaction clusters, symbolic "
              "FACEIDS (2 bytes) and symbolic flags+version of the detail-prop game lump (4 bytes, compression bit clear).",
    "outside": "cross-cluster subsets and subsets larger than 3; maps with more than one face/brush/leaf; the 825 KB sample "
               "BSP (native trace only); LZMA payloads as symbols (lzma is C: compressed lumps carry concrete payloads); the "
               "pakfile view (zipfile is C-backed: PAKFILE is covered as a raw lump only); per-lump reader/writer "
               "inversion on symbolic records (that is C11); AtomicWriter (C12); symbolic lump offsets/lengths (the layouts "
               "are concrete slices); a v21 file whose ENTITIES lump version is non-zero (the reader's L4D2 detection "
               "heuristic keys on it); the version field of lump 35 GAME_LUMP (save() documents it as always 0)",
    "stubs": ["srctools.bsp.open / AtomicWriter -> vf.stubs.bspio.ModelFS of PieceFiles (pieces kept apart; self-tested "
              "against io.BytesIO)", "srctools.bsp.struct, binformat.Struct, binformat._cached_struct, GameLump.ST -> "
              "vf.stubs.bspio.CellStruct (real struct untraced on concrete values, integer arithmetic on symbolic byte "
              "cells; self-tested against struct.Struct)", "srctools.bsp.print -> no-op"],
    "trusted_base": ["crosshair-tool 0.0.110", "z3", "vf/chx.py", "vf/stubs/bspio.py", "vf/stubs/binio.py", "lzma (real)"],
    "assumptions": ["the synthesised file is laid out the way VBSP writes one (vertex 0 is the origin, edge 0 is the dummy "
                    "edge, one FACEIDS entry per face, HDR and LDR face lists of equal length)",
                    "parsed content is compared by value over attrs fields after parsing every view of both files in the "
                    "same fixed order"],
    "explanation": "",
}

# ----------------------------------------------------------------------------------------------- the synthesised file
FACE_FMT = '<H??i4h4sif5iHHI'
HEADER_SIZE = 8 + 16 * 64 + 4
L = {"ENTITIES": 0, "PLANES": 1, "TEXDATA": 2, "VERTEXES": 3, "VISIBILITY": 4, "NODES": 5, "TEXINFO": 6, "FACES": 7,
     "LIGHTING": 8, "LEAFS": 10, "FACEIDS": 11, "EDGES": 12, "SURFEDGES": 13, "MODELS": 14, "LEAFFACES": 16,
     "LEAFBRUSHES": 17, "BRUSHES": 18, "BRUSHSIDES": 19, "ORIGINALFACES": 27, "PHYSCOLLIDE": 29, "GAME_LUMP": 35,
     "LEAFWATERDATA": 36, "PRIMITIVES": 37, "PRIMVERTS": 38, "PRIMINDICES": 39, "PAKFILE": 40, "CUBEMAPS": 42,
     "TEXDATA_STRING_DATA": 43, "TEXDATA_STRING_TABLE": 44, "LEAFMINDISTTOWATER": 46, "LIGHTING_HDR": 53,
     "FACES_HDR": 58, "MAP_FLAGS": 59}
ALL_VIEWS = ["ents", "textures", "texinfo", "cubemaps", "overlays", "bmodels", "brushes", "visleafs", "water_leaf_info",
             "nodes", "visibility", "vertexes", "surfedges", "planes", "faces", "orig_faces", "hdr_faces", "primitives",
             "props", "detail_props"]
CLUSTERS = {
    "faces": ["faces", "hdr_faces", "orig_faces", "primitives"],
    "geom": ["surfedges", "vertexes", "planes", "hdr_faces"],
    "tex": ["texinfo", "textures", "water_leaf_info", "brushes"],
    "tree": ["nodes", "visleafs", "bmodels", "ents"],
    "misc": ["props", "detail_props", "cubemaps", "overlays", "visibility"],
}
KINDS = {"19": (b"VBSP", 19, False), "20": (b"VBSP", 20, False), "21": (b"VBSP", 21, False), "l4d2": (b"VBSP", 21, True),
         "22": (b"VBSP", 22, False), "unknown": (b"VBSP", 24, False)}


def _face(orig, prim_num, prim_first):
    return struct.pack(FACE_FMT, 0, True, False, 0, 4, 0, -1, -1, b'\x00\xff\xff\xff', 0, 16384.0, 0, 0, 8, 8, orig,
                       prim_num, prim_first, 0)


def _base_lumps(kind: str) -> dict:
    """Concrete lump payloads of the quad map (standard layout; v19 leafs carry the 24 ambient bytes)."""
    d = {}
    d[L["ENTITIES"]] = (b'{\n"classname" "worldspawn"\n"mapversion" "7"\n}\n{\n"classname" "info_player_start"\n'
                        b'"origin" "0 0 72"\n}\n\x00')
    d[L["PLANES"]] = struct.pack('<ffffi', 0.0, 0.0, 1.0, 64.0, 2)
    d[L["VERTEXES"]] = b''.join(struct.pack('<fff', *v) for v in [(0, 0, 0), (0, 0, 64), (128, 0, 64), (128, 128, 64), (0, 128, 64)])
    d[L["EDGES"]] = b''.join(struct.pack('<HH', *e) for e in [(0, 0), (1, 2), (2, 3), (3, 4), (4, 1)])
    d[L["SURFEDGES"]] = struct.pack('<4i', 1, 2, 3, 4)
    d[L["TEXDATA_STRING_DATA"]] = b'BRICK/BRICKFLOOR001A\0'
    d[L["TEXDATA_STRING_TABLE"]] = struct.pack('<i', 0)
    d[L["TEXDATA"]] = struct.pack('<3f5i', 0.25, 0.5, 0.125, 0, 512, 512, 512, 512)
    d[L["TEXINFO"]] = struct.pack('<16fii', 4.0, 0.0, 0.0, 0.0, 0.0, -4.0, 0.0, 0.0, 0.0625, 0.0, 0.0, 0.5, 0.0, -0.0625,
                                  0.0, 0.5, 0, 0)
    d[L["ORIGINALFACES"]] = _face(-1, 0x8000, 0)
    d[L["FACES"]] = _face(0, 0x8001, 0)
    d[L["FACES_HDR"]] = _face(0, 0x8001, 0)
    d[L["FACEIDS"]] = struct.pack('<H', 1234)
    d[L["PRIMITIVES"]] = struct.pack('<IIIHH' if kind == "22" else '<HHHHH', 0, 0, 3, 0, 1)
    d[L["PRIMINDICES"]] = struct.pack('<3H', 1, 2, 3)
    d[L["PRIMVERTS"]] = struct.pack('<fff', 64.0, 64.0, 64.0)
    d[L["LIGHTING"]] = bytes(range(16))
    d[L["BRUSHES"]] = struct.pack('<iii', 0, 1, 1)
    d[L["BRUSHSIDES"]] = struct.pack('<HhhH', 0, 0, -1, 0)
    d[L["NODES"]] = struct.pack('<iii6hHHh2x', 0, -1, -2, -8, -8, 0, 136, 136, 72, 0, 1, 0)
    leaf_fmt = '<ihh6h4Hh24s2x' if kind == "19" else '<ihh6h4Hh2x'
    amb = (bytes(range(1, 25)),) if kind == "19" else ()
    d[L["LEAFS"]] = (struct.pack(leaf_fmt, 1, -1, 0, -8, -8, 0, 136, 136, 64, 0, 0, 0, 0, -1, *amb) +
                     struct.pack(leaf_fmt, 0, 0, (1 << 9) | 2, -8, -8, 64, 136, 136, 72, 0, 1, 0, 1, 0, *amb))
    d[L["LEAFFACES"]] = struct.pack('<H', 0)
    d[L["LEAFBRUSHES"]] = struct.pack('<H', 0)
    d[L["LEAFMINDISTTOWATER"]] = struct.pack('<HH', 65535, 3)
    d[L["LEAFWATERDATA"]] = struct.pack('<ffH2x', 64.0, 0.0, 0)
    d[L["MODELS"]] = struct.pack('<9fiii', -8.0, -8.0, 0.0, 136.0, 136.0, 72.0, 0.0, 0.0, 0.0, 0, 0, 1)
    d[L["PHYSCOLLIDE"]] = struct.pack('<iiii', -1, 0, 0, 0)
    d[L["CUBEMAPS"]] = struct.pack('<iiii', 16, 32, 48, 6)
    d[L["MAP_FLAGS"]] = struct.pack('<I', 1)
    return d


LUMP_VERSIONS = {L["LEAFS"]: 1, L["FACES"]: 1, L["FACES_HDR"]: 1, L["ORIGINALFACES"]: 1}
_BASE = {}


def _base(kind):
    if kind not in _BASE:
        _BASE[kind] = _base_lumps(kind)
    return _BASE[kind]


def _synth(kind, over=None, lver=None, rev=None, games=None, layout="index", comp=()):
    """-> (pieces, spec).  `over`: {lump index: payload (may be symbolic)}, `lver`: {lump index: 4 version cells},
    `rev`: 4 cells, `games`: [(id, flag cells(2), version cells(2), payload, compressed)], comp: lump indexes stored
    LZMA-compressed (concrete payloads only)."""
    from vf.stubs import bspio
    from srctools.binformat import compress_lzma
    magic, ver, l4d2 = KINDS[kind]
    data = dict(_base(kind))
    data.update(over or {})
    lver = lver or {}
    games = games if games is not None else []
    order = list(range(64))
    if layout == "reverse":
        order.reverse()
    pos = HEADER_SIZE
    body = []
    entries = {}
    stored = {}
    with bspio.nt():
        for i in comp:
            stored[i] = compress_lzma(data[i])
    for i in order:
        if i == L["GAME_LUMP"]:
            start = pos
            dummy = 1 if (games and games[-1][4]) else 0
            gl_pieces = [struct.pack('<i', len(games) + dummy)]
            pos += 4 + 16 * (len(games) + dummy)
            blobs = []
            for gi, (gid, fl, gv, pay, gcomp) in enumerate(games):
                n = bspio.clen(pay)
                if gcomp:
                    with bspio.nt():
                        blob = compress_lzma(pay)
                else:
                    blob = pay
                cells = list(gid[::-1]) + list(fl) + list(gv) + list(struct.pack('<ii', pos, n))
                gl_pieces.append(bspio.mk(cells))
                blobs.append(blob)
                pos += bspio.clen(blob)
                if gi != len(games) - 1:
                    blobs.append(b'\0')
                    pos += 1
            if dummy:
                gl_pieces.append(struct.pack('<4sHHii', b'\0\0\0\0', 0, 0, pos, 0))
            body += gl_pieces + [b for b in blobs if bspio.clen(b)]
            entries[i] = (start, pos - start, None, 0)
            continue
        payload = stored.get(i, data.get(i, b''))
        n = bspio.clen(payload)
        if layout == "gap" and n:
            pad = (-pos) % 4 + 4
            body.append(bytes(pad))
            pos += pad
        entries[i] = (pos if n or layout != "zero_off" else 0, n, lver.get(i), bspio.clen(data[i]) if i in stored else 0)
        if n:
            body.append(payload)
            pos += n
    pieces = [struct.pack('<4si', magic, ver)]
    for i in range(64):
        off, n, vcells, fourcc = entries[i]
        if vcells is None:
            vcells = list(struct.pack('<i', LUMP_VERSIONS.get(i, 0) if i != L["GAME_LUMP"] else 0))
        a, b, c = list(struct.pack('<i', off)), list(struct.pack('<i', n)), list(vcells)
        cells = (c + a + b if l4d2 else a + b + c) + list(struct.pack('<i', fourcc))
        pieces.append(bspio.mk(cells))
    pieces.append(bspio.mk(list(rev)) if rev is not None else struct.pack('<i', 7))
    return pieces + body


# --------------------------------------------------------------------------------------------------- environment
_FS = None
_MODE = None


def setup(engine):
    global _MODE
    _MODE = engine
    import srctools.bsp as bsp
    bsp.print = lambda *a, **k: None
    if engine == "chx":
        from vf.stubs import bspio
        bspio.selftest()
        bspio.enable_symbolic()
        import srctools.binformat as bf
        bsp.struct = bspio.StructProxy
        bf.Struct = bspio.CellStruct
        bf._cached_struct = bspio.cs
        bsp.GameLump.ST = bspio.CellStruct('<4s HH ii')
        for name in dir(bsp):               # the per-version layout tables hold real struct.Struct objects
            if name.startswith("LUMP_LAYOUT_"):
                tab = getattr(bsp, name)
                for key, val in list(tab.items()):
                    if isinstance(val, struct.Struct):
                        tab[key] = bspio.CellStruct(val.format)
        _native_selfcheck()


def _native_selfcheck():
    """The synthesised file must be readable and every view parsable natively (else the harness is wrong)."""
    import io
    import os
    import tempfile
    import srctools.bsp as bsp
    for kind in KINDS:
        with tempfile.TemporaryDirectory() as tmp:
            p = os.path.join(tmp, "a.bsp")
            with open(p, "wb") as f:
                for piece in _synth(kind, games=_games(b"\0\0", b"\4\0", b"xy", True)):
                    f.write(piece)
            real_open, real_aw, real_st = bsp.__dict__.get("open"), bsp.AtomicWriter, bsp.struct
            try:
                bsp.__dict__.pop("open", None)
                bsp.struct = struct
                b = bsp.BSP(p)
                for v in ALL_VIEWS:
                    getattr(b, v)
                fresh = bsp.BSP(p)      # order-independent facts only: a defect of the code must not look like a harness error
                if [f.hammer_id for f in fresh.hdr_faces] != [1234] or len(b.visleafs) != 2 or len(b.water_leaf_info) != 1:
                    raise SystemExit(2)
            except Exception as e:  # noqa
                print("c10 selfcheck: synthesised BSP unreadable:", kind, type(e).__name__, e)
                raise SystemExit(2)
            finally:
                if real_open is not None:
                    bsp.open = real_open
                bsp.struct = real_st


def _games(fl, gv, pay, with_comp, dprp_hdr=(0, 0, 4, 0)):
    g = [(b"sprp", b"\0\0", b"\6\0", struct.pack('<iii', 0, 0, 0), False),
         (b"dprp", list(dprp_hdr[:2]), list(dprp_hdr[2:]), struct.pack('<iii', 0, 0, 0), False),
         (b"xyzw", fl, gv, pay, False)]
    if with_comp:
        g.append((b"cmpr", b"\3\0", b"\2\0", b"compressed game lump payload " * 3, True))
    return g


class _Env:
    """Model FS under CrossHair, a real temporary directory natively (replays use the real open/AtomicWriter)."""

    def __init__(self):
        import srctools.bsp as bsp
        self.bsp = bsp
        if _MODE == "chx":
            from vf.stubs import bspio
            self.fs = bspio.ModelFS()
            bsp.open = self.fs.open
            bsp.AtomicWriter = self.fs.atomic_writer()
            self.tmp = None
        else:
            import tempfile
            self.fs = None
            self.tmp = tempfile.TemporaryDirectory()

    def path(self, name):
        import os
        return name if self.fs is not None else os.path.join(self.tmp.name, name)

    def put(self, name, pieces):
        if self.fs is not None:
            from vf.stubs import bspio
            self.fs.files[name] = bspio.PieceFile(pieces)
        else:
            with open(self.path(name), "wb") as f:
                for p in pieces:
                    f.write(bytes(p))

    def pieces(self, name):
        if self.fs is not None:
            return [d for _o, _n, d in self.fs.files[name].p]
        with open(self.path(name), "rb") as f:
            return [f.read()]

    def close(self):
        if self.tmp is not None:
            self.tmp.cleanup()


def _cut(b, n):
    """A symbolic bytes argument as n byte cells (exact length; rule (iv))."""
    assume(len(b) == n)
    return [b[i] for i in range(n)]


def _same_file(env, a, b, what):
    pa, pb = env.pieces(a), env.pieces(b)
    check(len(pa) == len(pb), what + ": different piece structure", len(pa), len(pb))
    for i in range(len(pa)):
        check(len(pa[i]) == len(pb[i]), what + ": piece length differs", i)
        check(pa[i] == pb[i], what + ": bytes differ in piece", i)


def _header_equal(b0, b1, what, skip_data=False):
    check(b0.version == b1.version and type(b0.version) is type(b1.version), what + ": version", b0.version, b1.version)
    check(b0.game_ver is b1.game_ver, what + ": game_ver", b0.game_ver, b1.game_ver)
    check(b0.map_revision == b1.map_revision, what + ": map_revision", b0.map_revision, b1.map_revision)
    check(list(b0.lumps) == list(b1.lumps), what + ": lump set")
    for k in b0.lumps:
        l0, l1 = b0.lumps[k], b1.lumps[k]
        if k.value != L["GAME_LUMP"]:
            check(l0.version == l1.version, what + ": lump version", k.name, l0.version, l1.version)
        check(l0.is_compressed == l1.is_compressed, what + ": lump compression flag", k.name)
    check(list(b0.game_lumps) == list(b1.game_lumps), what + ": game lump ids", list(b0.game_lumps), list(b1.game_lumps))
    for k in b0.game_lumps:
        g0, g1 = b0.game_lumps[k], b1.game_lumps[k]
        check(g0.id == g1.id, what + ": game lump id", k)
        check(g0.flags == g1.flags, what + ": game lump flags", k, g0.flags, g1.flags)
        check(g0.version == g1.version, what + ": game lump version", k, g0.version, g1.version)


def _raw_equal(b0, b1, what, only=None):
    for k in b0.lumps:
        if only is not None and k not in only:
            continue
        d0, d1 = b0.lumps[k].data, b1.lumps[k].data
        check(len(d0) == len(d1), what + ": lump length", k.name, len(d0), len(d1))
        check(d0 == d1, what + ": lump bytes", k.name)
    for k in b0.game_lumps:
        if only is not None and k not in only:
            continue
        d0, d1 = b0.game_lumps[k].data, b1.game_lumps[k].data
        check(len(d0) == len(d1), what + ": game lump length", k, len(d0), len(d1))
        check(d0 == d1, what + ": game lump bytes", k)


# ------------------------------------------------------------------------------------------------------- h_plain
def _plain(rev, lv, pay, gfl, gpay, kind, li, n, gn, layout, comp):
    from vf.stubs import bspio  # noqa: F401  (pure helpers; mk() gives real bytes natively)
    revc, lvc, payc, gflc, gpayc = _cut(rev, 4), _cut(lv, 4), _cut(pay, n), _cut(gfl, 4), _cut(gpay, gn)
    assume(gflc[0] % 2 == 0)                       # compression bit of the symbolic game lump clear (LZMA stays concrete)
    if kind in ("21", "l4d2"):
        assume(li != 0)                            # ENTITIES' version field is what the L4D2 detection reads
    payload, gpayload = bspio.mk(payc), bspio.mk(gpayc)
    comp_lumps = {"": (), "lump": (L["LIGHTING"],), "game": (), "both": (L["LIGHTING"], L["VERTEXES"])}[comp]
    games = _games(gflc[:2], gflc[2:], gpayload, comp in ("game", "both"))
    env = _Env()
    try:
        bsp = env.bsp
        env.put("in.bsp", _synth(kind, over={li: payload}, lver={li: lvc}, rev=revc, games=games, layout=layout, comp=comp_lumps))
        b0 = bsp.BSP(env.path("in.bsp"))
        # the first read reports what the file says
        want_rev = revc[0] + revc[1] * 256 + revc[2] * 65536 + revc[3] * 16777216
        if revc[3] >= 128:
            want_rev -= 1 << 32
        check(b0.map_revision == want_rev, "read: map_revision", b0.map_revision)
        want_lv = lvc[0] + lvc[1] * 256 + lvc[2] * 65536 + lvc[3] * 16777216
        if lvc[3] >= 128:
            want_lv -= 1 << 32
        check(b0.lumps[bsp.BSP_LUMPS(li)].version == want_lv, "read: lump version", b0.lumps[bsp.BSP_LUMPS(li)].version)
        check(b0.version == KINDS[kind][1], "read: version", b0.version)
        check((b0.game_ver is bsp.GameVersion.L4D2) == KINDS[kind][2], "read: L4D2 detection", b0.game_ver)
        base = _base(kind)
        for k, lump in b0.lumps.items():
            want = payload if k.value == li else (b'' if k.value == L["GAME_LUMP"] else base.get(k.value, b''))
            check(len(lump.data) == len(want) and lump.data == want, "read: lump data", k.name)
            check(lump.is_compressed == (k.value in comp_lumps), "read: compression flag", k.name)
        check(list(b0.game_lumps) == [g[0] for g in games], "read: game lumps", list(b0.game_lumps))
        for gid, fl, gv, gp, gc in games:
            g = b0.game_lumps[gid]
            check(g.flags == fl[0] + 256 * fl[1] and g.version == gv[0] + 256 * gv[1], "read: game lump header", gid)
            check(len(g.data) == len(gp) and g.data == gp, "read: game lump data", gid)
        # save / read
        b0.save(env.path("out1.bsp"))
        b1 = bsp.BSP(env.path("out1.bsp"))
        _header_equal(b0, b1, "save/read")
        _raw_equal(b0, b1, "save/read")
        check(not b0._parsed_lumps and not b1._parsed_lumps, "a view was parsed although none was accessed")
        # saving again changes nothing (same object, and the object read back)
        b0.save(env.path("out2.bsp"))
        _same_file(env, "out1.bsp", "out2.bsp", "second save of the same object")
        b1.save(env.path("out3.bsp"))
        _same_file(env, "out1.bsp", "out3.bsp", "save of the re-read file")
    finally:
        env.close()


def h_plain(rev: bytes, lv: bytes, pay: bytes, gfl: bytes, gpay: bytes, kind: str, li: int, n: int, gn: int,
            layout: str = "index", comp: str = "") -> None:
    _plain(rev, lv, pay, gfl, gpay, kind, li, n, gn, layout, comp)


def h_plain_w(rev: bytes, lv: bytes, pay: bytes, gfl: bytes, gpay: bytes, kind: str, li: int, n: int, gn: int,
              layout: str = "index", comp: str = "") -> None:
    _plain(rev, lv, pay, gfl, gpay, kind, li, n, gn, layout, comp)
    if rev[3] >= 128 and lv[0] != 0 and gfl[1] != 0 and (n == 0 or pay[0] != 0):
        raise Fail("reached")


# ------------------------------------------------------------------------------------------------------- h_views
def _norm(o, depth=0):
    """Parsed content by value (attrs fields, lists, vectors, entities); identity and sharing are not compared."""
    import enum
    import attrs
    from srctools.math import VecBase, AngleBase
    import srctools.bsp as bsp
    from srctools.vmf import VMF, Entity
    check(depth < 40, "norm: too deep")
    if o is None or isinstance(o, (bool, int, float, str, bytes)):
        return o
    if isinstance(o, enum.Enum):
        return ("enum", type(o).__name__, o.value)
    if isinstance(o, (VecBase, AngleBase)):
        return ("vec", float(o[0]), float(o[1]), float(o[2]))
    if isinstance(o, bsp.Edge):
        return ("edge", type(o).__name__, _norm(o.a), _norm(o.b))
    if isinstance(o, (list, tuple)):
        return [_norm(x, depth + 1) for x in o]
    if isinstance(o, VMF):
        return [_norm(e, depth + 1) for e in [o.spawn] + list(o.entities)]
    if isinstance(o, Entity):
        return ("ent", sorted((k, v) for k, v in o.items()),
                [(x.output, x.target, x.input, x.params, x.delay, x.times) for x in o.outputs])
    if hasattr(o, "items"):        # WeakKeyDictionary of brush models, Keyvalues never reach here
        return [("kv", _norm(k, depth + 1), _norm(v, depth + 1)) for k, v in o.items()]
    if attrs.has(type(o)):
        return [type(o).__name__] + [(a.name, _norm(o.__getattribute__(a.name), depth + 1)) for a in attrs.fields(type(o))]
    if hasattr(o, "serialise"):    # Keyvalues (physics block of a brush model)
        return ("kvtext", o.serialise())
    raise TypeError(f"norm: unexpected {type(o).__name__}")


def _diff(a, b, path):
    """First difference between two normal forms, or None."""
    if isinstance(a, (list, tuple)) and isinstance(b, (list, tuple)):
        if len(a) != len(b):
            return f"{path}: length {len(a)} != {len(b)}"
        for i in range(len(a)):
            d = _diff(a[i], b[i], f"{path}/{a[i][0] if isinstance(a[i], tuple) and len(a[i]) == 2 and isinstance(a[i][0], str) else i}")
            if d:
                return d
        return None
    if type(a) is float and a != a and type(b) is float and b != b:
        return None
    if (a is None) != (b is None):
        return f"{path}: {a!r} != {b!r}"
    if a != b:
        return f"{path}: {a!r} != {b!r}"
    return None


def _viewless(bsp):
    """Lumps no structured view covers: everything outside the descriptors' clear lists and outside the lumps the
    face/leaf writers regenerate (FACEIDS) or that are rebuilt by save() itself (GAME_LUMP)."""
    covered = {bsp.BSP_LUMPS.FACEIDS, bsp.BSP_LUMPS.GAME_LUMP}
    covered_g = set()
    for v in vars(bsp.BSP).values():
        if isinstance(v, bsp.ParsedLump):
            for x in v.to_clear:
                (covered if isinstance(x, bsp.BSP_LUMPS) else covered_g).add(x)
    return covered, covered_g


def _touch(b, v):
    """`b.<v>` -- spelled as the descriptor call because CrossHair's getattr() patch runs the callee untraced."""
    cls = type(b)
    return cls.__dict__[v].__get__(b, cls)


def _parse_all(b):
    return [(v, _norm(_touch(b, v))) for v in ALL_VIEWS]


def _content_equal(env, a, b, what):
    bsp = env.bsp
    ba, bb = bsp.BSP(env.path(a)), bsp.BSP(env.path(b))
    _header_equal(ba, bb, what)
    covered, covered_g = _viewless(bsp)
    _raw_equal(ba, bb, what + " (lump without a view)",
               only={k for k in ba.lumps if k not in covered} | {k for k in ba.game_lumps if k not in covered_g})
    na, nb = _parse_all(ba), _parse_all(bb)
    for (v, x), (_v, y) in zip(na, nb):
        d = _diff(x, y, v)
        check(d is None, what + ": parsed content differs", d)
    return ba, bb


def _views(o0, o1, o2, hid, dph, cluster, kind, depth, deep, witness=False):
    from vf.stubs import bspio
    names = CLUSTERS[cluster]
    none = len(names)
    sel = []
    ended = False
    for j in range(3):
        o = (o0, o1, o2)[j]
        if j >= depth or ended:
            assume(o == none)
            continue
        got = None
        for k in range(none):
            if o == k:
                got = names[k]
                break
        if got is None:
            assume(o == none)
            ended = True
            continue
        assume(got not in sel)
        sel.append(got)
    hidc = _cut(hid, 2)
    dphc = _cut(dph, 4)
    assume(dphc[0] % 2 == 0)                       # compression bit clear (LZMA payloads stay concrete)
    games = _games(b"\2\0", b"\5\0", b"opaque", False, dprp_hdr=dphc)
    env = _Env()
    try:
        bsp = env.bsp
        env.put("in.bsp", _synth(kind, over={L["FACEIDS"]: bspio.mk(hidc)}, games=games))
        b0 = bsp.BSP(env.path("in.bsp"))
        for v in sel:
            _touch(b0, v)
        b0.save(env.path("out1.bsp"))
        _ba, bb = _content_equal(env, "in.bsp", "out1.bsp", f"views {sel}")
        # the same object saved again: nothing changes
        b0.save(env.path("out2.bsp"))
        _same_file(env, "out1.bsp", "out2.bsp", f"views {sel}: second save of the same object")
        if deep:
            # bb has every view parsed now: one more full save/read cycle keeps the content
            bb.save(env.path("out3.bsp"))
            _content_equal(env, "in.bsp", "out3.bsp", f"views {sel}, then every view + save")
    finally:
        env.close()
    if witness and len(sel) == depth and hidc[0] + 256 * hidc[1] > 300:
        raise Fail("reached")


def h_views(o0: int, o1: int, o2: int, hid: bytes, dph: bytes, cluster: str, kind: str = "20", depth: int = 2,
            deep: bool = False) -> None:
    _views(o0, o1, o2, hid, dph, cluster, kind, depth, deep)


def h_views_w(o0: int, o1: int, o2: int, hid: bytes, dph: bytes, cluster: str, kind: str = "20", depth: int = 2,
              deep: bool = False) -> None:
    _views(o0, o1, o2, hid, dph, cluster, kind, depth, deep, witness=True)


# ----------------------------------------------------------------------------------------------------- obligations
def obligations(tier):
    quick = tier == "quick"
    obls = []
    raw_lumps = [L["LIGHTING"], L["PAKFILE"], L["ENTITIES"], L["LIGHTING_HDR"]]
    sl = []
    for kind in (["20", "l4d2", "19"] if quick else list(KINDS)):
        for li in (raw_lumps[:2] if quick else raw_lumps):
            for n in ((0, 2) if quick else (0, 1, 2, 3, 6)):
                sl.append({"kind": kind, "li": li, "n": n, "gn": 1 if n else 0})
    sl += [{"kind": "20", "li": L["LIGHTING_HDR"], "n": 1, "gn": 2, "layout": lay, "comp": c}
           for lay, c in (("reverse", ""), ("gap", ""), ("index", "lump"), ("index", "game"), ("gap", "both"))]
    sl += [{"kind": "l4d2", "li": L["LIGHTING_HDR"], "n": 1, "gn": 2, "layout": "index", "comp": "both"}]
    if not quick:
        sl += [{"kind": k, "li": L["PAKFILE"], "n": 2, "gn": 2, "layout": lay, "comp": "both"}
               for k in KINDS for lay in ("reverse", "gap")]
    obls.append(Obl("plain", MOD, "h_plain", slices=sl, budget_s=600 if quick else 1800, per_path_s=120,
                    desc="no view accessed: read agrees with the file; save/read keeps version, revision, lump versions, "
                         "flags, game lumps and every lump byte-identical; saving again is byte-identical",
                    bound="symbolic revision/version/flags bytes and payloads of exact length per slice"))
    obls.append(Obl("plain.witness", MOD, "h_plain_w", slices=[{"kind": "20", "li": L["LIGHTING"], "n": 1, "gn": 1}],
                    budget_s=300, per_path_s=120, witness=True))
    vs = [{"cluster": c, "depth": 2 if quick else 3, "deep": not quick} for c in CLUSTERS]
    if not quick:
        vs += [{"cluster": c, "depth": 2, "deep": True, "kind": k} for c in ("faces", "tree", "tex") for k in ("19", "l4d2", "22")]
    obls.append(Obl("views", MOD, "h_views", slices=vs, budget_s=900 if quick else 3000, per_path_s=240,
                    desc="ordered subsets of views looked at, then save: header, versions, flags, raw bytes of view-less "
                         "lumps and parsed content of every view equal; second save byte-identical",
                    bound="ordered subsets up to the slice's depth inside one cluster; symbolic FACEIDS"))
    obls.append(Obl("views.witness", MOD, "h_views_w", slices=[{"cluster": "faces", "depth": 2}], budget_s=600,
                    per_path_s=240, witness=True))
    return obls
