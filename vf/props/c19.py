"""C19 — all filesystem backends resolve names alike; chains honour priority (E1, CrossHair).

File sets are concrete; the Virtual/Zip/VPK/Raw filesystems for them are built natively in `setup()` (real
`zipfile`, real `srctools.vpk.VPK` written to a temp dir). The solver's share is the *query spelling*, the *folder
spelling* and the *chain history* (which member is added at each step, under which subfolder, with or without
`priority=True`). The oracle never folds the symbolic text itself: it compares it character by character against the
concrete stored names (letter == either case of the stored letter, '/' == either slash).
"""
from __future__ import annotations

import os

from vf.core import Obl
from vf.h import Fail, assume, check

MOD = "vf.props.c19"

META = {
    "level": "model_checking",
    "functions": [
        "srctools.filesys:VirtualFileSystem._clean_path", "srctools.filesys:VirtualFileSystem._get_file",
        "srctools.filesys:VirtualFileSystem._file_exists", "srctools.filesys:VirtualFileSystem.open_bin",
        "srctools.filesys:VirtualFileSystem.open_str", "srctools.filesys:VirtualFileSystem.walk_folder",
        "srctools.filesys:ZipFileSystem._get_file", "srctools.filesys:ZipFileSystem._file_exists",
        "srctools.filesys:ZipFileSystem.open_bin", "srctools.filesys:ZipFileSystem.open_str", "srctools.filesys:ZipFileSystem.walk_folder",
        "srctools.filesys:VPKFileSystem._get_file", "srctools.filesys:VPKFileSystem._file_exists",
        "srctools.filesys:VPKFileSystem.open_bin", "srctools.filesys:VPKFileSystem.open_str", "srctools.filesys:VPKFileSystem.walk_folder",
        "srctools.filesys:RawFileSystem._get_file", "srctools.filesys:RawFileSystem._file_exists",
        "srctools.filesys:RawFileSystem.open_bin", "srctools.filesys:RawFileSystem.walk_folder",
        "srctools.filesys:FileSystem.__iter__", "srctools.filesys:FileSystemChain.add_sys",
        "srctools.filesys:FileSystemChain._get_file", "srctools.filesys:FileSystemChain.open_bin",
        "srctools.filesys:FileSystemChain.walk_folder", "srctools.filesys:FileSystemChain.walk_folder_repeat",
        "srctools.filesys:FileSystemChain.get_system",
    ],
    "bounds": "3 concrete file sets (mixed case + nesting; names that are prefixes of other names and of folder names; names differing "
              "only in case), each as Virtual, Zip, VPK and directory filesystem, plus one set whose names were given to a VirtualFileSystem "
              "with backslashes (alone and as a chain member next to forward-slash spellings of the same names); query / folder = symbolic str over {a A b B / \\ . x} "
              "with an exact length per slice (quick: lookup 0..4, walk 0..3; thorough: lookup 0..5, walk 0..5); folder spellings are "
              "canonical relative paths with an optional trailing slash; chains = histories of k add_sys calls (quick k<=3, thorough k<=4; for k>=3 the subfolder indices are concrete per slice) "
              "whose member (index into a pool of 3), subfolder (index into ['', 'a', 'ab']) and priority bit are solver variables "
              "(enumeration in solver clothing for the indices), query length <= 3",
    "outside": "other characters (non-ASCII case folding), longer names, query spellings with '.', '..' or empty components (observed: "
               "Virtual and Raw normalise them, Zip and VPK do not — reported as a known-finding proposal), Windows path semantics for "
               "the directory backend (POSIX model: a backslash is a file-name character there, so only exact spellings are claimed), "
               "open_str newline handling, cache keys, VPK/zip parsing itself (archives are concrete)",
    "stubs": ["srctools.filesys.os -> vf.stubs.pathmodel.OsModel (pure-Python normpath/join/relpath/abspath; isfile/walk/open on a model tree)",
              "the three per-instance name tables (_mapping, _name_to_info, _name_to_file) and the model tree's file table: dict -> "
              "vf.stubs.listmap.ListMap (same entries, lookup by == instead of hash, so a symbolic key is not realised)",
              "crosshair casefold fast path (vf.stubs.common)", "crosshair rstrip fix (vf.stubs.vpkmodel.symstr_rstrip_fix)"],
    "trusted_base": ["crosshair-tool 0.0.110", "z3", "vf/chx.py", "vf/stubs/pathmodel.py", "vf/stubs/listmap.py",
                     "python zipfile and srctools.vpk (used natively to build and read the concrete archives)"],
    "assumptions": ["POSIX path model for the directory backend", "among names differing only in case the last one added wins "
                    "(the file sets are ordered so that zip order and VPK directory order coincide with insertion order)"],
    "validation_runs": 0,
}

ALPHA = "aAbB/\\.x"

SETS = {
    "mix": ["Ab", "a/b", "a/B.a", "A/a/b", "b.a"],
    "pre": ["a", "aa", "ab/a", "abb/a"],
    "dup": ["A/b", "a/B", "a/b", "b"],
}
# names stored with backslashes (a VirtualFileSystem keeps the spelling it was given; the other backends are built from
# archives/directories whose tools normalise or forbid the backslash, so this set exists for the virtual backend only)
VSETS = {
    "bsl": ["a\\b", "A\\a\\B", "b", "a\\B.a"],
}
ALLSETS = dict(SETS, **VSETS)
BACKENDS = ["virtual", "zip", "vpk", "raw"]
PREFIXES = ["", "a", "ab"]
# the same subfolders as a caller may spell them when mounting (trailing slash, other letter case); model side: PREFIXES
PREFIX_SPELL = {"": ["", "a", "ab"], "slash": ["", "a/", "ab/"], "case": ["", "A", "Ab"]}
POOLS = {
    "vzk": [("virtual", "mix"), ("zip", "pre"), ("vpk", "dup")],
    "kvz": [("vpk", "mix"), ("virtual", "dup"), ("zip", "dup")],
    "rvz": [("raw", "mix"), ("virtual", "dup"), ("zip", "pre")],
    "bvz": [("virtual", "bsl"), ("virtual", "dup"), ("zip", "mix")],
}


def _data(s, name):
    return f"{s}|{name}".encode()


def _nfold(name):
    """fold a *concrete* stored name"""
    return name.replace("\\", "/").casefold()


def _dedup(s):
    """folded name -> (name, data); among case-only duplicates the last one wins"""
    d = {}
    for name in ALLSETS[s]:
        d[_nfold(name)] = (name, _data(s, name))
    return d


def _sl(name):
    """a *concrete* stored name with forward slashes only (what the oracle helpers compare spellings against)"""
    return name.replace("\\", "/")


# ------------------------------------------------------------------ construction (native, in setup)

_ST = {"engine": None, "fs": {}, "tmp": None, "model": None}


def _build_all(engine):
    import io
    import tempfile
    import zipfile

    import srctools.filesys as fsm
    from srctools.vpk import VPK
    from vf.stubs import listmap, pathmodel

    _ST["engine"] = engine
    tmp = tempfile.mkdtemp(prefix="vf_c19_")
    _ST["tmp"] = tmp
    use_model = engine == "chx"
    if use_model:
        tree = {}
        for s, names in SETS.items():
            for name in names:
                tree[f"/r/{s}/{name}"] = _data(s, name)
        mfs = pathmodel.ModelFS({}, cwd="/")
        mfs.files = listmap.ListMap(tree)
        _ST["model"] = mfs
        fsm.os = pathmodel.OsModel(mfs, cwd="/")
        fsm.open = mfs.open
    for s, names in SETS.items():
        ents = [(name, _data(s, name)) for name in names]
        v = fsm.VirtualFileSystem(dict(ents))
        buf = io.BytesIO()
        with zipfile.ZipFile(buf, "w") as zf:
            for name, d in ents:
                zf.writestr(name, d)
        z = fsm.ZipFileSystem(f"{s}.zip", zipfile.ZipFile(io.BytesIO(buf.getvalue())))
        vp = os.path.join(tmp, f"{s}_dir.vpk")
        with VPK(vp, mode="w") as w:
            for name, d in ents:
                w.add_file(name, d)
        k = fsm.VPKFileSystem(vp)
        if use_model:
            v._mapping = listmap.ListMap(v._mapping)
            z._name_to_info = listmap.ListMap(z._name_to_info)
            k._name_to_file = listmap.ListMap(k._name_to_file)
            r = fsm.RawFileSystem(f"/r/{s}")
        else:
            root = os.path.join(tmp, "raw", s)
            for name, d in ents:
                p = os.path.join(root, name)
                os.makedirs(os.path.dirname(p), exist_ok=True)
                with open(p, "wb") as f:
                    f.write(d)
            r = fsm.RawFileSystem(root)
        # the backends must hold what the oracle thinks they hold (native sanity check of the construction)
        for fs in (v, z, k):
            got = sorted(_nfold(f.path) for f in _stored(fs))
            if got != sorted(_dedup(s)):
                print(f"HARNESS-ERROR c19: {type(fs).__name__} for set {s} holds {got}")
                raise SystemExit(2)
        _ST["fs"][("virtual", s)] = v
        _ST["fs"][("zip", s)] = z
        _ST["fs"][("vpk", s)] = k
        _ST["fs"][("raw", s)] = r
    _build_virtual_only(use_model)


def _build_virtual_only(use_model):
    import srctools.filesys as fsm
    from vf.stubs import listmap
    for s, names in VSETS.items():
        v = fsm.VirtualFileSystem({name: _data(s, name) for name in names})
        if use_model:
            v._mapping = listmap.ListMap(v._mapping)
        got = sorted(_nfold(f.path) for f in _stored(v))
        if got != sorted(_dedup(s)):
            print(f"HARNESS-ERROR c19: VirtualFileSystem for set {s} holds {got}")
            raise SystemExit(2)
        _ST["fs"][("virtual", s)] = v


def _stored(fs):
    """stored entries read from the backend's own table (not through walk_folder, which is under test)"""
    import srctools.filesys as fsm
    if isinstance(fs, fsm.VirtualFileSystem):
        return [fsm.File(fs, fn, fn) for fn, _d in fs._mapping.values()]
    if isinstance(fs, fsm.ZipFileSystem):
        return [fsm.File(fs, i.filename, i) for i in fs._name_to_info.values()]
    return [fsm.File(fs, i.filename, i) for i in fs._name_to_file.values()]


def setup(engine):
    from vf.stubs import listmap, pathmodel
    if engine == "chx":
        pathmodel.selftest()
        listmap.selftest()
        from vf.stubs.common import casefold_fastpath
        from vf.stubs.vpkmodel import symstr_rstrip_fix
        casefold_fastpath()
        symstr_rstrip_fix()
    if engine in ("chx", "replay") and not _ST["fs"]:
        import atexit
        import shutil
        _build_all(engine)
        atexit.register(lambda: shutil.rmtree(_ST["tmp"], ignore_errors=True))


def _fs(backend, s):
    if not _ST["fs"]:
        setup("replay")
    return _ST["fs"][(backend, s)]


# ------------------------------------------------------------------ oracle pieces (symbolic text vs concrete names)

def _alpha(q):
    for c in q:
        assume(c in ALPHA)


def _issep(c):
    return c == "/" or c == "\\"


def _eqc(c, k):
    """symbolic char c equals stored (concrete) char k up to letter case and slash kind"""
    if k == "/":
        return c == "/" or c == "\\"
    if k.isalpha():
        return c == k.lower() or c == k.upper()
    return c == k


def _same(q, off, m, name):
    """q[off:off+m] spells `name` (len m) up to case and slash kind"""
    if len(name) != m:
        return False
    for i in range(m):
        if not _eqc(q[off + i], name[i]):
            return False
    return True


def _noncanon(q, m, both):
    """q[:m] is not a canonical relative path: it has an empty, '.' or '..' component (components split on '/', and on
    the backslash too when `both`). The empty string is canonical (the root folder)."""
    if m == 0:
        return False
    comp = 0
    dots = 0
    for i in range(m):
        c = q[i]
        if c == "/" or (both and c == "\\"):
            if comp == 0 or (dots == comp and comp <= 2):
                return True
            comp = 0
            dots = 0
        else:
            comp += 1
            if c == ".":
                dots += 1
    return comp == 0 or (dots == comp and comp <= 2)


def noncanon(q):
    """known-finding region helper: the query has an empty, '.' or '..' component when split on '/'"""
    return _noncanon(q, len(q), False)


def noncanon2(q):
    """as noncanon, with the backslash also counted as a separator (a chain turns it into '/' before asking its members)"""
    return _noncanon(q, len(q), True)


def _lookup(s, prefix, q, n):
    """entry (name, data) of set s that prefix + '/' + q denotes (folded, last duplicate wins), or None"""
    hit = None
    skip = len(prefix) + 1 if prefix else 0
    for name in ALLSETS[s]:
        if skip:
            if _nfold(name[:skip]) != _nfold(prefix) + "/":
                continue
        if _same(q, 0, n, _sl(name)[skip:]):
            hit = (name, _data(s, name))
    return hit


def _lookup_exact(s, prefix, q):
    full = prefix + "/" + q if prefix else q
    for name in ALLSETS[s]:
        if full == name:
            return (name, _data(s, name))
    return None


def _core_len(p, n):
    """length of the folder spelling without one optional trailing slash"""
    if n >= 2 and _issep(p[n - 1]):
        return n - 1
    return n


def _inside(p, m, rest):
    """concrete relative name `rest` lies inside folder p[:m] *as a folder* (up to case and slash kind)"""
    if m == 0:
        return True
    if len(rest) < m + 2 or rest[m] != "/":
        return False
    for i in range(m):
        if not _eqc(p[i], rest[i]):
            return False
    return True


def _exact_n(p, m, name):
    for i in range(m):
        if p[i] != name[i]:
            return False
    return True


def _read(f):
    with f.open_bin() as h:
        return h.read()


# ------------------------------------------------------------------ single backends: lookup

def _run_lookup(q, n, fset, backend):
    fs = _fs(backend, fset)
    exp = _lookup(fset, "", q, n)
    if backend == "raw":
        ex = _lookup_exact(fset, "", q)
        if ex is None and exp is not None:
            return None, "noclaim"          # case / backslash variant of a stored name: platform dependent
        exp = ex
    want = None if exp is None else exp[1]
    e = q in fs
    check(bool(e) == (want is not None), "existence", backend, fset, q, bool(e), want)
    try:
        f = fs[q]
        got = _read(f)
    except FileNotFoundError:
        got = None
    check(got == want, "fs[name].open_bin()", backend, fset, q, got, want)
    try:
        with fs.open_bin(q) as h:
            got2 = h.read()
    except FileNotFoundError:
        got2 = None
    except (IsADirectoryError, NotADirectoryError):
        # open() on a directory / below a file: the directory backend lets the OS error through (an OSError that is not
        # FileNotFoundError); the model tree cannot tell the difference, so this is accepted as "missing" for that backend only
        got2 = None if backend == "raw" else "OSError"
    check(got2 == want, "fs.open_bin(name)", backend, fset, q, got2, want)
    if backend != "raw":
        try:
            with fs.open_str(q) as h:
                got3 = h.read()
        except FileNotFoundError:
            got3 = None
        check(got3 == (None if want is None else want.decode()), "fs.open_str(name)", backend, fset, q, got3, want)
    return want, "ok"


def h_lookup(q: str, n: int, fset: str, backend: str) -> None:
    assume(len(q) == n)
    _alpha(q)
    _run_lookup(q, n, fset, backend)


def h_lookup_w(q: str, n: int, fset: str, backend: str) -> None:
    assume(len(q) == n)
    _alpha(q)
    want, st = _run_lookup(q, n, fset, backend)
    if want is not None and st == "ok":
        raise Fail("reached")


# ------------------------------------------------------------------ single backends: walk

def _run_walk(p, n, fset, backend):
    fs = _fs(backend, fset)
    m = _core_len(p, n)
    assume(not _noncanon(p, m, True))
    if backend == "raw":
        for i in range(n):
            assume(p[i] != "\\")
        ents = {name: (name, _data(fset, name)) for name in SETS[fset]}
        exp_fold = sorted(name for name in ents if _inside(p, m, name))
        exp = sorted(name for name in ents if m == 0 or (len(name) >= m + 2 and name[m] == "/" and _exact_n(p, m, name)))
        if exp != exp_fold:
            return None                     # case variant of a stored folder: platform dependent
        key = lambda x: x                   # noqa
    else:
        ents = _dedup(fset)
        exp = sorted(k for k, (name, _d) in ents.items() if _inside(p, m, _sl(name)))
        key = _nfold
    files = list(fs.walk_folder(p))
    got = sorted(key(f.path) for f in files)
    check(got == exp, "walk_folder lists exactly the files inside the folder", backend, fset, p, got, exp)
    if n == 0:
        got_it = sorted(key(f.path) for f in fs)
        check(got_it == exp, "iter(fs) lists all files", backend, fset, got_it, exp)
    for f in files:
        want = ents[key(f.path)][1]
        check(_read(f) == want, "walked file content", backend, fset, p, f.path)
        check(f.path in fs, "walked name exists", backend, fset, p, f.path)
        check(_read(fs[f.path]) == want, "walked name looks up to the same file", backend, fset, p, f.path)
    return exp


def h_walk(p: str, n: int, fset: str, backend: str) -> None:
    assume(len(p) == n)
    _alpha(p)
    _run_walk(p, n, fset, backend)


def h_walk_w(p: str, n: int, fset: str, backend: str) -> None:
    assume(len(p) == n)
    _alpha(p)
    exp = _run_walk(p, n, fset, backend)
    if exp:
        raise Fail("reached")


# ------------------------------------------------------------------ chains

def _pick(lst, idx):
    for k in range(len(lst)):
        if idx == k:
            return k
    assume(False)


def _chain(pool, k, ms, xs, ps, ctor, spell=""):
    """build the real chain and the model list [(member index, backend, set, prefix)] from the history"""
    import srctools.filesys as fsm
    members = POOLS[pool]
    SP = PREFIX_SPELL[spell]
    if spell == "case":
        assume(all(b != "raw" for b, _s in members))     # the directory backend is case sensitive on POSIX: no claim
    model = []
    hist = []
    for i in range(k):
        mi = _pick(members, ms[i])
        xi = _pick(PREFIXES, xs[i])
        hist.append((mi, xi, ps[i]))
    if ctor:
        args = []
        for mi, xi, _pr in hist:
            b, s = members[mi]
            args.append((_fs(b, s), SP[xi]) if PREFIXES[xi] else _fs(b, s))
            model.append((mi, b, s, PREFIXES[xi]))
        return fsm.FileSystemChain(*args), model
    chain = fsm.FileSystemChain()
    for mi, xi, pr in hist:
        b, s = members[mi]
        if pr:
            chain.add_sys(_fs(b, s), SP[xi], priority=True)
            model.insert(0, (mi, b, s, PREFIXES[xi]))
        else:
            chain.add_sys(_fs(b, s), SP[xi])
            model.append((mi, b, s, PREFIXES[xi]))
    return chain, model


def _run_chain_lookup(chain, model, q, n):
    import srctools.filesys as fsm
    exp = None
    for mi, b, s, prefix in model:
        hit = _lookup(s, prefix, q, n)
        if b == "raw":
            ex = _lookup_exact(s, prefix, q)
            assume(ex is not None or hit is None)     # case/backslash variant on the directory backend: no claim
            hit = ex
        if hit is not None:
            exp = (b, s, hit[1])
            break
    want = None if exp is None else exp[2]
    e = q in chain
    check(bool(e) == (want is not None), "chain existence", q, model, bool(e), want)
    try:
        f = chain[q]
        got = _read(f)
        owner = fsm.FileSystemChain.get_system(f)
    except FileNotFoundError:
        got = None
        owner = None
    check(got == want, "chain[name] content is the first member's", q, model, got, want)
    if exp is not None:
        check(owner is _fs(exp[0], exp[1]), "chain[name] comes from the first member that has it", q, model, repr(owner))
    try:
        with chain.open_bin(q) as h:
            got2 = h.read()
    except FileNotFoundError:
        got2 = None
    check(got2 == want, "chain.open_bin(name)", q, model, got2, want)
    return want


def _run_chain_walk(chain, model, p, n):
    m = _core_len(p, n)
    assume(not _noncanon(p, m, True))
    groups = []
    for mi, b, s, prefix in model:
        skip = len(prefix) + 1 if prefix else 0
        grp = []
        for k, (name, d) in _dedup(s).items():
            if skip and k[:skip] != _nfold(prefix) + "/":
                continue
            if _inside(p, m, _sl(name)[skip:]):
                grp.append((k[skip:], d))
        groups.append(sorted(grp))
    # walk_folder_repeat: every member's files, members in priority order
    got = [(_nfold(f.path), _read(f)) for f in chain.walk_folder_repeat(p)]
    flat = [x for g in groups for x in g]
    check(len(got) == len(flat), "walk_folder_repeat count", p, model, got, flat)
    pos = 0
    for g in groups:
        chunk = sorted(got[pos:pos + len(g)])
        check(chunk == g, "walk_folder_repeat lists each member's files, in chain order", p, model, got, flat)
        pos += len(g)
    # walk_folder: each folded name once, content of the first member that has it
    first = {}
    for name, d in flat:
        first.setdefault(name, d)
    files = list(chain.walk_folder(p))
    got_d = sorted((_nfold(f.path), _read(f)) for f in files)
    check(got_d == sorted(first.items()), "de-duplicated walk lists each name once with the first member's content", p, model, got_d, sorted(first.items()))
    for f in files:
        check(f.path in chain, "walked name exists in the chain", p, model, f.path)
        check(_read(chain[f.path]) == first[_nfold(f.path)], "walked name looks up to the same content", p, model, f.path)
    return flat


def _chain_args(q, n, m0, m1, m2, m3, x0, x1, x2, x3, p0, p1, p2, p3, k, pool, ctor, spell=""):
    assume(len(q) == n)
    _alpha(q)
    return _chain(pool, k, [m0, m1, m2, m3], [x0, x1, x2, x3], [p0, p1, p2, p3], ctor, spell)


def h_chain_lookup(q: str, m0: int, m1: int, m2: int, m3: int, x0: int, x1: int, x2: int, x3: int,
                   p0: bool, p1: bool, p2: bool, p3: bool, n: int, k: int, pool: str, ctor: bool = False, spell: str = "") -> None:
    chain, model = _chain_args(q, n, m0, m1, m2, m3, x0, x1, x2, x3, p0, p1, p2, p3, k, pool, ctor, spell)
    _run_chain_lookup(chain, model, q, n)


def h_chain_lookup_w(q: str, m0: int, m1: int, m2: int, m3: int, x0: int, x1: int, x2: int, x3: int,
                     p0: bool, p1: bool, p2: bool, p3: bool, n: int, k: int, pool: str, ctor: bool = False, spell: str = "") -> None:
    chain, model = _chain_args(q, n, m0, m1, m2, m3, x0, x1, x2, x3, p0, p1, p2, p3, k, pool, ctor, spell)
    want = _run_chain_lookup(chain, model, q, n)
    # reachability: the answer comes from a member that is not the first in the chain
    if want is not None and k >= 2 and _lookup(model[0][2], model[0][3], q, n) is None:
        raise Fail("reached")


def h_chain_walk(q: str, m0: int, m1: int, m2: int, m3: int, x0: int, x1: int, x2: int, x3: int,
                 p0: bool, p1: bool, p2: bool, p3: bool, n: int, k: int, pool: str, ctor: bool = False, spell: str = "") -> None:
    chain, model = _chain_args(q, n, m0, m1, m2, m3, x0, x1, x2, x3, p0, p1, p2, p3, k, pool, ctor, spell)
    _run_chain_walk(chain, model, q, n)


def h_chain_walk_w(q: str, m0: int, m1: int, m2: int, m3: int, x0: int, x1: int, x2: int, x3: int,
                   p0: bool, p1: bool, p2: bool, p3: bool, n: int, k: int, pool: str, ctor: bool = False, spell: str = "") -> None:
    chain, model = _chain_args(q, n, m0, m1, m2, m3, x0, x1, x2, x3, p0, p1, p2, p3, k, pool, ctor, spell)
    flat = _run_chain_walk(chain, model, q, n)
    if len(flat) != len(set(name for name, _d in flat)):
        raise Fail("reached")        # some name is present in two members: de-duplication had work to do


# ------------------------------------------------------------------ obligations

_DEV_EXCLUDE = os.environ.get("VF_C19_DEV_EXCLUDE")       # development only: emulates an *open* known finding's region


def _kf(sl, name):
    if _DEV_EXCLUDE:
        reg = "len(q) == n and noncanon(q)" if name == "lookup" else "len(q) == n and noncanon2(q)"
        for d in sl:
            d["_exclude"] = [reg]
    return sl


def _hist(k, sym_m, sym_x, sym_p, fixed=None):
    """slice fragment: concrete zeros for unused steps; members/prefixes/priorities symbolic when requested"""
    d = {}
    for i in range(4):
        used = i < k
        if not (used and sym_m):
            d[f"m{i}"] = 0
        if not (used and sym_x):
            d[f"x{i}"] = 0
        if not (used and sym_p):
            d[f"p{i}"] = False
    d.update(fixed or {})
    return d


def obligations(tier):
    quick = tier == "quick"
    obls = []
    look_lens = range(0, 5) if quick else range(0, 6)
    walk_lens = range(0, 4) if quick else range(0, 6)
    sl = [{"n": n, "fset": s, "backend": b} for s in SETS for b in BACKENDS for n in look_lens]
    sl += [{"n": n, "fset": s, "backend": "virtual"} for s in VSETS for n in look_lens]
    obls.append(Obl("lookup", MOD, "h_lookup", slices=_kf(sl, "lookup"), budget_s=900 if quick else 2400, per_path_s=30,
                    desc="existence, fs[name].open_bin(), fs.open_bin(name), fs.open_str(name) agree with the folded-name oracle "
                         "(directory backend: exact spellings)", bound="exact query length per slice over ALPHA"))
    obls.append(Obl("lookup.witness", MOD, "h_lookup_w", slices=[{"n": 3, "fset": "dup", "backend": b} for b in BACKENDS],
                    budget_s=120, per_path_s=30, witness=True, desc="reachability: some spelling finds a file"))
    sl = [{"n": n, "fset": s, "backend": b} for s in SETS for b in BACKENDS for n in walk_lens]
    sl += [{"n": n, "fset": s, "backend": "virtual"} for s in VSETS for n in walk_lens]
    obls.append(Obl("walk", MOD, "h_walk", slices=sl, budget_s=300 if quick else 2400, per_path_s=30,
                    desc="walk_folder(p) lists exactly the stored files inside p as a folder; every listed name exists and looks up "
                         "to the same bytes; iter(fs) == walk_folder('')", bound="exact folder length per slice over ALPHA, canonical spellings"))
    obls.append(Obl("walk.witness", MOD, "h_walk_w", slices=[{"n": 1, "fset": "mix", "backend": b} for b in BACKENDS[:3]] + [{"n": 2, "fset": "pre", "backend": "raw"}],
                    budget_s=120, per_path_s=30, witness=True, desc="reachability: a non-empty folder is listed"))
    # chains. k <= 2: everything symbolic (sliced on the first member); k >= 3: members and priority bits symbolic, the
    # subfolder indices concrete per slice (a few combinations)
    XCOMBOS = [(1, 0, 1, 0), (0, 1, 1, 2)] if quick else [(1, 0, 1, 0), (0, 1, 1, 2), (1, 0, 2, 0), (0, 0, 0, 0)]

    def chain_slices(pools, ks, lens_k12, lens_k3, extra_n3_pool=None):
        out = []
        for pool in pools:
            for k in ks:
                if k == 1:
                    out += [dict(_hist(1, True, True, True), n=n, k=1, pool=pool) for n in lens_k12]
                elif k == 2:
                    for n in lens_k12:
                        if n <= 1:
                            out += [dict(_hist(2, True, True, True, {"m0": m0}), n=n, k=2, pool=pool) for m0 in range(3)]
                        else:
                            out += [dict(_hist(2, True, True, True, {"m0": m0, "x0": x0}), n=n, k=2, pool=pool)
                                    for m0 in range(3) for x0 in range(3)]
                else:
                    for n in lens_k3:
                        for xc in XCOMBOS:
                            fx = {f"x{i}": xc[i] for i in range(k)}
                            if k == 3:
                                out.append(dict(_hist(k, True, False, True, fx), n=n, k=k, pool=pool))
                            else:
                                out += [dict(_hist(k, True, False, True, dict(fx, m0=m0)), n=n, k=k, pool=pool) for m0 in range(3)]
        return out

    if quick:
        sl = chain_slices(["vzk", "rvz"], (1, 2, 3), (1,), (1,))
        sl += [dict(_hist(2, True, True, True, {"m0": m0, "x0": 1}), n=2, k=2, pool="vzk") for m0 in range(3)]
        sl += [dict(_hist(1, True, True, True), n=n, k=1, pool=pool) for n in (2, 3) for pool in POOLS]
        sl += chain_slices(["bvz"], (2,), (1,), ())
        sl += [dict(d, spell=sp) for sp in ("slash", "case") for d in chain_slices(["vzk"], (1,), (1, 2), ())]
    else:
        sl = chain_slices(list(POOLS), (1, 2, 3), (0, 1, 2, 3), (1,))
        sl += chain_slices(["vzk"], (4,), (), (1,))[:6]
        sl += [dict(d, spell=sp) for sp in ("slash", "case") for d in chain_slices(["vzk", "kvz"], (1, 2), (1, 2), ())]
    for pool in POOLS:
        sl.append(dict(_hist(3, True, False, False, {"x0": 0, "x1": 1, "x2": 2}), n=1, k=3, pool=pool, ctor=True))
    obls.append(Obl("chain_lookup", MOD, "h_chain_lookup", slices=_kf(sl, "chain_lookup"), budget_s=900 if quick else 3000, per_path_s=30,
                    desc="a chain built by any history of add_sys calls answers with the first member (in priority order) that has "
                         "the name, addressing subfolder members relative to their subfolder", bound="k add_sys steps, query length n"))
    if quick:
        wsl = chain_slices(["vzk", "kvz"], (1, 2), (0, 1), ())
        wsl += chain_slices(["vzk", "kvz"], (3,), (), (0,))[::2]
        wsl += chain_slices(["bvz"], (1, 2), (0, 1), ())
        wsl += [dict(d, spell=sp) for sp in ("slash", "case") for d in chain_slices(["vzk"], (1,), (0, 1), ())]
    else:
        wsl = chain_slices(["vzk", "kvz", "bvz"], (1, 2, 3), (0, 1, 2, 3), (0, 1))
        wsl += chain_slices(["kvz"], (4,), (), (0,))[:6]
        wsl += [dict(d, spell=sp) for sp in ("slash", "case") for d in chain_slices(["vzk", "kvz"], (1, 2), (0, 1), ())]
    obls.append(Obl("chain_walk", MOD, "h_chain_walk", slices=wsl, budget_s=900 if quick else 3000, per_path_s=30,
                    desc="walk_folder_repeat lists every member's files inside the folder (relative to the member's subfolder) in chain "
                         "order; walk_folder lists each folded name once with the first member's content; every listed name looks up",
                    bound="k add_sys steps, folder length n"))
    obls.append(Obl("chain_lookup.witness", MOD, "h_chain_lookup_w", slices=[dict(_hist(2, True, True, True), n=1, k=2, pool="vzk")],
                    budget_s=120, per_path_s=30, witness=True))
    obls.append(Obl("chain_walk.witness", MOD, "h_chain_walk_w", slices=[dict(_hist(2, True, True, True), n=0, k=2, pool="kvz")],
                    budget_s=120, per_path_s=30, witness=True))
    return obls
