"""C20 — secondary format writers emit files their own readers reproduce (E1, CrossHair).

cmdseq (Hammer command sequences), choreo (scenes.image container, binary BVCD scenes, text VCD),
sndscript, vmt, smd, particles: reader(writer(v)) == v compared field by field, and writer(reader(writer(v))) identical.
"""
from __future__ import annotations

from vf.core import Obl
from vf.h import ChunkSink, Fail, assume, check

MOD = "vf.props.c20"

META = {
    "level": "model_checking",
    "functions": [
        "srctools.cmdseq:strip_cstring", "srctools.cmdseq:pad_string", "srctools.cmdseq:Command.parse",
        "srctools.cmdseq:parse", "srctools.cmdseq:write",
        "srctools.choreo:save_scenes_image_sync", "srctools.choreo:parse_scenes_image", "srctools.choreo:checksum_filename",
        "srctools.choreo:Entry.from_scene", "srctools.choreo:Scene.export_binary", "srctools.choreo:Scene.parse_binary",
        "srctools.choreo:Event.export_binary", "srctools.choreo:Event.parse_binary",
        "srctools.choreo:Actor.export_binary", "srctools.choreo:Actor.parse_binary",
        "srctools.choreo:Channel.export_binary", "srctools.choreo:Channel.parse_binary",
        "srctools.choreo:Tag.export_binary", "srctools.choreo:Tag.parse_binary",
        "srctools.choreo:Curve.export_binary", "srctools.choreo:Curve.parse_binary",
        "srctools.choreo:FlexAnimTrack.export_binary", "srctools.choreo:FlexAnimTrack.parse_binary",
        "srctools.choreo:Scene.used_sounds", "srctools.choreo:Scene.duration",
        "srctools.binformat:read_offset_array", "srctools.binformat:read_nullstr", "srctools.binformat:DeferredWrites.write",
        # text formats (extension)
        "srctools.choreo:Scene.export_text", "srctools.choreo:Scene.parse_text", "srctools.choreo:Event.export_text",
        "srctools.choreo:Event.parse_text", "srctools.choreo:Actor.export_text", "srctools.choreo:Actor.parse_text",
        "srctools.choreo:Channel.export_text", "srctools.choreo:Channel.parse_text", "srctools.choreo:Tag.export_text",
        "srctools.choreo:Tag.parse_text", "srctools.choreo:Curve.export_text", "srctools.choreo:Curve.parse_text",
        "srctools.choreo:CurveEdge.parse_text", "srctools.choreo:CurveType.parse_text",
        "srctools.sndscript:Sound.export", "srctools.sndscript:Sound.parse", "srctools.sndscript:Sound.parse_one",
        "srctools.sndscript:parse_split_float", "srctools.sndscript:split_float", "srctools.sndscript:join_float",
        "srctools.vmt:Material.export", "srctools.vmt:Material.parse", "srctools.vmt:Material._parse_block",
        "srctools.vmt:Material.__setitem__", "srctools.vmt:Material.__getitem__",
        "srctools.smd:Mesh.export", "srctools.smd:Mesh.parse_smd", "srctools.smd:Mesh._parse_smd_bones",
        "srctools.smd:Mesh._parse_smd_anim", "srctools.smd:Mesh._parse_smd_tri", "srctools.smd:_clean_file",
        "srctools.particles:Particle.export", "srctools.particles:Particle.parse",
        "srctools.keyvalues:Keyvalues.parse", "srctools.keyvalues:Keyvalues._serialise", "srctools.tokenizer:Tokenizer._get_token",
        "srctools.tokenizer:escape_text", "srctools.dmx:Element.export_binary", "srctools.dmx:Element.parse",
    ],
    "bounds": "cmdseq: field lemma for every ASCII non-NUL string of exact length 0,1,2,W-1,W (W=128,260; all characters symbolic) "
              "and whole files of 2 sequences / 0-3 commands with one fully symbolic command (3 flags, ensure-file presence, "
              "SpecialCommand by index, symbolic string tails in fields of total length 0/1/259/260), 5 sequence names incl. "
              "lengths 127/128; scenes.image: versions 2 and 3, 0-3 entries in both insertion orders, two symbolic latin-1 strings "
              "(exact length 1; thorough 0-3) in 7 slot layouts, file names concrete; binary scenes: one event of each of the 19 "
              "kinds, optional blocks and flags in three groups, one symbolic pool string; "
              "text VCD: 19 event kinds x relative tag x ramp/edges, caption type x 3 speak flags, 6 activity/switch bits, one symbolic "
              "string (every code point, exact length 0-1; 2 thorough) in each of 16 slots, 3 scale-setting keys by slice; "
              "soundscripts: 2 sounds per file, name / wave / operator-stack leaf symbolic (every code point, exact length 0-2), channel, "
              "level, volume, pitch by index one dimension at a time, 0-3 waves, force_v2 and 3 stacks symbolic, two reader modes; "
              "VMT: shader / one parameter value / one block+proxy leaf symbolic (every code point, length 0-1; 2 thorough), parameter "
              "name empty (quick) or 1 ASCII character (thorough), optional nested fallback block and proxies; "
              "SMD: 3 bones, 1/3 frames, 0/2 triangles, 1-2 links per vertex, material name symbolic printable ASCII length 1-2 (4 thorough); "
              "PCF: 3 systems, 0/7 operators, 4 child-reference bits, function name and a string option symbolic in the element route, "
              "binary DMX v2/v5 (1-5 thorough) by index",
    "outside": "choreo flex-animation tracks in text (Event.parse_text raises NotImplementedError for 'flexanimations': TODO in the source), "
               "Event.default_curve_type, text_crc and time_zoom_lookup (not stored in text), event ramps with edges but no samples (not "
               "written); soundscript/VMT strings containing a double quote or CR, sound names with LF (the raw formats cannot carry them), "
               "symbolic sound names through Sound.parse's dict (parse_one is used; Sound.parse with concrete names), 'attenuation' keys; "
               "VMT parameter names beyond one ASCII character, shader starting with a BOM, Patch materials; SMD material names with "
               "space/control characters, '#', ';', '.', '//', a trailing slash or equal to 'end' (a line-oriented format without quoting "
               "cannot carry them), bone names as symbolic strings (Bone.__hash__/dict keys: 5 names by index), non-zero rotations "
               "(radians at 6 decimals), weights of single links; PCF through binary DMX with symbolic strings (C14 covers the DMX codec), "
               "element UUIDs (fresh per export; second generation compared structurally), the 'name' pseudo-option; the sample files "
               "under tests/; strings longer than the bound; float continuum and 1-byte quantisation (values are exact representatives); "
               "LZMA/CRC of symbolic payloads; sequence names as symbolic strings in whole files (dict keys; covered by the field lemma); "
               "cmdseq files of format version < 0.2",
    "stubs": ["srctools.cmdseq.ST_COMMAND/ST_COMMAND_PRE_V2, pack, unpack -> vf.stubs.binio.ModelStruct (struct.Struct methods are C; "
              "CrossHair's own struct model is big-endian/unaligned for native formats and realises 's' fields)",
              "srctools.choreo.struct -> binio.StructModule, srctools.binformat._cached_struct, Tag._FMT, AbsoluteTag._FMT, Curve.BIN_FMT -> ModelStruct",
              "srctools.choreo.BytesIO and the harness files -> binio.ModelBytesIO (flat list of byte cells)",
              "srctools.binformat.find_or_insert -> association-list twin (a dict hashes, i.e. realises, symbolic strings); compared "
              "with the real function on every start",
              "crosshair BytesLike.__contains__ -> find(x) != -1 (engine tweak; the inherited one realises)",
              "sys.intern -> identity, BARE_DISALLOWED -> tuple, casefold fast path (vf.stubs.common.text_stubs); srctools.vmt.BARE_DISALLOWED "
              "(imported by value) -> the same tuple",
              "srctools.choreo.float/int, srctools.float/int -> vf.stubs.floatstub shims (exact float(text)/int(text) on a de-proxied piece whose "
              "digits are concrete; CrossHair would return a fresh symbol and cap the verdict)",
              "Material._params -> AssocDict in a harness subclass of Material (real __init__/__setitem__/parse/export run; a dict would hash the "
              "folded symbolic name); AssocDict compared with dict on every start"],
    "trusted_base": ["crosshair-tool 0.0.110 (symbolic str/bytes/int models, ascii and latin-1 codecs)", "z3", "vf/chx.py",
                     "vf/stubs/binio.py (ModelBytesIO, ModelStruct; validated against io.BytesIO / struct.Struct on every start)"],
    "assumptions": ["little-endian host", "floats are concrete, exactly representable constants (float32 for binary scenes)",
                    "LZMA and CRC32 only ever see concrete bytes (scene payloads hold pool indexes, not strings; file names are concrete)",
                    "soundscript files are read with Keyvalues.parse(allow_escapes=False) as srctools.packlist does (obligation "
                    "snd.escaped_reader: the default reader); VCD files with Tokenizer defaults as scripts/build_scenes_image.py does",
                    "a binary file iterates as LF-terminated lines (harness line splitter for SMD)"],
}

_ENGINE = "native"


def setup(engine):
    global _ENGINE
    _ENGINE = engine
    from vf.stubs import binio
    binio.selftest()
    _selftest_pool()
    _selftest_assoc()
    if engine == "chx":
        from vf.stubs.common import text_stubs
        text_stubs()
        import srctools.tokenizer as tk
        import srctools.vmt as vmt
        vmt.BARE_DISALLOWED = tk.BARE_DISALLOWED        # vmt imported the frozenset by value; text_stubs() made it a tuple
        from vf.stubs.floatstub import stub_float, stub_int
        stub_float(("srctools.choreo", "srctools"))     # float(text)/int(text) on a piece that also holds a symbolic string:
        stub_int(("srctools.choreo", "srctools"))       # exact on the de-proxied (all-concrete) digits instead of a fresh symbol
        binio.enable_symbolic()
        import srctools.cmdseq as cs
        cs.ST_COMMAND = binio.ModelStruct(cs.ST_COMMAND.format)
        cs.ST_COMMAND_PRE_V2 = binio.ModelStruct(cs.ST_COMMAND_PRE_V2.format)
        cs.pack, cs.unpack = binio.pack, binio.unpack
        import srctools.binformat as bf
        bf.find_or_insert = find_or_insert_assoc
        _stub_choreo_structs()
        import srctools.choreo as ch
        ch.BytesIO = binio.ModelBytesIO


def _new_file(initial=b""):
    """ModelBytesIO under CrossHair; the real io.BytesIO in native replays."""
    if _ENGINE == "chx":
        from vf.stubs.binio import ModelBytesIO
        return ModelBytesIO(initial)
    import io
    return io.BytesIO(initial)


def pick(lst, idx):
    """Concrete element chosen by a symbolic index (one path per element; keeps hashed values concrete)."""
    for k in range(len(lst)):
        if idx == k:
            return lst[k]
    assume(False)


# ------------------------------------------------------------------------------------------------------------
# stub: binformat.find_or_insert without hashing
# ------------------------------------------------------------------------------------------------------------

def find_or_insert_assoc(item_list, key_func=id):
    """`srctools.binformat.find_or_insert` with the dict replaced by an association list (a dict would hash,
    i.e. realise, symbolic strings).  Same observable behaviour for keys whose == agrees with their hash
    (str, int): initial duplicates resolve to the LAST index (dict-comprehension order), later items are
    found by key equality or appended.  Compared with the real function by _selftest_pool()."""
    keys = []
    idxs = []
    for i, item in enumerate(item_list):
        k = key_func(item)
        for j in range(len(keys)):
            if keys[j] == k:
                idxs[j] = i
                break
        else:
            keys.append(k)
            idxs.append(i)

    def finder(item):
        key = key_func(item)
        for j in range(len(keys)):
            if keys[j] == key:
                return idxs[j]
        ind = len(item_list)
        keys.append(key)
        idxs.append(ind)
        item_list.append(item)
        return ind
    return finder


def _selftest_pool():
    import srctools.binformat as bf
    real = getattr(bf.find_or_insert, "__wrapped_real__", bf.find_or_insert)
    if real is find_or_insert_assoc:
        return
    for kf in (lambda x: x, str.casefold, len):
        for init in ([], ["a", "A", "b", "a"], ["x"]):
            l1, l2 = list(init), list(init)
            f1, f2 = real(l1, kf), find_or_insert_assoc(l2, kf)
            for s in ["a", "A", "", "x", "yy", "YY", "a", "Yy", "zzz"]:
                if f1(s) != f2(s) or l1 != l2:
                    print("find_or_insert_assoc differs from the real find_or_insert", init, s)
                    raise SystemExit(2)


def _stub_choreo_structs():
    """Class-level struct.Struct objects and binformat's Struct cache -> ModelStruct (Struct methods are C)."""
    from vf.stubs.binio import ModelStruct, StructModule
    import srctools.binformat as bf
    import srctools.choreo as ch
    cache = {}

    def cached(fmt):
        if isinstance(fmt, ModelStruct):
            return fmt
        if fmt not in cache:
            cache[fmt] = ModelStruct(fmt)
        return cache[fmt]
    bf._cached_struct = cached
    ch.struct = StructModule
    for cls in (ch.Tag, ch.TimingTag, ch.AbsoluteTag):
        if "_FMT" in cls.__dict__:
            cls._FMT = ModelStruct(cls.__dict__["_FMT"].format)
    ch.Curve.BIN_FMT = ModelStruct(ch.Curve.BIN_FMT.format)


# ------------------------------------------------------------------------------------------------------------
# cmdseq
# ------------------------------------------------------------------------------------------------------------

def _ascii_nonul(s):
    """Precondition without one fork per character: `&` keeps each test a single symbolic bool, all() folds them."""
    assume(all([(ord(ch) > 0) & (ord(ch) < 128) for ch in s]))


def h_cstring(s: str, n: int, width: int) -> None:
    """Fixed-width field lemma: strip_cstring(pad_string(s, W)) == s and re-padding gives the same bytes, for every
    ASCII string without NUL of length n <= W (W = 128 sequence names, 260 exe/args/ensure_file)."""
    from srctools.cmdseq import pad_string, strip_cstring
    assume(len(s) == n)
    _ascii_nonul(s)
    field = pad_string(s, width)
    check(len(field) == width, "field width", len(field))
    back = strip_cstring(field)
    check(len(back) == n, "length after strip_cstring", len(back), n)
    check(back == s, "strip_cstring(pad_string(s)) != s", back)
    check(pad_string(back, width) == field, "second generation field differs")


def h_cstring_witness(s: str, n: int, width: int) -> None:
    h_cstring(s, n, width)
    raise Fail("reached")


SEQ_NAMES = ["", "a", "Seq one", "N" * 127, "M" * 128]
_FILL = "C:\\dir with space\\$exe -game \"x\" /0123456789_"


def _filled(sym, total):
    """`total`-long ASCII string ending in the symbolic piece (boundary lengths by construction)."""
    pad = total - len(sym)
    return (_FILL * 8)[:pad] + sym if pad else sym


def h_cmdseq(exe: str, args: str, ens: str, enabled: bool, upw: bool, nowait: bool, has_ens: bool, special: int,
             name_i: int, n_exe: int, n_args: int, n_ens: int, l_exe: int, l_args: int, l_ens: int, ncmd: int = 2) -> None:
    """write -> parse == original (field by field); write(parse(write(v))) byte-identical.
    One fully symbolic command (strings: symbolic tails of exact length n_* inside fields of total length l_*)
    inside a two-sequence file; sequence name by index; SpecialCommand by index (4 = ordinary exe)."""
    import srctools.cmdseq as cs
    assume(len(exe) == n_exe and len(args) == n_args and len(ens) == n_ens)
    _ascii_nonul(exe)
    _ascii_nonul(args)
    _ascii_nonul(ens)
    assume(0 <= special <= 4)
    name = SEQ_NAMES[name_i]
    if special == 4:
        the_exe = _filled(exe, l_exe)
    else:
        assume(n_exe == 0 or exe == "e" * n_exe)      # slot unused: do not multiply paths
        the_exe = pick(list(cs.SpecialCommand), special)
    if not has_ens:
        assume(n_ens == 0 or ens == "e" * n_ens)
    cmd = cs.Command(the_exe, _filled(args, l_args), enabled=enabled, ensure_file=_filled(ens, l_ens) if has_ens else None,
                     use_proc_win=upw, no_wait=nowait)
    fixed = [cs.Command("$bsp_exe", "-game $gamedir $path\\$file", ensure_file=""),
             cs.Command(cs.SpecialCommand.COPY_FILE, "a b", enabled=False, use_proc_win=False, no_wait=True)]
    cmds = [cmd] + fixed[:ncmd - 1] if ncmd else []
    orig = _Seqs([(name, cmds), ("Other", fixed[:1] if ncmd == 0 else [])])
    f1 = _new_file()
    cs.write(orig, f1)
    first = f1.getvalue()
    f1.seek(0)
    parsed = cs.parse(f1)
    check(f1.read(1) == b"", "parser did not consume the whole file")
    check(list(parsed) == [name, "Other"], "sequence names", list(parsed))
    for (nm, want), got in zip(orig.items(), parsed.values()):
        check(len(want) == len(got), "command count", nm, len(got))
        for i in range(len(want)):
            _cmd_eq(want[i], got[i], i)
    f2 = _new_file()
    cs.write(parsed, f2)
    check(f2.getvalue() == first, "second generation output differs")


def h_cmdseq_witness(exe: str, args: str, ens: str, enabled: bool, upw: bool, nowait: bool, has_ens: bool, special: int,
                     name_i: int, n_exe: int, n_args: int, n_ens: int, l_exe: int, l_args: int, l_ens: int, ncmd: int = 2) -> None:
    h_cmdseq(exe, args, ens, enabled, upw, nowait, has_ens, special, name_i, n_exe, n_args, n_ens, l_exe, l_args, l_ens, ncmd)
    raise Fail("reached")


class _Seqs:
    """Ordered name -> commands mapping as `write` consumes it (len, items) without hashing anything."""
    def __init__(self, pairs):
        self.pairs = pairs

    def __len__(self):
        return len(self.pairs)

    def items(self):
        return list(self.pairs)


def _cmd_eq(want, got, i):
    check(type(got.exe) is type(want.exe), "exe kind", i, got.exe)
    if isinstance(want.exe, str):
        check(len(got.exe) == len(want.exe), "exe length", i, len(want.exe), len(got.exe))
    check(got.exe == want.exe, "exe", i, got.exe)
    check(len(got.args) == len(want.args), "args length", i, len(want.args), len(got.args))
    check(got.args == want.args, "args", i, got.args)
    check((got.ensure_file is None) == (want.ensure_file is None), "ensure_file presence", i)
    if want.ensure_file is not None:
        check(len(got.ensure_file) == len(want.ensure_file), "ensure_file length", i, len(want.ensure_file), len(got.ensure_file))
        check(got.ensure_file == want.ensure_file, "ensure_file", i, got.ensure_file)
    check(got.enabled is (True if want.enabled else False), "enabled", i)
    check(got.use_proc_win is (True if want.use_proc_win else False), "use_proc_win", i)
    check(got.no_wait is (True if want.no_wait else False), "no_wait", i)


# ------------------------------------------------------------------------------------------------------------
# choreo: scenes.image
# ------------------------------------------------------------------------------------------------------------

IMAGE_FILES = ["scenes/npc/alyx/greet01.vcd", "SCENES\\Intro.VCD", "outro.vcd"]
LAYOUTS = ["actor/actor", "event/chan", "param/param2", "sound/cc", "sound/sound2", "tag/flex", "actor/summary"]


def _latin1_nonul(s):
    assume(all([(ord(ch) > 0) & (ord(ch) < 256) for ch in s]))


def _speak(ch, name, sound, cc="", **kw):
    return ch.SpeakEvent(name=name, parameters=(sound, "", ""), start_time=0.5, end_time=1.5, ramp=ch.Curve(), cc_token=cc, **kw)


def _image_scenes(ch, layout, a, b, nent):
    """nent scenes; the two symbolic strings a, b sit in the slots named by `layout` (everything else concrete).
    Returns (scenes, explicit sound summaries or None)."""
    def look(name, target, p2="", p3=""):
        return ch.Event(name=name, type=ch.EventType.LookAt, parameters=(target, p2, p3), start_time=0.25, end_time=0.75,
                        ramp=ch.Curve([ch.ExpressionSample(0.5, 1.0)]))
    s = {k: v for k, v in dict(act0="Alyx", act1="alyx", ev0="look", chan1="Look", p0="!player", p1="", snd0="alyx.hello",
                               cc0="", snd1="ALYX.HELLO", tag="t", flex="T").items()}
    slot_a, slot_b = {"actor/actor": ("act0", "act1"), "event/chan": ("ev0", "chan1"), "param/param2": ("p0", "p1"),
                      "sound/cc": ("snd0", "cc0"), "sound/sound2": ("snd0", "snd1"), "tag/flex": ("tag", "flex"),
                      "actor/summary": ("act0", None)}[layout]
    s[slot_a] = a
    if slot_b is not None:
        s[slot_b] = b
    sc0 = ch.Scene(
        events=[look(s["ev0"], s["p0"], s["p1"])],
        actors=[ch.Actor(s["act0"], channels=[ch.Channel("audio", events=[_speak(ch, "greet", s["snd0"], s["cc0"])])])],
    )
    sc0.events[0].relative_tags.append(ch.Tag(s["tag"], 1.0))
    sc1 = ch.Scene(
        events=[ch.Event(name="flex", type=ch.EventType.FlexAnimation, parameters=("", "", ""), start_time=0.0, end_time=2.0,
                         ramp=ch.Curve(), flex_anim_tracks=[ch.FlexAnimTrack(s["flex"], mag_track=[ch.ExpressionSample(0.25, 0.0)])])],
        actors=[ch.Actor(s["act1"], active=False, channels=[ch.Channel(s["chan1"], active=False, events=[
            _speak(ch, "Greet", s["snd1"], "", caption_type=ch.CaptionType.Disabled)])])],
        ignore_phonemes=True, text_crc=0xDEADBEEF,
    )
    sc2 = ch.Scene()
    return [sc0, sc1, sc2][:nent]


def _sounds_of(scene):
    """Scene.used_sounds() deduplicated and sorted without hashing (Entry.from_scene uses sorted(set(...)))."""
    out = []
    for snd in scene.used_sounds():
        dup = False
        for o in out:
            if o == snd:
                dup = True
        if not dup:
            out.append(snd)
    for i in range(len(out)):            # insertion sort, comparisons only
        j = i
        while j > 0 and out[j] < out[j - 1]:
            out[j], out[j - 1] = out[j - 1], out[j]
            j -= 1
    return out


def h_image(a: str, b: str, na: int, nb: int, layout: str, version: int, nent: int = 2, order: int = 0, form: str = "list") -> None:
    """save_scenes_image_sync -> parse_scenes_image: entries sorted by checksum, every string of every scene and
    every summary reproduced exactly, summary consistent with the scene; re-saving the parsed image is identical."""
    import srctools.choreo as ch
    assume(len(a) == na and len(b) == nb)
    _latin1_nonul(a)
    _latin1_nonul(b)
    scenes = _image_scenes(ch, layout, a, b, nent)
    names = IMAGE_FILES[:nent]
    entries = []
    for nm, sc in zip(names, scenes):
        sounds = _sounds_of(sc)
        if layout == "actor/summary" and nm == names[-1]:
            sounds = sounds + [b]           # a summary string that occurs nowhere else
        entries.append(ch.Entry(filename=nm, checksum=ch.CRC(0), duration_ms=round(sc.duration() * 1000.0),
                                last_speak_ms=round(sc.duration(ch.EventType.Speak) * 1000.0), sounds=sounds, data=sc))
    if order:
        entries.reverse()
    want = {}
    for e in entries:
        check(e.checksum == ch.checksum_filename(e.filename), "Entry checksum validator")
        want[e.checksum] = (e.duration_ms, e.last_speak_ms if version == 3 else e.duration_ms, list(e.sounds), e.data)
    f1 = _new_file()
    if form == "list":
        arg = list(entries)
    elif form == "dict":            # the documented ScenesImage mapping, keys up to date
        arg = {e.checksum: e for e in entries}
    else:                           # a parsed mapping whose entries were renamed afterwards (Entry.filename recomputes the
        arg = {ch.CRC(i + 1): e for i, e in enumerate(entries)}     # checksum): the keys are stale and in insertion order
    ch.save_scenes_image_sync(f1, arg, version=version)
    first = f1.getvalue()
    f1.seek(0)
    parsed = ch.parse_scenes_image(f1)
    keys = list(parsed)
    check(keys == sorted(want), "entries not sorted by checksum / wrong checksums", keys)
    for crc in keys:
        ent = parsed[crc]
        dur, last, sounds, scene = want[crc]
        check(ent.checksum == crc and ent.filename == "", "entry key")
        check(ent.duration_ms == dur, "duration_ms", ent.duration_ms, dur)
        check(ent.last_speak_ms == last, "last_speak_ms", ent.last_speak_ms, last)
        _deep_eq(ent.sounds, sounds, "sounds")
        got = ent.data
        _deep_eq(got, scene, "scene")
        # summary consistent with the scene that was read back
        check(ent.duration_ms == round(got.duration() * 1000.0), "summary duration inconsistent with scene")
        if layout != "actor/summary":
            _deep_eq(ent.sounds, _sounds_of(got), "summary sounds vs scene")
    f1.seek(0)
    again = ch.parse_scenes_image(f1)
    f2 = _new_file()
    ch.save_scenes_image_sync(f2, again, version=version)
    check(f2.getvalue() == first, "re-saving the parsed image changed the bytes")


def h_image_witness(a: str, b: str, na: int, nb: int, layout: str, version: int, nent: int = 2, order: int = 0, form: str = "list") -> None:
    h_image(a, b, na, nb, layout, version, nent, order, form)
    raise Fail("reached")


def _deep_eq(got, want, path):
    import attrs
    if attrs.has(type(want)):
        check(type(got) is type(want), "type at " + path, type(got).__name__)
        for f in attrs.fields(type(want)):
            _deep_eq(getattr(got, f.name), getattr(want, f.name), path + "." + f.name)
    elif isinstance(want, (list, tuple)):
        check(isinstance(got, (list, tuple)) and len(got) == len(want), "length at " + path, len(want))
        for i in range(len(want)):
            _deep_eq(got[i], want[i], f"{path}[{i}]")
    elif isinstance(want, dict):
        check(isinstance(got, dict) and len(got) == len(want), "dict size at " + path)
        for (k1, v1), (k2, v2) in zip(got.items(), want.items()):
            _deep_eq(k1, k2, path + ".key")
            _deep_eq(v1, v2, f"{path}[{k2!r}]")
    elif isinstance(want, str):
        check(isinstance(got, str), "str expected at " + path)
        check(len(got) == len(want), "string length at " + path, len(got), len(want))
        check(got == want, "string differs at " + path, got, want)
    elif want is None or isinstance(want, bool):
        check(got is want or (isinstance(want, bool) and got == want and isinstance(got, bool)), "value at " + path, got, want)
    else:
        check(got == want, "value at " + path, got, want)


# ------------------------------------------------------------------------------------------------------------
# choreo: binary scenes (BVCD)
# ------------------------------------------------------------------------------------------------------------

BVCD_FLAGS = [0, 1, 8, 0b110110, 63]


def h_bvcd(s: str, active: bool, chan_active: bool, ignore_ph: bool, has_tag: bool, has_dir: bool, trk_active: bool,
           comb: bool, gender: bool, supp: bool, etype: int, cap: int, n: int, flag_i: int = 0, mode: str = "kinds",
           tag_empty: bool = False) -> None:
    """Scene.export_binary -> Scene.parse_binary reproduces the scene field by field (event kind by symbolic index over all
    19 EventType members incl. the Gesture/Loop/Speak subclasses, optional relative-tag block, optional direction track,
    activity flags, caption type and speak flags, one symbolic pool string); exporting the parsed scene again is identical."""
    import srctools.binformat as bf
    import srctools.choreo as ch
    assume(len(s) == n)
    _latin1_nonul(s)
    assume(0 <= etype < 19 and 0 <= cap < 3)
    # the symbolic dimensions are explored in three groups (their full product is ~10^4 paths and adds nothing:
    # the groups touch disjoint writer/reader code)
    if mode == "kinds":        # event kind x optional relative-tag block x optional direction track
        assume(active and chan_active and trk_active and not ignore_ph and not comb and not gender and not supp and cap == 0)
    elif mode == "speak":      # caption type x speak flags x relative-tag block
        assume(etype == 5 and active and chan_active and trk_active and not ignore_ph and not has_dir)
    else:                      # activity flags of actor / channel / track / scene
        assume(etype == 8 and not has_tag and cap == 0 and not comb and not gender and not supp)
    et = pick(list(ch.EventType), etype)
    common = dict(
        name=s, parameters=("p1", s, ""), start_time=0.25, end_time=-1.0 if etype % 2 else 2.5,
        ramp=ch.Curve([ch.ExpressionSample(0.5, 1.0), ch.ExpressionSample(1.0, 0.2)]), flags=ch.EventFlags(BVCD_FLAGS[flag_i]),
        dist_to_targ=12.5, tag_name=("" if tag_empty else "tag") if has_tag else None, tag_wav_name=("" if tag_empty else "wav.wav") if has_tag else None,
        relative_tags=[ch.Tag("rel", 0.6)], timing_tags=[ch.TimingTag("tim", 1.0), ch.TimingTag(s, 0.0)],
        absolute_playback_tags=[ch.AbsoluteTag("abs", 0.5)], absolute_shifted_tags=[ch.AbsoluteTag("shift", 0.75)],
        flex_anim_tracks=[ch.FlexAnimTrack(
            "flex", active=trk_active, min=-1.0, max=0.5,
            mag_track=[ch.ExpressionSample(0.125, 0.4, ch.CurveType(ch.Interpolation.HOLD, ch.Interpolation.EASE_IN))],
            dir_track=[ch.ExpressionSample(0.5, 1.0)] if has_dir else None)],
    )
    if et is ch.EventType.Speak:
        assume(not (cap == 2 and comb))      # use_combined_file is not stored for cc_disabled events (format limitation)
        ev = ch.SpeakEvent(caption_type=pick(list(ch.CaptionType), cap), cc_token="cc." + "tok", use_combined_file=comb,
                           use_gender_token=gender, suppress_caption_attenuation=supp, **common)
    else:
        assume(cap == 0 and not comb and not gender and not supp)
        if et is ch.EventType.Gesture:
            ev = ch.GestureEvent(gesture_sequence_duration=1.75, **common)
        elif et is ch.EventType.Loop:
            ev = ch.LoopEvent(loop_count=-1, **common)
        else:
            ev = ch.Event(type=et, **common)
    scene = ch.Scene(
        events=[ev],
        actors=[ch.Actor("act", active, [ch.Channel(s, chan_active, []), ch.Channel("c2", True, [
            ch.Event(name="e2", type=ch.EventType.Section, parameters=("", "", ""), start_time=0.0, ramp=ch.Curve())])])],
        ramp=ch.Curve([ch.ExpressionSample(0.0, 0.0)]), ignore_phonemes=ignore_ph, text_crc=0x89ABCDEF,
    )
    pool = []
    data = scene.export_binary(bf.find_or_insert(pool, lambda x: x))
    f = _new_file(data)
    got = ch.Scene.parse_binary(f, pool)
    check(f.read(1) == b"", "parser did not consume the whole scene")
    _deep_eq(got, scene, "scene")
    pool2 = list(pool)
    data2 = got.export_binary(bf.find_or_insert(pool2, lambda x: x))
    check(data2 == data, "second generation scene bytes differ")
    check(len(pool2) == len(pool), "second generation grew the string pool")


def h_bvcd_witness(s: str, active: bool, chan_active: bool, ignore_ph: bool, has_tag: bool, has_dir: bool, trk_active: bool,
                   comb: bool, gender: bool, supp: bool, etype: int, cap: int, n: int, flag_i: int = 0, mode: str = "kinds",
                   tag_empty: bool = False) -> None:
    h_bvcd(s, active, chan_active, ignore_ph, has_tag, has_dir, trk_active, comb, gender, supp, etype, cap, n, flag_i, mode, tag_empty)
    raise Fail("reached")


# ------------------------------------------------------------------------------------------------------------
# text formats: shared helpers
# ------------------------------------------------------------------------------------------------------------

class AssocDict:
    """dict stand-in for mappings the real code keys by a *symbolic* str (`Material._params`, `Mesh.bones`): an insertion-ordered
    association list searched by ==.  For str keys this is dict semantics (hash is only an accelerator); compared with a real
    dict on every worker start (_selftest_assoc)."""
    def __init__(self, pairs=()):
        self._k = []
        self._v = []
        for k, v in (pairs.items() if hasattr(pairs, "items") else pairs):
            self[k] = v

    def _find(self, q):
        for i in range(len(self._k)):
            if self._k[i] == q:
                return i
        return -1

    def __getitem__(self, q):
        i = self._find(q)
        if i < 0:
            raise KeyError(q)
        return self._v[i]

    def __setitem__(self, q, v):
        i = self._find(q)
        if i < 0:
            self._k.append(q)
            self._v.append(v)
        else:
            self._v[i] = v

    def __delitem__(self, q):
        i = self._find(q)
        if i < 0:
            raise KeyError(q)
        del self._k[i]
        del self._v[i]

    def __contains__(self, q):
        return self._find(q) >= 0

    def __iter__(self):
        return iter(list(self._k))

    def __len__(self):
        return len(self._k)

    def keys(self):
        return list(self._k)

    def values(self):
        return list(self._v)

    def items(self):
        return list(zip(self._k, self._v))


def _selftest_assoc():
    ops = [("set", "a", 1), ("set", "B", 2), ("set", "a", 3), ("get", "a", 0), ("get", "x", 0), ("del", "B", 0), ("del", "q", 0),
           ("set", "", 4), ("in", "", 0), ("in", "b", 0), ("set", "B", 5)]
    d, m = {}, AssocDict()
    for op, k, v in ops:
        res = []
        for obj in (d, m):
            try:
                if op == "set":
                    obj[k] = v
                    res.append(None)
                elif op == "get":
                    res.append(obj[k])
                elif op == "del":
                    del obj[k]
                    res.append(None)
                else:
                    res.append(k in obj)
            except KeyError:
                res.append(KeyError)
        if res[0] != res[1] or list(d) != list(m) or list(d.values()) != m.values() or list(d.items()) != m.items() or len(d) != len(m):
            print("AssocDict differs from dict", op, k)
            raise SystemExit(2)


def _slot(sym, n, const):
    """A string slot: the symbolic argument at exact length n, or (n == -1) the constant; the unused symbolic argument is pinned
    to '' so that it does not multiply paths."""
    if n < 0:
        assume(len(sym) == 0)
        return const
    assume(len(sym) == n)
    return sym


def _none_of(s, chars):
    """No character of s is one of `chars` (one solver term per character, no fork)."""
    for c in chars:
        o = ord(c)
        assume(all([ord(ch) != o for ch in s]))


ESCAPED_CHARS = '\t\x0b\x08\r\x0c\x07\\\'"\n'


def has_escapable(s):
    """True when escape_text() would alter s (used by known-finding regions: text written through Keyvalues.serialise into a
    file that is read without escape processing)."""
    for ch in s:
        for c in ESCAPED_CHARS:
            if ch == c:
                return True
    return False


def _str_eq(got, want, what):
    check(isinstance(got, str), "str expected: " + what)
    check(len(got) == len(want), "string length: " + what, len(got), len(want))
    check(got == want, "string differs: " + what, got, want)


def _kv_eq(got, want, path):
    """Keyvalues trees equal: real names, leaf values, child order."""
    _str_eq(got.real_name, want.real_name, path + ".name")
    check(got.has_children() == want.has_children(), "leaf/block kind at " + path)
    if want.has_children():
        g, w = list(got), list(want)
        check(len(g) == len(w), "child count at " + path, len(g), len(w))
        for i in range(len(w)):
            _kv_eq(g[i], w[i], f"{path}[{i}]")
    else:
        _str_eq(got.value, want.value, path + ".value")


def _same_pieces(p1, p2, what):
    """Second-generation output identical, compared write by write (no concatenation of symbolic text)."""
    check(len(p1) == len(p2), what + ": number of writes differs", len(p1), len(p2))
    for i in range(len(p1)):
        check(len(p1[i]) == len(p2[i]), what + ": second generation output differs (length)", i, p1[i], p2[i])
        check(p1[i] == p2[i], what + ": second generation output differs", i, p1[i], p2[i])


# ------------------------------------------------------------------------------------------------------------
# soundscripts
# ------------------------------------------------------------------------------------------------------------

def _snd_tables():
    import srctools.sndscript as ss
    L, P, V = ss.Level, ss.Pitch, ss.VOL_NORM
    levels = [(m, m) for m in L] + [(L.SNDLVL_20dB, L.SNDLVL_180dB), (75.0, 75.0), (0.5, L.SNDLVL_IDLE), (60.0, 80.5), (L.SNDLVL_NONE, 0.0)]
    levels.insert(0, levels.pop(levels.index((L.SNDLVL_NORM, L.SNDLVL_NORM))))
    vols = [(V, V), (1.0, 1.0), (0.5, 0.5), (0.25, 0.75), (V, 0.5), (1.0, V), (0.0, 0.0)]
    pitches = [(P.PITCH_NORM, P.PITCH_NORM), (100.0, 100.0), (P.PITCH_LOW, P.PITCH_HIGH), (95.0, 95.0), (90.0, 110.5), (P.PITCH_HIGH, 120.0),
               (100.0, P.PITCH_HIGH), (255.0, 1.0)]
    chans = list(ss.Channel) + [0, 7, 136, -1]
    return levels, vols, pitches, chans


SND_WAVS = [")weapons/fire1.wav", "*#vo/npc/line 02.wav", "common/null.wav"]


def _stack(sval, key="input2"):
    from srctools.keyvalues import Keyvalues
    return Keyvalues("", [Keyvalues("import_stack", "CS_update_start"),
                          Keyvalues("mixer", [Keyvalues("mixgroup", "Weapons"), Keyvalues(key, sval)])])


def _snd_pair_eq(got, want, what):
    import enum
    for i in (0, 1):
        g, w = got[i], want[i]
        if isinstance(w, enum.Enum) and not isinstance(w, float):
            check(g is w, what + ": enum member", i, g, w)
        else:
            check(not (isinstance(g, enum.Enum) and not isinstance(g, float)), what + ": number became a constant", i, g, w)
            check(g == w, what, i, g, w)


def h_snd(name: str, wav: str, sval: str, force_v2: bool, st_start: bool, st_update: bool, st_stop: bool,
          chan_i: int, lvl_i: int, vol_i: int, pit_i: int,
          n_name: int, n_wav: int, n_sval: int, nwav: int = 1, dim: str = "", esc: int = 0, stacks: int = 0) -> None:
    """Sound.export -> Keyvalues.parse(allow_escapes=esc; 0 is what srctools.packlist and the engine use for soundscript files)
    -> Sound.parse / parse_one gives an equal Sound, and exporting that again writes the same text.  Two sounds per file; the
    first has symbolic name / wave / operator-stack leaf (exact lengths; n == -1: constant), channel / level / volume / pitch by
    symbolic index along ONE dimension (`dim`), 0-3 waves, force_v2 and the three operator stacks symbolic when stacks=1."""
    import srctools.sndscript as ss
    from srctools.keyvalues import Keyvalues
    levels, vols, pitches, chans = _snd_tables()
    the_name = _slot(name, n_name, "Weapon.Fire")
    the_wav = _slot(wav, n_wav, SND_WAVS[0])
    the_sval = _slot(sval, n_sval, "0.35")
    # representable domain: the name and the waves are written raw between quotes
    _none_of(the_name, '"\n\r') if n_name >= 0 else None
    _none_of(the_wav, '"\r') if n_wav >= 0 else None
    if esc:   # an escape-processing reader: a raw backslash is not literal
        _none_of(the_name, '\\') if n_name >= 0 else None
        _none_of(the_wav, '\\') if n_wav >= 0 else None
    assume(0 <= chan_i < len(chans) and 0 <= lvl_i < len(levels) and 0 <= vol_i < len(vols) and 0 <= pit_i < len(pitches))
    assume(dim == "chan" or chan_i == 0)
    assume(dim == "level" or lvl_i == 0)
    assume(dim == "volume" or vol_i == 0)
    assume(dim == "pitch" or pit_i == 0)
    if not stacks:
        assume(not force_v2 and not st_start and not st_update and not st_stop)
    if not (st_start or st_update or st_stop):
        assume(n_sval < 0)
    snd = ss.Sound(the_name, [the_wav, SND_WAVS[1], SND_WAVS[2]][:nwav], volume=pick(vols, vol_i), channel=pick(chans, chan_i),
                   level=pick(levels, lvl_i), pitch=pick(pitches, pit_i),
                   stack_start=_stack(the_sval, "input1") if st_start else None,
                   stack_update=_stack(the_sval) if st_update else None,
                   stack_stop=_stack("1", "x y") if st_stop else None, force_v2=force_v2)
    other = ss.Sound("Other.Sound", ["a.wav", "b.wav"], volume=0.5, level=ss.Level.SNDLVL_IDLE, pitch=(90.0, 110.0))
    origs = [snd, other]
    sink = ChunkSink()
    for s in origs:
        s.export(sink)
    try:
        tree = Keyvalues.parse(sink.parts, allow_escapes=bool(esc))
    except Exception as e:
        raise Fail(f"exported soundscript does not parse: {type(e).__name__}: {e}")
    kvs = list(tree)
    check(len(kvs) == 2, "number of sounds in the file", len(kvs))
    if n_name < 0:
        table = ss.Sound.parse(tree)
        check(list(table) == ["weapon.fire", "other.sound"], "Sound.parse keys", list(table))
        gots = list(table.values())
    else:
        gots = [ss.Sound.parse_one(k) for k in kvs]
    for got, want in zip(gots, origs):
        _str_eq(got.name, want.name, "sound name")
        check(len(got.sounds) == len(want.sounds), "wave count", len(got.sounds), len(want.sounds))
        for i in range(len(want.sounds)):
            _str_eq(got.sounds[i], want.sounds[i], f"wave {i}")
        check(type(got.channel) is type(want.channel) and got.channel == want.channel, "channel", got.channel, want.channel)
        _snd_pair_eq(got.level, want.level, "level")
        _snd_pair_eq(got.volume, want.volume, "volume")
        _snd_pair_eq(got.pitch, want.pitch, "pitch")
        v2 = bool(want.force_v2 or want.stack_start or want.stack_update or want.stack_stop)
        check(got.force_v2 is v2, "soundentry version", got.force_v2, v2)
        for attr in ("stack_start", "stack_update", "stack_stop"):
            g, w = list(getattr(got, attr)), list(getattr(want, attr))
            check(len(g) == len(w), attr + " size", len(g), len(w))
            for i in range(len(w)):
                _kv_eq(g[i], w[i], f"{attr}[{i}]")
    sink2 = ChunkSink()
    for s in gots:
        s.export(sink2)
    _same_pieces(sink.parts, sink2.parts, "soundscript")


def h_snd_witness(name: str, wav: str, sval: str, force_v2: bool, st_start: bool, st_update: bool, st_stop: bool,
                  chan_i: int, lvl_i: int, vol_i: int, pit_i: int,
                  n_name: int, n_wav: int, n_sval: int, nwav: int = 1, dim: str = "", esc: int = 0, stacks: int = 0) -> None:
    h_snd(name, wav, sval, force_v2, st_start, st_update, st_stop, chan_i, lvl_i, vol_i, pit_i, n_name, n_wav, n_sval, nwav, dim, esc, stacks)
    raise Fail("reached")


# ------------------------------------------------------------------------------------------------------------
# VMT materials
# ------------------------------------------------------------------------------------------------------------

def _material_class():
    """Material whose parameter table is an AssocDict while symbolic (the real dict hashes the folded name); the real
    __init__/__setitem__/parse/export run unchanged."""
    import srctools.vmt as vmt

    class Mat(vmt.Material):
        def __init__(self, shader, params=(), blocks=(), proxies=()):
            super().__init__(shader, blocks=blocks, proxies=proxies)
            if _ENGINE == "chx":
                self._params = AssocDict()
            for k, v in (params.items() if hasattr(params, "items") else params):
                self[k] = v
    return Mat


def h_vmt(shader: str, pname: str, pval: str, bval: str, has_block: bool, has_proxy: bool,
          n_sh: int, n_pn: int, n_pv: int, n_bv: int, npar: int = 4, low: int = 1) -> None:
    """Material.export -> Material.parse: shader, parameters (names with their case, values, order), fallback blocks and proxies
    equal; exporting the parsed material writes the same text."""
    import srctools.tokenizer as tk
    from srctools.keyvalues import Keyvalues
    Mat = _material_class()
    sh = _slot(shader, n_sh, "VertexLitGeneric")
    pn = _slot(pname, n_pn, "$BaseTexture2")
    pv = _slot(pval, n_pv, "dev/dev_measure wall01")
    bv = _slot(bval, n_bv, "0.25")
    if not (has_block or has_proxy):
        assume(n_bv < 0)
    # representable domain: the shader is written bare; names/values are quoted as needed but the format has no escapes
    if n_sh >= 0:
        assume(n_sh > 0)
        _none_of(sh, '"\r')
        assume(sh[0] != '\ufeff')      # a byte order mark at the start of the file is skipped by every reader
    if n_pn >= 0:
        _none_of(pn, '"\r')
        if low:
            assume(all([ord(ch) < 128 for ch in pn]))
    if n_pv >= 0:
        _none_of(pv, '"\r')
    params = [("$basetexture", "models/props/box"), ("$envmaptint", "[1 .5 .25]"), ("%compilenodraw", ""), (pn, pv), ("$Alpha", "0.5")]
    if npar < 4:
        params = params[3:3 + npar]
    blocks = [Keyvalues("VertexLitGeneric_DX8", [Keyvalues("$fallbackmaterial", bv), Keyvalues("inner", [Keyvalues("$x", "1")])])] if has_block else []
    proxies = [Keyvalues("Sine", [Keyvalues("resultVar", "$alpha"), Keyvalues("sineperiod", bv)]), Keyvalues("Empty", [])] if has_proxy else []
    # parameter names must be distinct modulo case (they are keys)
    if n_pn >= 0:
        for k, _v in params:
            if k is not pn:
                assume(pn.casefold() != k.casefold())
    mat = Mat(sh, params, blocks, proxies)
    check(len(mat) == len(params), "harness: parameter count")
    sink = ChunkSink()
    mat.export(sink)
    try:
        got = Mat.parse(sink.parts)
    except Exception as e:
        raise Fail(f"exported material does not parse: {type(e).__name__}: {e}")
    _str_eq(got.shader, sh, "shader")
    gp = got._params.values()
    gp = list(gp)
    check(len(gp) == len(params), "parameter count", len(gp), len(params))
    for i, (k, v) in enumerate(params):
        _str_eq(gp[i].name, k, f"parameter name {i}")
        _str_eq(gp[i].value, v, f"parameter value {i}")
        _str_eq(got[k], v, f"lookup of parameter {i}")
    check(len(got.blocks) == len(blocks), "block count", len(got.blocks))
    for i in range(len(blocks)):
        _kv_eq(got.blocks[i], blocks[i], f"blocks[{i}]")
    check(len(got.proxies) == len(proxies), "proxy count", len(got.proxies))
    for i in range(len(proxies)):
        _kv_eq(got.proxies[i], proxies[i], f"proxies[{i}]")
    sink2 = ChunkSink()
    got.export(sink2)
    _same_pieces(sink.parts, sink2.parts, "vmt")


VMT_SPECIALS = None


def h_vmt_specials(ci: int, where: int) -> None:
    """Delimiter characters by symbolic index: each member of the tokenizer's BARE_DISALLOWED set (plus '/', '#', ':', '+') placed
    inside a shader / parameter name / parameter value that has no other reason to be quoted. Concrete strings, so a writer
    that decides quoting with a regular expression or any other C-level test is executed for real (enumeration, stated)."""
    import srctools.tokenizer as tk
    from vf.props.c08 import pick
    specials = sorted(set(tk.BARE_DISALLOWED) - set('"\r\n')) + ["/", "#", ":", "+", "$", "%"]
    c = pick(specials, ci)
    w = pick([0, 1, 2], where)
    text = "x" + c + "y"
    if w == 0:
        h_vmt(text, "", "", "", False, False, 3, -1, -1, -1)
    elif w == 1:
        h_vmt("", text, "", "", False, False, -1, 3, -1, -1)
    else:
        h_vmt("", "", text, "", False, False, -1, -1, 3, -1)


def h_vmt_witness(shader: str, pname: str, pval: str, bval: str, has_block: bool, has_proxy: bool,
                  n_sh: int, n_pn: int, n_pv: int, n_bv: int, npar: int = 4, low: int = 1) -> None:
    h_vmt(shader, pname, pval, bval, has_block, has_proxy, n_sh, n_pn, n_pv, n_bv, npar, low)
    raise Fail("reached")


# ------------------------------------------------------------------------------------------------------------
# choreo: text scenes (VCD)
# ------------------------------------------------------------------------------------------------------------

VCD_SLOTS = ["ev_name", "param", "param2", "param3", "actor", "channel", "faceposer", "map_name", "tag", "timing_tag", "abs_tag",
             "cc_token", "scale_val", "rel_tag", "rel_wav", "chan_ev_name"]
VCD_SCALE_KEYS = ["CChoreoView", "Ramp Tool", 'a\\b "q"']


def h_vcd(s: str, active: bool, chan_active: bool, ignore_ph: bool, snap: bool, has_tag: bool, has_ramp: bool, edge: bool,
          comb: bool, gender: bool, supp: bool, locked: bool, etype: int, cap: int, n: int, slot: str = "ev_name",
          flag_i: int = 0, mode: str = "kinds", skey: int = 0) -> None:
    """Scene.export_text -> Tokenizer -> Scene.parse_text reproduces the scene field by field (everything the text form stores:
    all 19 event kinds with their subclasses, tags of the four kinds, ramps with edges and curve types, relative tag, pitch/yaw,
    caption fields, activity flags, map name, fps, snap, scale settings); exporting the parsed scene writes the same text.
    One symbolic string (every code point, exact length) in the slot named by `slot`."""
    import srctools.choreo as ch
    from srctools.tokenizer import Tokenizer
    s = _slot(s, n, None)
    assume(0 <= etype < 19 and 0 <= cap < 3)
    if mode == "str":          # the symbolic string in one slot of a fixed, fully populated skeleton
        assume(etype == (5 if slot == "cc_token" else 3) and has_tag and has_ramp and edge and locked and cap == 0)
        assume(active and chan_active and not ignore_ph and not snap and not comb and not gender and not supp)
    elif mode == "kinds":      # event kind x relative tag x event ramp (with edges)
        assume(active and chan_active and not ignore_ph and not snap and not comb and not gender and not supp and not locked and cap == 0)
    elif mode == "speak":      # caption type x speak flags
        assume(etype == 5 and active and chan_active and not ignore_ph and not snap and not has_tag and has_ramp and not edge and not locked)
    else:                      # activity flags, scene switches, tag lock
        assume(etype == 8 and not has_tag and has_ramp and not edge and cap == 0 and not comb and not gender and not supp)
    assume(has_ramp or not edge)    # an event ramp without samples is not written at all (see the report)
    v = {k: None for k in VCD_SLOTS}
    v.update(ev_name="look at", param="!player", param2="", param3="", actor="Alyx", channel="audio", faceposer="", map_name="",
             tag="rel", timing_tag="tim", abs_tag="abs", cc_token="cc.tok", scale_val="100", rel_tag="tag", rel_wav="wav.wav",
             chan_ev_name="e2")
    if s is not None:
        v[slot] = s
    et = pick(list(ch.EventType), etype)
    ctype = ch.CurveType(ch.Interpolation.HOLD, ch.Interpolation.EASE_IN)
    ramp = ch.Curve([ch.ExpressionSample(0.5, 1.0), ch.ExpressionSample(1.0, 0.25, ctype)] if has_ramp else [],
                    left=ch.CurveEdge(True, 0.5, ctype) if edge else ch.CurveEdge(False),
                    right=ch.CurveEdge(True, 0.0) if edge else ch.CurveEdge(False))
    common = dict(
        name=v["ev_name"], parameters=(v["param"], v["param2"], v["param3"]), start_time=0.25, end_time=-1.0 if etype % 2 else 2.5,
        ramp=ramp, flags=ch.EventFlags(BVCD_FLAGS[flag_i]), dist_to_targ=12.5, pitch=15 if etype % 3 else 0, yaw=-20 if etype % 2 else 0,
        tag_name=v["rel_tag"] if has_tag else None, tag_wav_name=v["rel_wav"] if has_tag else None,
        relative_tags=[ch.Tag(v["tag"], 0.5), ch.Tag("second", 1.0)], timing_tags=[ch.TimingTag(v["timing_tag"], 0.25, locked), ch.TimingTag("t2", 0.0, True)],
        absolute_playback_tags=[ch.AbsoluteTag(v["abs_tag"], 0.5)], absolute_shifted_tags=[ch.AbsoluteTag("shift", 0.75)],
    )
    if et is ch.EventType.Speak:
        assume(not (cap == 2 and comb))      # use_combined_file is not stored for cc_disabled events (format limitation)
        ev = ch.SpeakEvent(caption_type=pick(list(ch.CaptionType), cap), cc_token=v["cc_token"], use_combined_file=comb,
                           use_gender_token=gender, suppress_caption_attenuation=supp, **common)
    else:
        assume(cap == 0 and not comb and not gender and not supp)
        if et is ch.EventType.Gesture:
            ev = ch.GestureEvent(gesture_sequence_duration=1.75, **common)
        elif et is ch.EventType.Loop:
            ev = ch.LoopEvent(loop_count=3, **common)
        else:
            ev = ch.Event(type=et, **common)
    scene = ch.Scene(
        events=[ev],
        actors=[ch.Actor(v["actor"], active, [ch.Channel(v["channel"], chan_active, []), ch.Channel("c2", True, [
            ch.Event(name=v["chan_ev_name"], type=ch.EventType.Section, parameters=("", "", ""), start_time=0.0, ramp=ch.Curve())])],
            faceposer_model=v["faceposer"])],
        ramp=ch.Curve([ch.ExpressionSample(0.0, 0.0)], left=ch.CurveEdge(True, 1.0)), ignore_phonemes=ignore_ph,
        map_name=v["map_name"], fps=30, use_frame_snap=snap, scale_settings={VCD_SCALE_KEYS[skey]: v["scale_val"], "GestureTool": "50"},
    )
    sink = ChunkSink()
    scene.export_text(sink)
    try:
        got = ch.Scene.parse_text(Tokenizer(sink.parts))
    except Exception as e:
        raise Fail(f"exported scene does not parse: {type(e).__name__}: {e}")
    _deep_eq(got, scene, "scene")
    sink2 = ChunkSink()
    got.export_text(sink2)
    _same_pieces(sink.parts, sink2.parts, "vcd")


def h_vcd_witness(s: str, active: bool, chan_active: bool, ignore_ph: bool, snap: bool, has_tag: bool, has_ramp: bool, edge: bool,
                  comb: bool, gender: bool, supp: bool, locked: bool, etype: int, cap: int, n: int, slot: str = "ev_name",
                  flag_i: int = 0, mode: str = "kinds", skey: int = 0) -> None:
    h_vcd(s, active, chan_active, ignore_ph, snap, has_tag, has_ramp, edge, comb, gender, supp, locked, etype, cap, n, slot, flag_i, mode, skey)
    raise Fail("reached")


# ------------------------------------------------------------------------------------------------------------
# SMD meshes
# ------------------------------------------------------------------------------------------------------------

SMD_BONES = ["root", "Bip01 Spine", "ValveBiped.Bip01_L_Hand", "a'b", "", "x.y{z}"]


def _byte_lines(pieces):
    """The written pieces as a binary file iterates them: lines ending in LF.  Concrete pieces are split natively; the one
    symbolic piece (material name + LF; LF inside the name is excluded by precondition) is a line end by construction."""
    lines, cur = [], []
    for p in pieces:
        if _concrete_bytes(p):
            parts = p.split(b"\n")
            for seg in parts[:-1]:
                cur.append(seg + b"\n")
                lines.append(b"".join(cur) if len(cur) > 1 else cur[0])
                cur = []
            if parts[-1]:
                cur.append(parts[-1])
        else:
            cur.append(p)
            lines.append(cur[0] if len(cur) == 1 else _cat(cur))
            cur = []
    if cur:
        lines.append(b"".join(cur))
    return lines


def _cat(parts):
    out = parts[0]
    for x in parts[1:]:
        out = out + x
    return out


def _concrete_bytes(b):
    if _ENGINE != "chx":
        return True
    from crosshair.tracers import NoTracing
    with NoTracing():
        return type(b) is bytes


def h_smd(mat: str, multi: bool, has_tri: bool, two_frames: bool, bone_i: int, bord: int, n: int, pre: str = "") -> None:
    """Mesh.export -> Mesh.parse_smd reproduces bones (names, parents), animation frames and triangles (material, positions,
    normals, UVs, bone links and weights); exporting the parsed mesh writes the same bytes.  Material name symbolic (ASCII,
    exact length; n == -1: constant), third bone's name by symbolic index, single/multiple bone links, with/without triangles."""
    import srctools.smd as smd
    from srctools.math import Angle, Vec
    the_mat = _slot(mat, n, "models/props/metal_box")
    if n >= 0:
        # what a line-oriented format without quoting can carry as a material name (see the report)
        assume(all([(ord(ch) > 32) & (ord(ch) < 127) for ch in the_mat]))
        _none_of(the_mat, "#;.")
        assume(n > 0 and the_mat != "end" and the_mat[n - 1] != "\\" and the_mat[n - 1] != "/")
        for i in range(n - 1):
            assume(not (the_mat[i] == "/" and the_mat[i + 1] == "/"))
        # `pre`: a concrete beginning that reads like one of the format's own keywords ("end", "time", "version")
        the_mat = pre + the_mat
    if not has_tri:
        assume(not multi and n < 0)
    root = smd.Bone("root", None)
    arm = smd.Bone("Arm_L", root)
    hand = smd.Bone(pick(SMD_BONES[1:], bone_i), arm)
    bones = [root, arm, hand]
    def frame(k):
        return [smd.BoneFrame(b, Vec(1.5 * k, -2.25, i), Angle(0.0, 0.0, 0.0)) for i, b in enumerate(bones)]
    anim = {0: frame(0)}
    if two_frames:
        anim[7] = frame(1)
        anim[3] = frame(2)

    def vert(i):
        links = [(arm, 0.75), (hand, 0.25)] if multi and i != 1 else [(hand if i == 2 else root, 1.0)]
        return smd.Vertex(Vec(16.0 * i, -8.5, 0.125), Vec(0.0, 0.0, 1.0), 0.5, 0.25 * i, links)
    tris = [smd.Triangle(the_mat, vert(0), vert(1), vert(2)), smd.Triangle("tools/toolsnodraw", vert(2), vert(1), vert(0))] if has_tri else []
    # the bones mapping may list the bones in any order (a child before its parent, e.g. a root added later)
    perm = pick([(0, 1, 2), (0, 2, 1), (1, 0, 2), (1, 2, 0), (2, 0, 1), (2, 1, 0)], bord)
    mesh = smd.Mesh({bones[i].name: bones[i] for i in perm}, anim, tris)
    sink = ChunkSink()
    mesh.export(sink)
    try:
        got = smd.Mesh.parse_smd(_byte_lines(sink.parts))
    except Exception as e:
        raise Fail(f"exported SMD does not parse: {type(e).__name__}: {e}")
    check(sorted(got.bones) == sorted(b.name for b in bones), "bone names", list(got.bones))
    for b in bones:
        g = got.bones[b.name]
        check(g.name == b.name, "bone name", g.name)
        check((g.parent.name if g.parent else None) == (b.parent.name if b.parent else None), "bone parent", b.name)
    check(sorted(got.animation) == sorted(anim), "frame times", list(got.animation))
    for t, fr in anim.items():
        gf = got.animation[t]
        check(len(gf) == len(fr), "frame size", t)
        for a, w in zip(gf, fr):
            check(a.bone.name == w.bone.name and a.position == w.position and a.rotation == w.rotation, "bone frame", t, w.bone.name)
    check(len(got.triangles) == len(tris), "triangle count", len(got.triangles))
    for gt, wt in zip(got.triangles, tris):
        _str_eq(gt.mat, wt.mat, "triangle material")
        for gv, wv in zip(gt, wt):
            check(gv.pos == wv.pos and gv.norm == wv.norm and gv.tex_u == wv.tex_u and gv.tex_v == wv.tex_v, "vertex", gv, wv)
            check(len(gv.links) == len(wv.links), "vertex link count", len(gv.links), len(wv.links))
            for (gb, gw), (wb, ww) in zip(gv.links, wv.links):
                check(gb.name == wb.name and gw == ww, "vertex link", gb.name, gw, wb.name, ww)
    sink2 = ChunkSink()
    got.export(sink2)
    check(len(sink2.parts) == len(sink.parts), "smd: number of writes differs")
    for a, b in zip(sink.parts, sink2.parts):
        check(len(a) == len(b), "smd: second generation output differs (length)", a, b)
        check(a == b, "smd: second generation output differs", a, b)


def h_smd_witness(mat: str, multi: bool, has_tri: bool, two_frames: bool, bone_i: int, bord: int, n: int, pre: str = "") -> None:
    h_smd(mat, multi, has_tri, two_frames, bone_i, bord, n, pre)
    raise Fail("reached")


# ------------------------------------------------------------------------------------------------------------
# PCF particles (on DMX)
# ------------------------------------------------------------------------------------------------------------

PCF_NAMES = ["sys_A", "Child One", "fx/spark"]
PCF_ATTR_NAMES = ["max_particles", "Visibility Proxy Radius", "material"]     # attribute names are keys: by index


def _pcf_sig(p, fold_attr_names):
    """Everything a Particle holds, as nested lists (attribute keys are not part of the value: export only uses .values())."""
    def attrs_of(d):
        out = []
        for a in d.values():
            if a.name.casefold() == "name":       # the element's own name travels as the attribute 'name' (see the report)
                continue
            out.append([a.name.casefold() if fold_attr_names else a.name, a.type.name, a.is_array,
                        [str(x) for x in a.iter_str()] if a.is_array else a.val_str])
        return out

    def ops(lst):
        return [[o.name, o.function, attrs_of(o.options)] for o in lst]
    return [p.name, attrs_of(p.options), ops(p.renderers), ops(p.operators), ops(p.initializers), ops(p.emitters), ops(p.forces),
            ops(p.constraints), [c.particle.casefold() for c in p.children]]


def h_pcf(fn: str, sval: str, child_b: bool, child_c: bool, back_ref: bool, has_ops: bool, attr_i: int, n_fn: int, n_sv: int,
          version: int = 2, binary: int = 0, fold: int = 0) -> None:
    """Particle.export -> DMX element tree [-> Element.export_binary -> bytes] -> Particle.parse gives equal particle systems
    (name, options, the six operator lists with names / function names / options, child references modulo case); exporting the
    parsed systems gives an equal tree (binary: identical bytes).  Function name and one string option value symbolic in the
    element route; system / attribute names by index (they are dict keys); the binary route is all by index."""
    import io
    import srctools.particles as pt
    from srctools.dmx import Attribute, Element
    the_fn = _slot(fn, n_fn, "emit_continuously")
    the_sv = _slot(sval, n_sv, "particle/smoke1/smoke1.vmt")
    an = pick(PCF_ATTR_NAMES, attr_i)
    if binary:
        assume(n_fn < 0 and n_sv < 0)

    def build():
        def op(name, function, **extra):
            opts = {"x": Attribute.float("emission_rate", 2.5), "y": Attribute.string(an, the_sv), "z": Attribute.bool("operator end cap", True)}
            opts.update({k: Attribute.int(k, v) for k, v in extra.items()})
            return pt.Operator(name, function, opts)
        a = pt.Particle(PCF_NAMES[0], options={an.casefold(): Attribute.string(an, the_sv), "n": Attribute.int("initial_particles", 3),
                                              "c": Attribute.color("color", 255, 128, 0, 255)})
        b = pt.Particle(PCF_NAMES[1])
        c = pt.Particle(PCF_NAMES[2], options={"r": Attribute.float("radius", 0.5)})
        if has_ops:
            a.emitters.append(op("Emitter One", the_fn))
            a.renderers.append(op("render_animated_sprites", "render_animated_sprites", orientation_type=2))
            a.operators.extend([op("Alpha Fade", "Alpha Fade and Decay"), op("", the_fn)])
            c.initializers.append(op("Position Within Sphere Random", "Position Within Sphere Random"))
            c.forces.append(op("pull", "Pull towards control point"))
            c.constraints.append(op("Constrain", "Constrain distance to control point"))
        if child_b:
            a.children.append(pt.Child(PCF_NAMES[1]))
        if child_c:
            a.children.append(pt.Child(PCF_NAMES[2].upper()))
            a.children.append(pt.Child(PCF_NAMES[2]))
        if back_ref:
            c.children.append(pt.Child(PCF_NAMES[0]))
        return [a, b, c]

    def run():
        origs = build()
        root = pt.Particle.export(origs)
        if binary:
            buf = io.BytesIO()
            root.export_binary(buf, version=binary, fmt_name=pt.FORMAT_NAME, fmt_ver=version)
            first = buf.getvalue()
            table = pt.Particle.parse(io.BytesIO(first))
        else:
            first = None
            table = pt.Particle.parse(root, version)
        check(list(table) == [nm.casefold() for nm in PCF_NAMES], "system names", list(table))
        gots = list(table.values())
        for g, w in zip(gots, origs):
            _deep_eq(_pcf_sig(g, fold), _pcf_sig(w, fold), "particle " + w.name)
        root2 = pt.Particle.export(gots)
        if binary:
            buf2 = io.BytesIO()
            root2.export_binary(buf2, version=binary, fmt_name=pt.FORMAT_NAME, fmt_ver=version)
            # element UUIDs are fresh per export: compare through a second parse instead of the bytes
            again = list(pt.Particle.parse(io.BytesIO(buf2.getvalue())).values())
        else:
            again = list(pt.Particle.parse(root2, version).values())
        for g, w in zip(again, gots):
            _deep_eq(_pcf_sig(g, 0), _pcf_sig(w, 0), "second generation " + w.name)

    if binary and _ENGINE == "chx":
        from crosshair.tracers import NoTracing
        with NoTracing():          # every value is concrete here (picks): run the real DMX codec natively
            run()
    else:
        run()


def h_pcf_witness(fn: str, sval: str, child_b: bool, child_c: bool, back_ref: bool, has_ops: bool, attr_i: int, n_fn: int, n_sv: int,
                  version: int = 2, binary: int = 0, fold: int = 0) -> None:
    h_pcf(fn, sval, child_b, child_c, back_ref, has_ops, attr_i, n_fn, n_sv, version, binary, fold)
    raise Fail("reached")


# ------------------------------------------------------------------------------------------------------------
# obligations
# ------------------------------------------------------------------------------------------------------------

def obligations(tier):
    quick = tier == "quick"
    obls = []
    # --- cmdseq
    sl = [{"n": n, "width": w} for w in (128, 260) for n in ((0, 1, 2, w - 1, w) if quick else (0, 1, 2, 3, 17, w - 2, w - 1, w))]
    obls.append(Obl("cmdseq.cstring", MOD, "h_cstring", slices=sl, budget_s=300, per_path_s=120,
                    desc="strip_cstring(pad_string(s, W)) == s and re-padding is identical, all ASCII non-NUL s of the slice's exact length",
                    bound="W in {128, 260}; len in {0,1,2,W-1,W} (+3,17,W-2 thorough); every character symbolic"))
    obls.append(Obl("cmdseq.cstring.witness", MOD, "h_cstring_witness", slices=[{"n": 128, "width": 128}, {"n": 1, "width": 260}],
                    budget_s=120, per_path_s=60, witness=True, desc="reachability twin"))
    lens = [(1, 1, 1, 1, 1, 1), (0, 0, 0, 0, 0, 0), (1, 0, 1, 260, 259, 260), (0, 1, 0, 259, 260, 259)]
    if not quick:
        lens += [(2, 0, 0, 2, 0, 0), (0, 2, 0, 0, 2, 0), (0, 0, 2, 0, 0, 2), (2, 1, 0, 260, 260, 0), (1, 1, 1, 260, 260, 260), (1, 1, 1, 17, 40, 3)]
    sl = [dict(zip(("n_exe", "n_args", "n_ens", "l_exe", "l_args", "l_ens"), t), name_i=2) for t in lens]
    sl += [dict(sl[0], name_i=k) for k in (0, 1, 3, 4)]
    sl += [dict(sl[0], ncmd=k) for k in (0, 1)]
    obls.append(Obl("cmdseq.file", MOD, "h_cmdseq", slices=sl, budget_s=600, per_path_s=120,
                    desc="cmdseq.write -> parse reproduces names, every Command field and flag; second write identical",
                    bound="2 sequences, 0-3 commands, one command fully symbolic (3 bools, has-ensure, SpecialCommand by index, "
                          "sequence name one of 5 per slice incl. lengths 127/128, symbolic string tails of exact length in fields of total "
                          "length 0/1/259/260)"))
    obls.append(Obl("cmdseq.file.witness", MOD, "h_cmdseq_witness", slices=sl[:1], budget_s=120, per_path_s=60, witness=True,
                    desc="reachability twin"))
    # --- scenes.image
    lay = LAYOUTS
    sl = [{"na": 1, "nb": 1, "layout": l, "version": v} for l in lay for v in (2, 3)]
    sl += [{"na": 1, "nb": 1, "layout": "actor/actor", "version": 3, "nent": k, "order": o} for k, o in ((0, 0), (1, 0), (3, 0), (3, 1), (2, 1))]
    sl += [{"na": 1, "nb": 1, "layout": "actor/actor", "version": v, "nent": 3, "order": o, "form": f} for v in (2, 3) for o in (0, 1) for f in ("dict", "dict_stale")]
    if not quick:
        sl += [{"na": x, "nb": y, "layout": l, "version": 3} for l in lay for (x, y) in ((2, 2), (0, 1), (1, 2), (3, 3))]
    obls.append(Obl("image.roundtrip", MOD, "h_image", slices=sl, budget_s=600, per_path_s=120,
                    desc="scenes.image save -> parse: sorted by checksum, summaries and every scene string exact, summary consistent "
                         "with scene, re-save of the parsed image identical",
                    bound="0-3 entries, versions 2/3, two latin-1 symbolic strings of exact length in 7 slot layouts "
                          "(same scene / across scenes / summary only)"))
    obls.append(Obl("image.witness", MOD, "h_image_witness", slices=[sl[0], sl[3]], budget_s=120, per_path_s=60, witness=True,
                    desc="reachability twin"))
    # --- binary scenes
    sl = [{"n": 1, "flag_i": 4, "mode": m} for m in ("kinds", "speak", "flags")]
    sl += [{"n": 1, "flag_i": 4, "mode": "kinds", "tag_empty": True}]      # a relative-tag block whose two names are empty strings
    if not quick:
        sl += [{"n": k, "flag_i": f, "mode": m} for m in ("kinds", "speak", "flags") for (k, f) in ((0, 0), (2, 1), (1, 2), (1, 3))]
    obls.append(Obl("bvcd.roundtrip", MOD, "h_bvcd", slices=sl, budget_s=900, per_path_s=120,
                    desc="Scene.export_binary -> parse_binary field by field over every event kind / optional block / flag; re-export identical",
                    bound="1 top-level event of any of the 19 kinds + 1 actor with 2 channels; 9 symbolic bools + caption type explored in 3 groups (kinds/speak/flags), "
                          "1 symbolic pool string used in 4 slots; quantised values concrete (k/255 exact representatives)"))
    obls.append(Obl("bvcd.witness", MOD, "h_bvcd_witness", slices=sl[:1], budget_s=120, per_path_s=60, witness=True, desc="reachability twin"))
    obls += _text_obligations(quick)
    return obls


# proposed known findings (see reports/C20.md, "Extension: text formats"); VF_C20_EMULATE_KNOWN=1 applies their regions the way
# vf.core does for an open entry of known_findings.json (development aid: off by default, nothing is special-cased otherwise)
KNOWN_REGIONS = {
    "snd.stack": "len(sval) == n_sval and has_escapable(sval)",
    "vmt.blocks": "len(bval) == n_bv and has_escapable(bval)",
}


def _text_obligations(quick):
    import os
    emulate = os.environ.get("VF_C20_EMULATE_KNOWN") == "1"

    def known(name, slices):
        return [dict(x, _exclude=[KNOWN_REGIONS[name]]) for x in slices] if emulate else slices
    obls = []
    # --- soundscripts
    base = {"n_name": -1, "n_wav": -1, "n_sval": -1}
    sl = [dict(base, n_name=1), dict(base, n_wav=1), dict(base, n_name=0, n_wav=0), dict(base, n_wav=2, nwav=2), dict(base, n_wav=1, nwav=3)]
    sl += [dict(base, nwav=k) for k in (0, 2)]
    sl += [dict(base, dim=d) for d in ("chan", "level", "volume", "pitch")]
    sl += [dict(base, stacks=1), dict(base, stacks=1, nwav=0)]
    if not quick:
        sl += [dict(base, n_name=1, n_wav=1), dict(base, n_name=2), dict(base, n_wav=3, nwav=2), dict(base, dim="chan", stacks=1, nwav=2)]
        sl += [dict(base, dim=d, nwav=2) for d in ("level", "volume", "pitch")]
    obls.append(Obl("snd.roundtrip", MOD, "h_snd", slices=sl, budget_s=600, per_path_s=90,
                    desc="Sound.export -> Keyvalues.parse(allow_escapes=False) -> Sound.parse/parse_one equal field by field; second export identical",
                    bound="2 sounds per file; name / wave symbolic over every code point at exact length 0-2 (3 thorough); channel (10 members + 4 "
                          "ints), level (30 members + 5 pairs), volume (7), pitch (8) by index one dimension at a time; 0-3 waves; force_v2 and "
                          "the three operator stacks symbolic"))
    sl = known("snd.stack", [dict(base, n_sval=1, stacks=1), dict(base, n_sval=0, stacks=1)] + ([] if quick else [dict(base, n_sval=2, stacks=1)]))
    obls.append(Obl("snd.stack", MOD, "h_snd", slices=sl, budget_s=600, per_path_s=90,
                    desc="same with a symbolic operator-stack leaf value (written through Keyvalues.serialise)", bound="leaf of exact length 0-1 (2 thorough)"))
    sl = [dict(base, n_sval=1, stacks=1, esc=1), dict(base, n_wav=1, esc=1)] + ([] if quick else [dict(base, n_name=1, n_wav=1, esc=1)])
    obls.append(Obl("snd.escaped_reader", MOD, "h_snd", slices=sl, budget_s=600, per_path_s=90,
                    desc="same file read by the default Keyvalues.parse (escape processing on, as packlist does for soundscripts embedded in a BSP); "
                         "name/waves without backslash, stack leaf unconstrained", bound="exact length 1"))
    obls.append(Obl("snd.witness", MOD, "h_snd_witness", slices=[dict(base, n_wav=1), dict(base, stacks=1), dict(base, n_sval=1, stacks=1, esc=1)],
                    budget_s=120, per_path_s=60, witness=True, desc="reachability twin"))
    # --- VMT
    base = {"n_sh": -1, "n_pn": -1, "n_pv": -1, "n_bv": -1}
    sl = [dict(base), dict(base, n_pv=1), dict(base, n_sh=1), dict(base, n_pn=0, n_pv=0), dict(base, n_pv=1, npar=1), dict(base, npar=0)]
    if not quick:
        sl += [dict(base, n_pv=2), dict(base, n_sh=2), dict(base, n_pn=1, npar=1)]     # shader+value together: > 15 min, not kept
    obls.append(Obl("vmt.roundtrip", MOD, "h_vmt", slices=sl, budget_s=600 if quick else 2400, per_path_s=120,
                    desc="Material.export -> Material.parse: shader, parameters (name case, value, order, lookup), blocks, proxies; second export identical",
                    bound="5 parameters (1 symbolic), optional fallback block (nested) and proxies; shader / value symbolic over every code point "
                          "at exact length 0-1 (2 thorough), one slot at a time; parameter name: empty (quick), ASCII length 1 (thorough)"))
    sl = known("vmt.blocks", [dict(base, n_bv=1), dict(base, n_bv=0)] + ([] if quick else [dict(base, n_bv=2)]))
    obls.append(Obl("vmt.specials", MOD, "h_vmt_specials", budget_s=600, per_path_s=90,
                    desc="every delimiter character of the tokenizer inside an otherwise bare shader / name / value (by symbolic index)",
                    bound="one character from BARE_DISALLOWED + {/ # : + $ %} between two letters; 3 positions"))
    obls.append(Obl("vmt.blocks", MOD, "h_vmt", slices=sl, budget_s=600, per_path_s=90,
                    desc="same with a symbolic leaf value inside a fallback block and a proxy (written through Keyvalues.serialise)",
                    bound="leaf of exact length 0-1 (2 thorough)"))
    obls.append(Obl("vmt.witness", MOD, "h_vmt_witness", slices=[dict(base, n_pv=1), dict(base, n_sh=1)], budget_s=120, per_path_s=60,
                    witness=True, desc="reachability twin"))
    # --- choreo text
    sl = [{"n": -1, "mode": "kinds", "flag_i": 4}, {"n": -1, "mode": "speak", "flag_i": 1}, {"n": -1, "mode": "flags", "flag_i": 3}]
    sl += [{"n": 1, "mode": "str", "slot": k, "flag_i": 4} for k in VCD_SLOTS]
    sl += [{"n": 0, "mode": "str", "slot": k, "flag_i": 0} for k in ("ev_name", "param", "cc_token", "map_name")]
    sl += [{"n": 1, "mode": "str", "slot": "scale_val", "flag_i": 0, "skey": k} for k in (1, 2)]
    if not quick:
        sl += [{"n": 2, "mode": "str", "slot": k, "flag_i": 0} for k in VCD_SLOTS]
        sl += [{"n": -1, "mode": m, "flag_i": f} for m in ("kinds", "speak", "flags") for f in (0, 2)]
    obls.append(Obl("vcd.roundtrip", MOD, "h_vcd", slices=sl, budget_s=600, per_path_s=90,
                    desc="Scene.export_text -> Tokenizer -> Scene.parse_text field by field (attrs recursion); second export identical",
                    bound="1 top-level event of any of the 19 kinds + 1 actor with 2 channels; optional relative tag / ramp with edges; caption type "
                          "x 3 speak flags; activity, snap, ignore-phonemes, tag lock bits; one symbolic string (every code point, exact length "
                          "0-1, 2 thorough) in each of 16 slots; 3 scale-setting keys; no flex animation tracks"))
    obls.append(Obl("vcd.witness", MOD, "h_vcd_witness", slices=[sl[0], sl[3]], budget_s=120, per_path_s=60, witness=True, desc="reachability twin"))
    # --- SMD
    sl = [{"n": -1}, {"n": 1}, {"n": 2}] + ([] if quick else [{"n": 3}, {"n": 4}])
    sl += [{"n": 1, "pre": k} for k in ("end", "time", "version", "nodes", "triangles")]
    obls.append(Obl("smd.roundtrip", MOD, "h_smd", slices=sl, budget_s=600, per_path_s=90,
                    desc="Mesh.export -> Mesh.parse_smd: bones, parents, frames, triangles, links and weights; second export identical",
                    bound="3 bones (third name from 5 by index), 1 or 3 frames, 0 or 2 triangles, 1 or 2 links per vertex; material name symbolic "
                          "printable ASCII of exact length 1-2 (3-4 thorough) inside the representable domain, also behind a keyword-like beginning (end, time, ...); floats with <= 6 decimals, rotations 0"))
    obls.append(Obl("smd.witness", MOD, "h_smd_witness", slices=[{"n": 1}], budget_s=120, per_path_s=60, witness=True, desc="reachability twin"))
    # --- PCF
    base = {"n_fn": -1, "n_sv": -1}
    sl = [dict(base), dict(base, n_fn=1), dict(base, n_sv=1), dict(base, n_fn=0, n_sv=0, version=1)]
    sl += [dict(base, binary=b, version=v) for b, v in ((2, 1), (5, 2))]
    if not quick:
        sl += [dict(base, n_fn=2, n_sv=2), dict(base, n_fn=1, n_sv=1, version=1)] + [dict(base, binary=b, version=2) for b in (1, 3, 4)]
    obls.append(Obl("pcf.roundtrip", MOD, "h_pcf", slices=sl, budget_s=600, per_path_s=90,
                    desc="Particle.export -> element tree [-> binary DMX] -> Particle.parse: names, options, six operator lists, children; second generation equal",
                    bound="3 systems, 0 or 7 operators, child references in 4 symbolic bits (incl. a case variant and a cycle), attribute name 1 of 3 by "
                          "index; function name and a string option symbolic (every code point, exact length 0-1, 2 thorough) in the element route; "
                          "binary DMX versions 2/5 (1-5 thorough) with everything by index (enumeration)"))
    obls.append(Obl("pcf.witness", MOD, "h_pcf_witness", slices=[dict(base, n_sv=1), dict(base, binary=5)], budget_s=120, per_path_s=60,
                    witness=True, desc="reachability twin"))
    return obls
