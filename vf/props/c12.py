"""C12 — atomic file replacement through AtomicWriter: old or new contents, never a mixture (E1 + model FS with crash/fault injection)."""
from __future__ import annotations

from vf.core import Obl
from vf.h import Fail, assume, check

MOD = "vf.props.c12"

META = {
    "level": "model_checking",
    "functions": ["srctools:AtomicWriter.__init__", "srctools:AtomicWriter.make_tempfile", "srctools:AtomicWriter.__enter__", "srctools:AtomicWriter.__exit__"],
    "bounds": "old / new contents: symbolic bytes with exact lengths 0..2 per slice (new data in two writes); old file present or absent; 0..2 stale "
              "tmp_N files of other owners; crash point = any FS operation index (symbolic, <= 12); one injected OSError/PermissionError/"
              "FileExistsError/ValueError (a non-OSError failure) at any FS operation index; body exception before any write; bytes and text mode; two writers to different files in one "
              "directory under every schedule of <= 14 FS-operation steps (symbolic schedule bits)",
    "outside": "a kill in the middle of a single write() system call, fsync/durability ordering of real file systems, more than one fault per run, "
               "more than two writers, Windows rename semantics; BSP.save's use of the writer is covered only in so far as it goes through "
               "AtomicWriter (the body is arbitrary writes)",
    "stubs": ["srctools.Path -> vf.stubs.wfs.ModelPath over ModelFS (POSIX rename, exclusive create, user-space buffering: data reaches the file on "
              "flush/close; crash = no further operation has any effect); validated against a real temp directory each run"],
    "trusted_base": ["crosshair-tool 0.0.110", "z3", "vf/chx.py", "vf/stubs/wfs.py (the assumed environment contract)"],
    "assumptions": ["rename is atomic", "a crash loses exactly the unflushed user-space buffers", "faults are single OSErrors raised by one operation"],
    "validation_runs": 40,
}

DEST = "/d/dest"


class BodyError(Exception):
    pass


def setup(engine):
    from vf.stubs import wfs
    wfs.selftest()


def _world(has_old, old, stale):
    import srctools
    from vf.stubs import wfs
    fs = wfs.ModelFS()
    fs.dirs.add("/d")
    if has_old:
        fs.put(DEST, old)
    for i in range(1, stale + 1):
        fs.put(f"/d/tmp_{i}", b"STALE")
    srctools.Path = wfs.make_path_class(fs)
    return fs


def _restore():
    import pathlib
    import srctools
    srctools.Path = pathlib.Path


def h_single(old: bytes, new1: bytes, new2: bytes, has_old: bool, crash: int, fault: int, fkind: int, body_fail: int,
             n_old: int, n1: int, n2: int, stale: int, text: bool = False) -> None:
    import srctools
    from vf.stubs import wfs
    assume(len(old) == n_old and len(new1) == n1 and len(new2) == n2)
    assume(-1 <= crash <= 12 and -1 <= fault <= 12 and 0 <= fkind <= 3 and -1 <= body_fail <= 2)
    assume(crash == -1 or fault == -1)
    if fault == -1:
        assume(fkind == 0)
    if text:
        for c in list(new1) + list(new2):
            assume(c < 128)
    fs = _world(has_old, old, stale)
    fs.crash_at = None if crash < 0 else crash
    if fault >= 0:
        fs.fault_at = fault
        # kind 3: an error that is not an OSError (what os.replace raises for a name with an embedded NUL); the statement says
        # "an error is raised", and a failure the writer handles must not leave its temporary file either way
        fs.fault_exc = [OSError("injected"), PermissionError("injected"), FileExistsError("injected"),
                        ValueError("injected: embedded null byte")][fkind]
    new = new1 + new2
    outcome = "ok"
    try:
        try:
            with srctools.AtomicWriter(DEST, is_bytes=not text) as f:
                if body_fail == 0:
                    raise BodyError()
                f.write(new1.decode("ascii") if text else new1)
                if body_fail == 1:
                    raise BodyError()
                f.write(new2.decode("ascii") if text else new2)
                if body_fail == 2:
                    raise BodyError()
        except wfs.Crash:
            outcome = "crash"
        except BodyError:
            outcome = "body"
        except (OSError, ValueError):
            outcome = "oserror"
    finally:
        _restore()
    now = fs.read(DEST)
    old_state = old if has_old else None
    # (1) at every crash point and after every outcome: complete old or complete new, never a mixture
    check(now == old_state or now == new, "destination holds neither the complete old nor the complete new contents", outcome, now, old_state, new)
    # (2) files of other owners are never touched
    for i in range(1, stale + 1):
        check(fs.read(f"/d/tmp_{i}") == b"STALE", "a temporary file of another owner was modified or removed", i, outcome)
    # (3) temp files are created exclusively
    for _i, op, path, _a, _o in fs.log:
        if op.startswith("open:") and path != DEST:
            check("x" in op, "temporary file opened without exclusive-create mode", op, path)
        check(not (op.startswith("open:") and path == DEST), "destination opened directly", op)
    mine = [p for p in fs.listing("/d") if p != DEST and not (p.startswith("/d/tmp_") and p[7:].isdigit() and int(p[7:]) <= stale)]
    replaced = any(op == "replace" for _i, op, _p, _a, _o in fs.log) and not (fs.faulted_op and fs.faulted_op[0] == "replace")
    if outcome == "ok":
        check(now == new, "clean exit but the destination does not hold the new contents", now, new)
        check(not mine, "temporary file left behind after a clean exit", mine)
    elif outcome == "body":
        check(now == old_state, "body failed but the previous contents are gone", now, old_state)
        check(not mine, "temporary file left behind after the body raised", mine)
    elif outcome == "oserror":
        if not replaced:
            check(now == old_state, "write failed but the previous contents are gone", now, old_state)
        cleanup_failed = fs.faulted_op is not None and fs.faulted_op[0] == "unlink"
        if not cleanup_failed:
            check(not mine, "temporary file left behind by a handled failure", mine, fs.faulted_op)


def h_single_w(old: bytes, new1: bytes, new2: bytes, has_old: bool, crash: int, fault: int, fkind: int, body_fail: int,
               n_old: int, n1: int, n2: int, stale: int, text: bool = False) -> None:
    h_single(old, new1, new2, has_old, crash, fault, fkind, body_fail, n_old, n1, n2, stale, text)
    assume(crash == -1 and fault == -1 and body_fail == -1)
    raise Fail("reached")


# ---------------------------------------------------------------- two writers, symbolic schedule (lock-stepped threads)

class _Stepper:
    """Runs one writer in its own (untraced, concrete) thread and lets the scheduler advance it one FS operation at a time.
    Only the schedule bits are symbolic; they are consumed by the scheduler in the traced main thread."""

    def __init__(self, fs, actor, dest, data, again=None, fail_first=False):
        import threading
        self.fs, self.actor, self.dest, self.data, self.again = fs, actor, dest, data, again
        self.fail_first = fail_first
        self.go = threading.Semaphore(0)
        self.back = threading.Semaphore(0)
        self.done = False
        self.error = None
        self.thread = threading.Thread(target=self._run, daemon=True)
        self.started = False

    def gate(self):
        """Called by the writer's thread before every FS operation."""
        self.back.release()     # previous operation (or start-up) finished: hand control back
        self.go.acquire()       # wait for the next grant
        self.fs.actor = self.actor

    def _run(self):
        import srctools
        self.go.acquire()
        self.fs.actor = self.actor
        try:
            writer = srctools.AtomicWriter(self.dest, is_bytes=True)
            try:
                with writer as f:
                    f.write(self.data[:2])
                    if self.fail_first:     # the first attempt is abandoned by the caller's own exception, then retried
                        raise BodyError()
                    f.write(self.data[2:])
            except BodyError:
                pass
            if self.again is not None:      # the class documents that a writer object "can be repeated"
                with writer as f:
                    f.write(self.again[:2])
                    f.write(self.again[2:])
        except OSError as e:
            self.error = e
        except BaseException as e:  # noqa
            self.error = e
        self.done = True
        self.back.release()

    def step(self):
        """Let the writer perform exactly one more FS operation (or finish)."""
        if not self.started:
            self.started = True
            self.thread.start()
            self.go.release()       # run from the start up to the first gate
            self.back.acquire()
            if self.done:
                return
        self.go.release()           # perform the pending operation and run up to the next gate
        self.back.acquire()


def _gated_fs(fs, steppers):
    """Wrap ModelFS._op so that every operation first passes its writer's gate."""
    import threading
    orig = fs._op
    by_thread = {}

    def op(name, path):
        st = by_thread.get(threading.get_ident())
        if st is not None:
            st.gate()
        return orig(name, path)
    fs._op = op
    return by_thread


def h_two(s0: bool, s1: bool, s2: bool, s3: bool, s4: bool, s5: bool, s6: bool, s7: bool, s8: bool, s9: bool, s10: bool, s11: bool,
          s12: bool, s13: bool, stale: int, p0: int = -1, p1: int = -1, p2: int = -1, reuse: bool = False, retry: bool = False) -> None:
    """Two writers replacing different files of one directory, interleaved at FS-operation boundaries by a symbolic schedule.
    With reuse=True the first writer object is used for two consecutive saves (the schedule bits cover the first 14 steps,
    the rest runs to completion in a fixed order); with retry=True its first save is abandoned by a body exception."""
    import srctools
    from vf.stubs import wfs
    sched = [s0, s1, s2, s3, s4, s5, s6, s7, s8, s9, s10, s11, s12, s13]
    for k, p in enumerate((p0, p1, p2)):     # slice on the first schedule bits
        if p >= 0:
            assume(sched[k] == bool(p))
    order = [1 if b else 0 for b in sched]   # forks here: from now on everything is concrete
    try:
        from crosshair.tracers import NoTracing
        ctx = NoTracing()
    except Exception:  # noqa
        import contextlib
        ctx = contextlib.nullcontext()
    with ctx:
        fs = wfs.ModelFS()
        fs.dirs.add("/d")
        fs.put("/d/a", b"oldA")
        fs.put("/d/b", b"oldB")
        for i in range(1, stale + 1):
            fs.put(f"/d/tmp_{i}", b"STALE")
        srctools.Path = wfs.make_path_class(fs)
        reuse = reuse or retry
        ws = [_Stepper(fs, 0, "/d/a", b"AAAA", b"CCCC" if reuse else None, fail_first=retry), _Stepper(fs, 1, "/d/b", b"BBBB")]
        by_thread = _gated_fs(fs, ws)
        for w in ws:
            by_thread[None] = None
        try:
            def advance(k):
                w = ws[k]
                if not w.started:
                    w.started = True
                    w.thread.start()
                    by_thread[w.thread.ident] = w
                    w.go.release()
                    w.back.acquire()
                    if w.done:
                        return
                w.go.release()
                w.back.acquire()
            for k in order:
                if ws[k].done:
                    k = 1 - k
                if ws[k].done:
                    break
                advance(k)
            for k in (0, 1):          # run both to completion (fixed order) once the symbolic schedule is used up
                n = 0
                while not ws[k].done and n < 40:
                    advance(k)
                    n += 1
                check(ws[k].done, "writer did not terminate", k)
        finally:
            _restore()
        errors = [w.error for w in ws]
        # no writer ever touched a temp file created by the other one
        for _i, op, path, actor, owner in fs.log:
            if path.startswith("/d/tmp_"):
                check(owner is None or owner == actor or op == "open:xb", "a writer operated on the other writer's temporary file", op, path, actor, owner)
        check(errors == [None, None], "a writer failed although no fault was injected", [repr(e) for e in errors])
        check(fs.read("/d/a") == (b"CCCC" if reuse else b"AAAA") and fs.read("/d/b") == b"BBBB", "destinations after both writers finished", fs.read("/d/a"), fs.read("/d/b"))
        for i in range(1, stale + 1):
            check(fs.read(f"/d/tmp_{i}") == b"STALE", "stale temp of another owner touched", i)
        left = [p for p in fs.listing("/d") if p not in ("/d/a", "/d/b") and fs.read(p) != b"STALE"]
        check(not left, "temporary files left behind", left)


def h_two_w(s0: bool, s1: bool, s2: bool, s3: bool, s4: bool, s5: bool, s6: bool, s7: bool, s8: bool, s9: bool, s10: bool, s11: bool,
            s12: bool, s13: bool, stale: int, p0: int = -1, p1: int = -1, p2: int = -1, reuse: bool = False, retry: bool = False) -> None:
    h_two(s0, s1, s2, s3, s4, s5, s6, s7, s8, s9, s10, s11, s12, s13, stale, p0, p1, p2, reuse, retry)
    raise Fail("reached")


def obligations(tier):
    lens = [(0, 1, 1), (1, 1, 0), (2, 1, 1), (1, 0, 2)] if tier == "quick" else [(a, b, c) for a in (0, 1, 2) for b in (0, 1, 2) for c in (0, 1, 2)]
    single = [{"n_old": a, "n1": b, "n2": c, "stale": st} for (a, b, c) in lens for st in ((0, 1) if tier == "quick" else (0, 1, 2))]
    single += [{"n_old": 1, "n1": 1, "n2": 1, "stale": 1, "text": True}]
    two = [{"stale": st, "p0": a, "p1": b, "p2": c} for st in ((0,) if tier == "quick" else (0, 1)) for a in (0, 1) for b in (0, 1) for c in (0, 1)]
    two += [{"stale": 0, "p0": a, "p1": b, "p2": c, "reuse": True} for a in (0, 1) for b in (0, 1) for c in (0, 1)]
    two += [{"stale": 0, "p0": a, "p1": b, "p2": c, "retry": True} for a in (0, 1) for b in (0, 1) for c in (0, 1)]
    return [
        Obl("single", MOD, "h_single", slices=single, budget_s=900, per_path_s=60,
            desc="one writer: crash at any FS operation, one injected fault at any FS operation, body exception at any write; old-or-new, "
                 "old kept on failure, no temp left by a handled failure, exclusive temp creation, foreign temps untouched",
            bound="contents exact lengths per slice; crash/fault index <= 12"),
        Obl("single.witness", MOD, "h_single_w", slices=[{"n_old": 1, "n1": 1, "n2": 1, "stale": 1}], budget_s=300, per_path_s=60, witness=True),
        Obl("two_writers", MOD, "h_two", slices=two, budget_s=1500, per_path_s=120,
            desc="two writers in one directory under every interleaving at FS-operation boundaries: no writer touches the other's temp; both files complete",
            bound="14 symbolic schedule bits (every interleaving of two 6-operation writers; reuse / retry-after-body-exception variants: the first 14 steps)"),
        Obl("two_writers.witness", MOD, "h_two_w", slices=[{"stale": 0, "p0": 0, "p1": 1, "p2": 0}], budget_s=600, per_path_s=120, witness=True),
    ]
