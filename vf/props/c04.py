"""C04 — rotation algebra of Vec/Angle/Matrix (E2: real code on SymReal values, z3 NRA validity queries).

All identities are over the REALS (sin/cos are symbols constrained by s^2+c^2=1); IEEE rounding is outside.
"""
from __future__ import annotations

import json
import time
from typing import Any, Dict, List

from vf.core import Obl

MOD = "vf.props.c04"

META = {
    "level": "other",
    "functions": ["srctools.math:MatrixBase.from_angle", "srctools.math:MatrixBase.from_pitch", "srctools.math:MatrixBase.from_yaw",
                  "srctools.math:MatrixBase.from_roll", "srctools.math:MatrixBase._mat_mul", "srctools.math:MatrixBase._vec_rot",
                  "srctools.math:MatrixBase.transpose", "srctools.math:MatrixBase.inverse", "srctools.math:MatrixBase._to_angle",
                  "srctools.math:MatrixBase.__matmul__", "srctools.math:MatrixBase.__rmatmul__", "srctools.math:VecBase.__matmul__",
                  "srctools.math:Vec.__imatmul__", "srctools.math:AngleBase.__matmul__", "srctools.math:AngleBase.__rmatmul__",
                  "srctools.math:AngleBase._rotate_angle", "srctools.math:Angle.__imatmul__", "srctools.math:Matrix.__imatmul__"],
    "bounds": "no value bound: pitch/yaw/roll enter as (sin, cos) pairs of arbitrary reals with s^2+c^2=1, vectors and general matrices "
              "as arbitrary reals; the inverse obligation explores every pivoting path of the Gauss-Jordan code",
    "outside": "IEEE-754 rounding (identities are over the reals), the quantitative gimbal-lock tolerance, magnitudes, the Cython/C++ twins",
    "stubs": ["srctools.math.math -> MathProxy (sin/cos of an angle tag are symbols; sqrt, atan2 by their defining equations)",
              "srctools.math.float -> FloatShim (passes symbolic floats through)"],
    "trusted_base": ["z3 nlsat (QF_NRA)", "vf/symx.py operator-overloading executor", "SDK AngleMatrix formula transcribed in the harness as the reference"],
    "assumptions": ["sin^2+cos^2=1 is the only fact about sin/cos used", "atan2(y,x) is characterised by sin=y/r, cos=x/r, r=|(x,y)|>0",
                    "x % 360 does not change sin/cos of x"],
    "explanation": "Each obligation runs the real srctools.math methods on symbolic reals and asks z3 whether the negated identity is "
                   "satisfiable together with the trigonometric side constraints; unsat = the identity holds for all reals. "
                   "Each obligation also checks that its constraint set alone is satisfiable (vacuity).",
}


def setup(engine):
    pass


# ------------------------------------------------------------------ symbolic fixtures

class CTag(float):
    """Concrete-mode stand-in for an angle: a plain float of degrees that also exposes .sin/.cos."""
    @property
    def sin(self):
        import math
        return math.sin(math.radians(float(self)))

    @property
    def cos(self):
        import math
        return math.cos(math.radians(float(self)))


def _fx(concrete=None):
    """Symbolic fixture (default) or, for native replay/validation, a concrete one fed from a solver model."""
    import z3
    from vf import symx
    import srctools.math as sm

    class FX:
        pass
    fx = FX()
    fx.z3, fx.symx, fx.sm = z3, symx, sm
    fx.cons = []
    fx.concrete = concrete
    if concrete is None:
        fx.proxy = symx.install_math_shims()
    else:
        import math as _m
        fx.proxy = None
        fx.used = {}

        def val(name, default):
            v = concrete.get(name, default)
            v = float(v) if not isinstance(v, str) else default
            fx.used[name] = v
            return v
        fx.val = val

    def angle(prefix):
        tags = []
        for k, ax in enumerate(("p", "y", "r")):
            if concrete is None:
                s, c = z3.Real(f"{prefix}_s{ax}"), z3.Real(f"{prefix}_c{ax}")
                fx.cons.append(s * s + c * c == 1)
                tags.append(symx.AngleTag(symx.SymReal(s), symx.SymReal(c), f"{prefix}.{ax}"))
            else:
                import math as _m
                sv = fx.val(f"{prefix}_s{ax}", [0.6, -0.28, 0.96][k])
                cv = fx.val(f"{prefix}_c{ax}", [0.8, 0.96, -0.28][k])
                tags.append(CTag(_m.degrees(_m.atan2(sv, cv)) % 360.0))
        return tags
    fx.angle = angle

    def mk_angle(cls, tags):
        if concrete is not None:
            return cls(float(tags[0]), float(tags[1]), float(tags[2]))
        a = cls.__new__(cls)
        a._pitch, a._yaw, a._roll = tags
        return a
    fx.mk_angle = mk_angle

    def vec(prefix):
        if concrete is not None:
            return [fx.val(f"{prefix}_{a}", d) for a, d in zip("xyz", (3.0, -4.5, 12.25))]
        return [symx.SymReal(z3.Real(f"{prefix}_{a}")) for a in "xyz"]
    fx.vec = vec

    def gen_matrix(cls, prefix):
        if concrete is not None:
            ents = [fx.val(f"{prefix}_{i}{j}", float((i * 3 + j) % 5) - 1.5) for i in range(3) for j in range(3)]
        else:
            ents = [symx.SymReal(z3.Real(f"{prefix}_{i}{j}")) for i in range(3) for j in range(3)]
        return cls._from_raw(*ents), [ents[0:3], ents[3:6], ents[6:9]]
    fx.gen_matrix = gen_matrix
    return fx


def _sdk_matrix(tags):
    """Source SDK AngleMatrix (mathlib_base.cpp), transposed to the library's row-vector layout.
    rows: forward, left, up."""
    p, y, r = tags
    sp, cp, sy, cy, sr, cr = p.sin, p.cos, y.sin, y.cos, r.sin, r.cos
    return [
        [cp * cy, cp * sy, -sp],
        [sr * sp * cy - cr * sy, sr * sp * sy + cr * cy, sr * cp],
        [cr * sp * cy + sr * sy, cr * sp * sy - sr * cy, cr * cp],
    ]


def _axis_mats(tags):
    p, y, r = tags
    one, zero = 1.0, 0.0
    rx = [[one, zero, zero], [zero, r.cos, r.sin], [zero, -r.sin, r.cos]]
    ry = [[p.cos, zero, -p.sin], [zero, one, zero], [p.sin, zero, p.cos]]
    rz = [[y.cos, y.sin, zero], [-y.sin, y.cos, zero], [zero, zero, one]]
    return rx, ry, rz


def _mm(a, b):
    return [[a[i][0] * b[0][j] + a[i][1] * b[1][j] + a[i][2] * b[2][j] for j in range(3)] for i in range(3)]


def _vm(v, m):
    return [v[0] * m[0][j] + v[1] * m[1][j] + v[2] * m[2][j] for j in range(3)]


def _ents(m):
    return [[m._aa, m._ab, m._ac], [m._ba, m._bb, m._bc], [m._ca, m._cb, m._cc]]


def _e(v):
    from vf.symx import _rv
    return _rv(v)


class Eq:
    """A goal `got == want` kept as a pair so it can be posed to z3 (symbolic) or compared numerically (replay)."""

    def __init__(self, got, want, kind="real"):
        self.got, self.want, self.kind = got, want, kind

    def z3(self):
        from vf import symx
        if self.kind == "angle":
            sg = symx.same_tag_goals(self.got, self.want)
            if sg is None:
                sg = [self.got.sin.e == self.want.sin.e, self.got.cos.e == self.want.cos.e]
            import z3
            return z3.And(sg)
        return _e(self.got) == _e(self.want)

    def holds_numerically(self):
        g, w = float(self.got), float(self.want)
        if self.kind == "angle":
            d = abs(g - w) % 360.0
            return min(d, 360.0 - d) <= 1e-4
        return abs(g - w) <= 1e-6 * (1.0 + abs(w))

    def __str__(self):
        return f"{self.got!r} == {self.want!r}"


def _eq_all(z3, got, want):
    flat_g = [x for row in got for x in row] if isinstance(got[0], list) else list(got)
    flat_w = [x for row in want for x in row] if isinstance(want[0], list) else list(want)
    assert len(flat_g) == len(flat_w)
    return [Eq(g, w) for g, w in zip(flat_g, flat_w)]


class Rec:
    """Collects the outcome of the queries of one obligation."""

    def __init__(self, fx):
        self.fx = fx
        self.items: List[Dict[str, Any]] = []
        self.t0 = time.perf_counter()
        self.fail = None
        self.unknown = []
        self.vacuous = False

    def satisfiable(self, cons, label):
        if self.fx.concrete is not None:
            return
        r = self.fx.symx.satisfiable(cons, 60000)
        if r != "sat":
            self.vacuous = True
            self.unknown.append(f"{label}: constraints {r}")

    def prove(self, label, cons, goals, timeout_ms=120000, conj=False):
        z3 = self.fx.z3
        if self.fx.concrete is not None:
            for i, g in enumerate(goals):
                ok = g.holds_numerically() if isinstance(g, Eq) else True
                self.items.append({"q": f"{label}[{i}]", "r": "ok" if ok else "FAILED"})
                if not ok and self.fail is None:
                    self.fail = {"query": f"{label}[{i}]", "goal": str(g)[:300], "model": dict(self.fx.used)}
            return
        goals = [g.z3() if isinstance(g, Eq) else g for g in goals]
        if conj:
            goals = [z3.And(goals)]
        for i, g in enumerate(goals):
            res, model = self.fx.symx.prove(cons, g, timeout_ms)
            if res == "holds":
                self.items.append({"q": f"{label}[{i}]", "r": "unsat"})
            elif res == "cex":
                vals = {str(d): self.fx.symx.model_value(model, d()) for d in model.decls()}
                self.items.append({"q": f"{label}[{i}]", "r": "sat"})
                if self.fail is None:
                    self.fail = {"query": f"{label}[{i}]", "goal": str(g)[:300], "model": vals}
            else:
                self.items.append({"q": f"{label}[{i}]", "r": "unknown"})
                self.unknown.append(f"{label}[{i}]")

    def native(self, label, cond, detail=""):
        """A concrete (non-solver) structural check, e.g. result types."""
        self.items.append({"q": label, "r": "ok" if cond else "FAILED"})
        if not cond and self.fail is None:
            self.fail = {"query": label, "goal": detail, "model": {}}

    def result(self):
        st = self.fx.symx.STATS
        if self.fx.concrete is not None:
            return {"verdict": "reproduced" if self.fail else "not-reproduced", "detail": json.dumps(self.fail, default=repr)[:1500],
                    "checked": len(self.items)}
        if self.fail is not None:
            verdict = "refuted"
        elif self.vacuous:
            verdict = "vacuous"
        elif self.unknown:
            verdict = "unknown"
        else:
            verdict = "confirmed"
        return {"verdict": verdict, "queries": st["queries"], "solver_checks": st["queries"], "solver_s": round(st["seconds"], 3),
                "paths": len(self.items), "cex": (self.fail or {}).get("model"), "failure": self.fail,
                "unknown_reasons": {u: 1 for u in self.unknown[:8]},
                "samples": [self.items[:3]], "wall_s": round(time.perf_counter() - self.t0, 3)}


# ------------------------------------------------------------------ obligations

def o_convention(_concrete=None):
    """from_angle (every argument form, both matrix classes) == SDK formula == Rx(roll)*Ry(pitch)*Rz(yaw); proper rotation."""
    fx = _fx(_concrete)
    z3, sm = fx.z3, fx.sm
    rec = Rec(fx)
    tags = fx.angle("a")
    ref = _sdk_matrix(tags)
    rx, ry, rz = _axis_mats(tags)
    prod = _mm(_mm(rx, ry), rz)
    rec.satisfiable(fx.cons, "convention")
    rec.prove("sdk==Rx.Ry.Rz", [], _eq_all(z3, ref, prod))
    for cls in (sm.Py_Matrix, sm.Py_FrozenMatrix):
        forms = {
            "Angle": lambda: cls.from_angle(fx.mk_angle(sm.Py_Angle, tags)),
            "FrozenAngle": lambda: cls.from_angle(fx.mk_angle(sm.Py_FrozenAngle, tags)),
            "3 floats": lambda: cls.from_angle(*tags),
        }
        for name, mk in forms.items():
            m = mk()
            rec.native(f"type {cls.__name__}.from_angle({name})", type(m) is cls)
            rec.prove(f"{cls.__name__}.from_angle({name})==SDK", [], _eq_all(z3, _ents(m), ref))
        # single-axis constructors and their library product
        mp, my, mr = cls.from_pitch(tags[0]), cls.from_yaw(tags[1]), cls.from_roll(tags[2])
        rec.prove(f"{cls.__name__}.from_pitch", [], _eq_all(z3, _ents(mp), ry))
        rec.prove(f"{cls.__name__}.from_yaw", [], _eq_all(z3, _ents(my), rz))
        rec.prove(f"{cls.__name__}.from_roll", [], _eq_all(z3, _ents(mr), rx))
    M = sm.Py_Matrix
    lib_prod = M.from_roll(tags[2]) @ M.from_pitch(tags[0]) @ M.from_yaw(tags[1])
    rec.prove("from_roll@from_pitch@from_yaw==from_angle", [], _eq_all(z3, _ents(lib_prod), _ents(M.from_angle(*tags))))
    # proper rotation: M M^T = I, det = +1  (needs s^2+c^2=1)
    m = M.from_angle(*tags)
    e = _ents(m)
    mt = _ents(m.transpose())
    rec.prove("transpose", [], _eq_all(z3, mt, [[e[j][i] for j in range(3)] for i in range(3)]))
    ident = [[1.0 if i == j else 0.0 for j in range(3)] for i in range(3)]
    rec.prove("orthonormal rows", fx.cons, _eq_all(z3, _mm(e, mt), ident))
    det = (e[0][0] * (e[1][1] * e[2][2] - e[1][2] * e[2][1]) - e[0][1] * (e[1][0] * e[2][2] - e[1][2] * e[2][0])
           + e[0][2] * (e[1][0] * e[2][1] - e[1][1] * e[2][0]))
    rec.prove("det=+1", fx.cons, [Eq(det, 1.0)])
    return rec.result()


def o_dispatch(_concrete=None):
    """Every Vec-kind @ rotation-kind, every operator form: value == v.M_ref and documented result type."""
    fx = _fx(_concrete)
    z3, sm = fx.z3, fx.sm
    rec = Rec(fx)
    tags = fx.angle("a")
    vx = fx.vec("v")
    gm_ents = None
    rot_kinds = {}
    rot_kinds["Angle"] = (lambda: fx.mk_angle(sm.Py_Angle, tags), _sdk_matrix(tags))
    rot_kinds["FrozenAngle"] = (lambda: fx.mk_angle(sm.Py_FrozenAngle, tags), _sdk_matrix(tags))
    for cls in (sm.Py_Matrix, sm.Py_FrozenMatrix):
        _m, ents = fx.gen_matrix(cls, "m")
        rot_kinds[cls.__name__] = ((lambda cls=cls: fx.gen_matrix(cls, "m")[0]), ents)
    vec_kinds = {
        "Vec": (lambda: sm.Py_Vec(*vx), sm.Py_Vec),
        "FrozenVec": (lambda: sm.Py_FrozenVec(*vx), sm.Py_FrozenVec),
        "tuple": (lambda: tuple(vx), sm.Py_Vec),
    }
    rec.satisfiable(fx.cons, "dispatch")
    for vk, (mkv, rtype) in vec_kinds.items():
        for rk, (mkr, ref) in rot_kinds.items():
            want = _vm(vx, ref)
            v, r = mkv(), mkr()
            res = v @ r
            rec.native(f"type({vk} @ {rk})", type(res) is rtype, f"{type(res).__name__}")
            rec.prove(f"{vk} @ {rk}", [], _eq_all(z3, [res.x, res.y, res.z], want))
            # in-place form
            v2 = mkv()
            orig = v2
            v2 @= mkr()
            rec.native(f"type({vk} @= {rk})", type(v2) is rtype, f"{type(v2).__name__}")
            rec.prove(f"{vk} @= {rk}", [], _eq_all(z3, [v2.x, v2.y, v2.z], want))
            # explicit reflected call
            res3 = r.__rmatmul__(mkv())
            rec.native(f"type({rk}.__rmatmul__({vk}))", type(res3) is rtype, f"{type(res3).__name__}")
            rec.prove(f"{rk}.__rmatmul__({vk})", [], _eq_all(z3, [res3.x, res3.y, res3.z], want))
    return rec.result()


def o_matrix_products(_concrete=None):
    """Matrix@Matrix, Matrix@Angle, in-place and reflected forms agree with the reference product (all class mixes)."""
    fx = _fx(_concrete)
    z3, sm = fx.z3, fx.sm
    rec = Rec(fx)
    ta = fx.angle("a")
    rec.satisfiable(fx.cons, "matrix products")
    mats = (sm.Py_Matrix, sm.Py_FrozenMatrix)
    angs = (sm.Py_Angle, sm.Py_FrozenAngle)
    for lc in mats:
        for rc in mats:
            l, le = fx.gen_matrix(lc, "l")
            r, re_ = fx.gen_matrix(rc, "r")
            want = _mm(le, re_)
            res = l @ r
            rec.native(f"type({lc.__name__}@{rc.__name__})", type(res) is lc, type(res).__name__)
            rec.prove(f"{lc.__name__}@{rc.__name__}", [], _eq_all(z3, _ents(res), want))
            l2, le2 = fx.gen_matrix(lc, "l")
            keep = l2
            l2 @= r
            rec.prove(f"{lc.__name__}@={rc.__name__}", [], _eq_all(z3, _ents(l2), want))
            res_r = r.__rmatmul__(fx.gen_matrix(lc, "l")[0])
            rec.prove(f"{rc.__name__}.__rmatmul__({lc.__name__})", [], _eq_all(z3, _ents(res_r), want))
        for ac in angs:
            l, le = fx.gen_matrix(lc, "l")
            a = fx.mk_angle(ac, ta)
            want = _mm(le, _sdk_matrix(ta))
            res = l @ a
            rec.native(f"type({lc.__name__}@{ac.__name__})", type(res) is lc, type(res).__name__)
            rec.prove(f"{lc.__name__}@{ac.__name__}", [], _eq_all(z3, _ents(res), want))
    # associativity with SHARED operand objects, both evaluation orders, every kind mix without Euler extraction
    # (a in {Matrix, FrozenMatrix}; b in all four rotation kinds; v in the three vector kinds): each side is also
    # compared with the independent reference product, so an operand damaged by an earlier evaluation is noticed.
    vs = fx.vec("v")
    for ac in mats:
        for bk in ("Matrix", "FrozenMatrix", "Angle", "FrozenAngle"):
            for vk in ("Vec", "FrozenVec", "tuple"):
                for order in ("rhs-first", "lhs-first"):
                    a_obj, a_ents = fx.gen_matrix(ac, "A")
                    if bk.endswith("Matrix"):
                        b_obj, b_ents = fx.gen_matrix(getattr(sm, "Py_" + bk), "B")
                    else:
                        b_obj, b_ents = fx.mk_angle(getattr(sm, "Py_" + bk), ta), _sdk_matrix(ta)
                    v_obj = {"Vec": lambda: sm.Py_Vec(*vs), "FrozenVec": lambda: sm.Py_FrozenVec(*vs), "tuple": lambda: tuple(vs)}[vk]()
                    want = _vm(_vm(vs, a_ents), b_ents)
                    if order == "rhs-first":
                        rhs = v_obj @ (a_obj @ b_obj)
                        lhs = (v_obj @ a_obj) @ b_obj
                    else:
                        lhs = (v_obj @ a_obj) @ b_obj
                        rhs = v_obj @ (a_obj @ b_obj)
                    lab = f"assoc {vk} @ {ac.__name__} @ {bk} [{order}]"
                    rec.prove(lab + " lhs", [], _eq_all(z3, [lhs.x, lhs.y, lhs.z], want), conj=True)
                    rec.prove(lab + " rhs", [], _eq_all(z3, [rhs.x, rhs.y, rhs.z], want), conj=True)
    # associativity of the vector action through two general matrices
    v = fx.vec("v")
    A, ae = fx.gen_matrix(sm.Py_Matrix, "A")
    B, be = fx.gen_matrix(sm.Py_FrozenMatrix, "B")
    lhs = (sm.Py_Vec(*v) @ A) @ B
    rhs = sm.Py_Vec(*v) @ (A @ B)
    rec.prove("(v@A)@B == v@(A@B) [matrices]", [], _eq_all(z3, [lhs.x, lhs.y, lhs.z], [rhs.x, rhs.y, rhs.z]))
    # ... and through angles on the vector side (no Euler extraction involved)
    tb = fx.angle("b")
    a1, a2 = fx.mk_angle(sm.Py_Angle, ta), fx.mk_angle(sm.Py_FrozenAngle, tb)
    lhs = (sm.Py_Vec(*v) @ a1) @ a2
    rhs = sm.Py_Vec(*v) @ (sm.Py_Matrix.from_angle(a1) @ a2)
    rec.prove("(v@A)@B == v@(M(A)@B) [angles]", [], _eq_all(z3, [lhs.x, lhs.y, lhs.z], [rhs.x, rhs.y, rhs.z]))
    return rec.result()


def _expected_tags(fx, P):
    """Euler extraction of matrix P written independently (SDK MatrixAngles), non-gimbal branch."""
    import math as _m
    px = fx.proxy if fx.concrete is None else type("M", (), {"sqrt": staticmethod(_m.sqrt), "atan2": staticmethod(lambda y, x: _m.degrees(_m.atan2(y, x)) % 360.0)})
    h = px.sqrt(P[0][0] * P[0][0] + P[0][1] * P[0][1])
    yaw = px.atan2(P[0][1], P[0][0])
    pitch = px.atan2(-P[0][2], h)
    roll = px.atan2(P[1][2], P[2][2])
    return h, (pitch, yaw, roll)


def _paths(fx, fn):
    """Run fn() under every feasible decision vector; yields (pc, side constraints, result)."""
    out = []
    if fx.concrete is not None:
        return [([], ([], []), fn(), False)]

    def run():
        del fx.proxy.side[:]
        del fx.proxy.nonneg[:]
        res = fn()
        return res, (list(fx.proxy.side), list(fx.proxy.nonneg))
    for pc, (res, side), unk in fx.symx.explore(run, lambda: fx.cons + list(fx.proxy.side), timeout_ms=3000, max_paths=400):
        out.append((pc, side, res, unk))
    del fx.proxy.side[:]
    return out


def o_angle_products(_concrete=None):
    """Angle@Angle, Angle@Matrix, @= and reflected forms == to_angle(M(A).M(B)) on the non-gimbal branch
    (compared through sin/cos of the result); gimbal-branch paths are only counted."""
    fx = _fx(_concrete)
    z3, sm, symx = fx.z3, fx.sm, fx.symx
    rec = Rec(fx)
    ta, tb = fx.angle("a"), fx.angle("b")
    rec.satisfiable(fx.cons, "angle products")
    cases = []
    for lc in (sm.Py_Angle, sm.Py_FrozenAngle):
        for rc in (sm.Py_Angle, sm.Py_FrozenAngle):
            cases.append((f"{lc.__name__}@{rc.__name__}", lc, lambda lc=lc: fx.mk_angle(lc, ta), lambda rc=rc: fx.mk_angle(rc, tb), True))
        for rc in (sm.Py_Matrix, sm.Py_FrozenMatrix):
            cases.append((f"{lc.__name__}@{rc.__name__}", lc, lambda lc=lc: fx.mk_angle(lc, ta), lambda rc=rc: fx.gen_matrix(rc, "m")[0], False))
    gimbal_paths = 0
    for name, lc, mkl, mkr, r_is_angle in cases:
        for form in ("@", "@="):   # the reflected methods are never reached with an Angle on the left (Angle.__matmul__ wins)
            def op():
                l, r = mkl(), mkr()
                keep = l
                if form == "@":
                    res = l @ r
                elif form == "@=":
                    l @= r
                    res = l
                else:
                    res = r.__rmatmul__(l)
                return res, keep, r
            try:
                runs = _paths(fx, op)
            except symx.Escaped as ex:
                rec.unknown.append(f"{name} {form}: {ex}")
                continue
            for pc, (side, _nn), (res, keep, r), unk in runs:
                if unk:
                    rec.unknown.append(f"{name} {form}: branch feasibility unknown")
                rec.native(f"type({name} {form})", type(res) is lc, type(res).__name__)
                got = (res._pitch, res._yaw, res._roll)
                Pm = _mm(_sdk_matrix(ta), _sdk_matrix(tb) if r_is_angle else _ents(r))
                if fx.concrete is not None:
                    h, want = _expected_tags(fx, Pm)
                    if h <= 0.001000001:
                        gimbal_paths += 1
                        continue
                    rec.prove(f"{name} {form}", [], [Eq(g, w, "angle") for g, w in zip(got, want)])
                    continue
                if not isinstance(got[2], symx.AngleTag):
                    gimbal_paths += 1      # roll = 0.0: the gimbal branch; covered (weakly) by o_roundtrip
                    continue
                del fx.proxy.side[:]
                h, want = _expected_tags(fx, Pm)
                cons = fx.cons + side + list(fx.proxy.side) + pc
                del fx.proxy.side[:]
                goals = [Eq(g, w, "angle") for g, w in zip(got, want)]
                rec.prove(f"{name} {form}", cons, goals, timeout_ms=60000, conj=True)
    res = rec.result()
    res["gimbal_paths_not_claimed"] = gimbal_paths
    return res


def _rotation(fx, cls, prefix="M"):
    """An arbitrary proper rotation, parametrised as from_angle(p, y, r) of unconstrained (sin, cos) pairs.
    (Every proper rotation has Euler angles: standard fact, assumed.) Entries come from the SDK reference formula,
    so this fixture does not depend on the library's from_angle."""
    tags = fx.angle(prefix)
    ref = _sdk_matrix(tags)
    ents = [x for row in ref for x in row]
    if fx.concrete is not None:
        return cls._from_raw(*ents), ref, [], []
    rows = [[x.e for x in row] for row in ref]
    lemmas = [sum(rows[k][i] * rows[k][j] for k in range(3)) == (1 if i == j else 0) for i in range(3) for j in range(i, 3)]
    lemmas += [sum(rows[i][k] * rows[j][k] for k in range(3)) == (1 if i == j else 0) for i in range(3) for j in range(i, 3)]
    return cls._from_raw(*ents), ref, [], lemmas


def _use_lemmas(rec, fx, rcons, lemmas):
    """Prove each lemma from the row constraints alone, then add it to the assumption set (sound strengthening)."""
    n0 = len(rec.items)
    rec.prove("lemma: rows and columns orthonormal", fx.cons + rcons, lemmas, timeout_ms=120000)
    if all(it["r"] == "unsat" for it in rec.items[n0:]):
        fx.cons += lemmas


def _aux_lemmas(rec, fx, cons, nonneg):
    """Staged proof: equalities between the non-negative auxiliary symbols (u == v, u == 1) that z3 can prove
    from the current assumptions are added as lemmas. Each is solver-proved, so the strengthening is sound."""
    z3 = fx.z3
    out = []
    cands = [(u, z3.RealVal(1)) for u in nonneg] + [(nonneg[i], nonneg[j]) for i in range(len(nonneg)) for j in range(i + 1, len(nonneg))]
    for u, v in cands:
        res, _m = fx.symx.prove(cons + out, u == v, 8000)
        if res == "holds":
            out.append(u == v)
            rec.items.append({"q": f"aux lemma {u} == {v}", "r": "unsat"})
    return out


def o_roundtrip(entry: int = -1, timeout_s: int = 120, _concrete=None):
    """from_angle(to_angle(M)) == M for every proper rotation M on the non-gimbal branch (entry-wise, over the reals).
    On the gimbal branch (horiz_dist <= 0.001) only the weaker facts are claimed: the forward row's z entry is
    reproduced, roll is 0 and, when the forward axis is exactly vertical, the whole matrix is reproduced."""
    fx = _fx(_concrete)
    z3, sm, symx = fx.z3, fx.sm, fx.symx
    rec = Rec(fx)
    M, ents, rcons, lemmas = _rotation(fx, sm.Py_Matrix)
    fx.cons += rcons
    if fx.concrete is None:
        _use_lemmas(rec, fx, rcons, lemmas)
    if fx.concrete is None:
        rec.satisfiable(fx.cons + [ents[0][0].e * ents[0][0].e + ents[0][1].e * ents[0][1].e > 1e-6], "roundtrip")

    def op():
        ang = M.to_angle()
        return ang, sm.Py_Matrix.from_angle(ang)
    n_non = n_gim = 0
    for pc, (side, nonneg), (ang, M2), unk in _paths(fx, op):
        cons = fx.cons + side + pc
        if fx.concrete is None:
            cons = cons + _aux_lemmas(rec, fx, cons, nonneg)
        e2 = _ents(M2)
        if fx.concrete is not None:
            hh = (float(ents[0][0]) ** 2 + float(ents[0][1]) ** 2) ** 0.5
            nongimbal = hh > 0.001000001
        else:
            nongimbal = isinstance(ang._roll, symx.AngleTag)
        if nongimbal:
            n_non += 1
            goals = _eq_all(z3, e2, ents)
            idx = range(9) if entry < 0 else [entry]
            for k in idx:
                rec.prove(f"roundtrip entry {k // 3}{k % 3}", cons, [goals[k]], timeout_ms=timeout_s * 1000)
        else:
            n_gim += 1
            rec.native("gimbal: roll is exactly 0", ang._roll == 0.0)
            if fx.concrete is None:
                # the lossy branch may only be taken under the engine's threshold: horizontal length <= 0.001
                hsq = ents[0][0].e * ents[0][0].e + ents[0][1].e * ents[0][1].e
                # (stated so that any model shows an observable difference: outside the threshold the round trip must be exact)
                exact = z3.And([g.z3() for g in _eq_all(z3, e2, ents)])
                rec.prove("gimbal branch only when horiz_dist <= 0.001 (else exact)", cons,
                          [z3.Or(hsq <= _e(0.001) * _e(0.001), exact)], timeout_ms=timeout_s * 1000)
            if entry < 0:
                rec.prove("gimbal: forward.z reproduced", cons, [Eq(e2[0][2], ents[0][2])], timeout_ms=timeout_s * 1000)
                if fx.concrete is not None:
                    continue
                vertical = [ents[0][0].e == 0, ents[0][1].e == 0]
                rec.prove("gimbal, exactly vertical: matrix reproduced", cons + vertical, _eq_all(z3, e2, ents), timeout_ms=timeout_s * 1000, conj=True)
    if fx.concrete is None:
        rec.native("both branches explored", n_non >= 1 and n_gim >= 1, f"{n_non} {n_gim}")
    return rec.result()


class _Cut(Exception):
    pass


def o_inverse_pivot(_concrete=None):
    """Partial claim for inverse(): on every proper rotation the first pivot search of the Gauss-Jordan code finds a
    pivot, i.e. the 'Matrix has no inverse' error cannot be raised before the first elimination step.
    (The full clause inverse()==transpose() is outside reach: see DESIGN, C04.) The path is cut at the first division."""
    fx = _fx(_concrete)
    z3, sm, symx = fx.z3, fx.sm, fx.symx
    rec = Rec(fx)
    M, ents, rcons, lemmas = _rotation(fx, sm.Py_Matrix)
    if fx.concrete is not None:
        try:
            inv = M.inverse()
        except ArithmeticError as e:
            rec.fail = {"query": "inverse raised ArithmeticError on a rotation", "goal": str(e), "model": dict(fx.used)}
            return rec.result()
        rec.prove("inverse==transpose (numeric)", [], _eq_all(z3, _ents(inv), [[ents[j][i] for j in range(3)] for i in range(3)]))
        return rec.result()
    _use_lemmas(rec, fx, rcons, lemmas)
    rec.satisfiable(fx.cons, "inverse_pivot")

    def cut():
        raise _Cut()

    def op():
        symx.DIV_HOOK = cut
        try:
            return M.inverse()
        except ArithmeticError as e:
            return e
        except _Cut:
            return "cut"
        finally:
            symx.DIV_HOOK = None
    n_cut = n_err = 0
    for pc, (side, _nn), res, unk in _paths(fx, op):
        if res == "cut":
            n_cut += 1
            continue
        n_err += 1
        cons = fx.cons + side + pc
        s = symx.new_solver(60000)
        s.add(cons)
        r = symx.check(s)
        rec.items.append({"q": f"no-pivot path {n_err} infeasible", "r": r})
        if r == "sat":
            m = s.model()
            rec.fail = rec.fail or {"query": "inverse(): no pivot found in the first column of a rotation", "goal": "",
                                    "model": {str(d): symx.model_value(m, d()) for d in m.decls()}}
        elif r != "unsat":
            rec.unknown.append(f"no-pivot path {n_err}: {r}")
    rec.native("pivot paths explored", n_cut >= 3, f"{n_cut} cut, {n_err} error paths")
    return rec.result()


def replay(o: str = "", **kw):
    """Native replay of an E2 model: rerun obligation `o` in concrete mode with the model's values (floats, real math)."""
    raise RuntimeError("use replay_<obligation>")


def _mk_replay(name):
    def rp(**cex):
        params = {k: v for k, v in cex.items() if k in ("entry", "timeout_s")}
        model = {k: v for k, v in cex.items() if k not in params}
        r = globals()[name](_concrete=model, **params)
        if r["verdict"] == "reproduced":
            from vf.h import Fail
            raise Fail(r["detail"])
    rp.__name__ = "replay_" + name
    return rp


for _n in ("o_convention", "o_dispatch", "o_matrix_products", "o_angle_products", "o_roundtrip", "o_inverse_pivot"):
    globals()["replay_" + _n] = _mk_replay(_n)


def o_validate_encoding():
    """Translator validation: every obligation, run in concrete mode on angle/vector values taken from the repo's own
    tests (tests/test_rotations.py style grids), must agree with the real float code."""
    import itertools
    import math as _m
    n = 0
    bad = None
    grid = [0.0, 45.0, 90.0, 135.0, 270.0, 12.5, 333.0]
    for p_, y_, r_ in itertools.product(grid, [0.0, 30.0, 180.0, 271.0], [0.0, 90.0, 200.5]):
        model = {}
        for pre, (a, b, c) in (("a", (p_, y_, r_)), ("b", (y_, r_, p_)), ("M", (p_, y_, r_))):
            for ax, v in zip("pyr", (a, b, c)):
                model[f"{pre}_s{ax}"] = _m.sin(_m.radians(v))
                model[f"{pre}_c{ax}"] = _m.cos(_m.radians(v))
        for f in (o_convention, o_dispatch, o_matrix_products, o_angle_products, o_roundtrip, o_inverse_pivot):
            r = f(_concrete=model)
            n += r.get("checked", 0)
            if r["verdict"] == "reproduced" and bad is None:
                bad = {"obligation": f.__name__, "angles": (p_, y_, r_), "detail": r["detail"]}
    return {"verdict": "confirmed" if bad is None else "harness-error", "error": json.dumps(bad) if bad else None,
            "paths": n, "queries": 0, "samples": [{"concrete checks": n}]}


def obligations(tier):
    def ob(name, func, desc, bound="all reals", budget=600, **kw):
        return Obl(name, MOD, func, engine="call", budget_s=budget, desc=desc, bound=bound, replay="replay_" + func, **kw)
    return [
        Obl("encoding_validation", MOD, "o_validate_encoding", engine="call", budget_s=300,
            desc="translator validation: all obligations in concrete mode on a grid of test angles agree with the real float code"),
        ob("convention", "o_convention", "from_angle == SDK AngleMatrix == Rx(roll).Ry(pitch).Rz(yaw); orthonormal rows, det +1"),
        ob("dispatch", "o_dispatch", "{Vec,FrozenVec,tuple} x {Angle,FrozenAngle,Matrix,FrozenMatrix} x {@,@=,reflected}: value and result type"),
        ob("matrix_products", "o_matrix_products", "Matrix products in all class mixes and forms; associativity of the vector action"),
        ob("angle_products", "o_angle_products", "Angle@Angle / Angle@Matrix (@ and @=) == Euler extraction of the matrix product",
           bound="all reals, non-gimbal branch (horiz_dist > 0.001)"),
        ob("roundtrip", "o_roundtrip", "from_angle(to_angle(M)) == M for M = any Euler rotation; weaker facts on the gimbal branch",
           bound="all reals; gimbal branch: forward.z, roll = 0, exact when exactly vertical"),
        ob("inverse_pivot", "o_inverse_pivot", "inverse() finds a first-column pivot on every rotation (partial clause)"),
    ]
