"""C04 — rotation algebra of Vec/Angle/Matrix (E2: real code on SymReal values, z3 NRA validity queries).

All identities are over the REALS (sin/cos are symbols constrained by s^2+c^2=1); IEEE rounding is outside.
"""
from __future__ import annotations

import json
import time
from typing import Any, Dict, List

from vf.core import Obl

MOD = "vf.props.c04"

META = {
    "level": "other",
    "functions": ["srctools.math:MatrixBase.from_angle", "srctools.math:MatrixBase.from_pitch", "srctools.math:MatrixBase.from_yaw",
                  "srctools.math:MatrixBase.from_roll", "srctools.math:MatrixBase._mat_mul", "srctools.math:MatrixBase._vec_rot",
                  "srctools.math:MatrixBase.transpose", "srctools.math:MatrixBase.inverse", "srctools.math:MatrixBase._to_angle",
                  "srctools.math:MatrixBase.__matmul__", "srctools.math:MatrixBase.__rmatmul__", "srctools.math:VecBase.__matmul__",
                  "srctools.math:Vec.__imatmul__", "srctools.math:AngleBase.__matmul__", "srctools.math:AngleBase.__rmatmul__",
                  "srctools.math:AngleBase._rotate_angle", "srctools.math:Angle.__imatmul__", "srctools.math:Matrix.__imatmul__"],
    "bounds": "no value bound: pitch/yaw/roll enter as (sin, cos) pairs of arbitrary reals with s^2+c^2=1, vectors and general matrices "
              "as arbitrary reals; the inverse obligation explores every pivoting path of the Gauss-Jordan code",
    "outside": "IEEE-754 rounding (identities are over the reals), the quantitative gimbal-lock tolerance, magnitudes, the Cython/C++ twins; "
               "inverse() of matrices that are not rotations",
    "stubs": ["srctools.math.math -> MathProxy (sin/cos of an angle tag are symbols; sqrt, atan2 by their defining equations)",
              "srctools.math.float -> FloatShim (passes symbolic floats through)"],
    "trusted_base": ["z3 nlsat (QF_NRA)", "vf/symx.py operator-overloading executor", "SDK AngleMatrix formula transcribed in the harness as the reference"],
    "assumptions": ["inverse obligation: a proper rotation is any real 3x3 matrix with M.M^T = M^T.M = I and det M = 1 (9 free reals, no Euler "
                    "parametrisation); the composition of the solver-proved steps (rewrite rules of the rational normal form, "
                    "associativity instance, pivot-product identity) into one argument per path is done by the harness",
                    "sin^2+cos^2=1 is the only fact about sin/cos used", "atan2(y,x) is characterised by sin=y/r, cos=x/r, r=|(x,y)|>0",
                    "x % 360 does not change sin/cos of x"],
    "explanation": "Each obligation runs the real srctools.math methods on symbolic reals and asks z3 whether the negated identity is "
                   "satisfiable together with the trigonometric side constraints; unsat = the identity holds for all reals. "
                   "Each obligation also checks that its constraint set alone is satisfiable (vacuity).",
}


def setup(engine):
    pass


# ------------------------------------------------------------------ symbolic fixtures

class CTag(float):
    """Concrete-mode stand-in for an angle: a plain float of degrees that also exposes .sin/.cos."""
    @property
    def sin(self):
        import math
        return math.sin(math.radians(float(self)))

    @property
    def cos(self):
        import math
        return math.cos(math.radians(float(self)))


def _fx(concrete=None):
    """Symbolic fixture (default) or, for native replay/validation, a concrete one fed from a solver model."""
    import z3
    from vf import symx
    import srctools.math as sm

    class FX:
        pass
    fx = FX()
    fx.z3, fx.symx, fx.sm = z3, symx, sm
    fx.cons = []
    fx.concrete = concrete
    if concrete is None:
        fx.proxy = symx.install_math_shims()
    else:
        import math as _m
        fx.proxy = None
        fx.used = {}

        def val(name, default):
            v = concrete.get(name, default)
            v = float(v) if not isinstance(v, str) else default
            fx.used[name] = v
            return v
        fx.val = val

    def angle(prefix):
        tags = []
        for k, ax in enumerate(("p", "y", "r")):
            if concrete is None:
                s, c = z3.Real(f"{prefix}_s{ax}"), z3.Real(f"{prefix}_c{ax}")
                fx.cons.append(s * s + c * c == 1)
                tags.append(symx.AngleTag(symx.SymReal(s), symx.SymReal(c), f"{prefix}.{ax}"))
            else:
                import math as _m
                sv = fx.val(f"{prefix}_s{ax}", [0.6, -0.28, 0.96][k])
                cv = fx.val(f"{prefix}_c{ax}", [0.8, 0.96, -0.28][k])
                tags.append(CTag(_m.degrees(_m.atan2(sv, cv)) % 360.0))
        return tags
    fx.angle = angle

    def mk_angle(cls, tags):
        if concrete is not None:
            return cls(float(tags[0]), float(tags[1]), float(tags[2]))
        a = cls.__new__(cls)
        a._pitch, a._yaw, a._roll = tags
        return a
    fx.mk_angle = mk_angle

    def vec(prefix):
        if concrete is not None:
            return [fx.val(f"{prefix}_{a}", d) for a, d in zip("xyz", (3.0, -4.5, 12.25))]
        return [symx.SymReal(z3.Real(f"{prefix}_{a}")) for a in "xyz"]
    fx.vec = vec

    def gen_matrix(cls, prefix):
        if concrete is not None:
            ents = [fx.val(f"{prefix}_{i}{j}", float((i * 3 + j) % 5) - 1.5) for i in range(3) for j in range(3)]
        else:
            ents = [symx.SymReal(z3.Real(f"{prefix}_{i}{j}")) for i in range(3) for j in range(3)]
        return cls._from_raw(*ents), [ents[0:3], ents[3:6], ents[6:9]]
    fx.gen_matrix = gen_matrix
    return fx


def _sdk_matrix(tags):
    """Source SDK AngleMatrix (mathlib_base.cpp), transposed to the library's row-vector layout.
    rows: forward, left, up."""
    p, y, r = tags
    sp, cp, sy, cy, sr, cr = p.sin, p.cos, y.sin, y.cos, r.sin, r.cos
    return [
        [cp * cy, cp * sy, -sp],
        [sr * sp * cy - cr * sy, sr * sp * sy + cr * cy, sr * cp],
        [cr * sp * cy + sr * sy, cr * sp * sy - sr * cy, cr * cp],
    ]


def _axis_mats(tags):
    p, y, r = tags
    one, zero = 1.0, 0.0
    rx = [[one, zero, zero], [zero, r.cos, r.sin], [zero, -r.sin, r.cos]]
    ry = [[p.cos, zero, -p.sin], [zero, one, zero], [p.sin, zero, p.cos]]
    rz = [[y.cos, y.sin, zero], [-y.sin, y.cos, zero], [zero, zero, one]]
    return rx, ry, rz


def _mm(a, b):
    return [[a[i][0] * b[0][j] + a[i][1] * b[1][j] + a[i][2] * b[2][j] for j in range(3)] for i in range(3)]


def _vm(v, m):
    return [v[0] * m[0][j] + v[1] * m[1][j] + v[2] * m[2][j] for j in range(3)]


def _ents(m):
    return [[m._aa, m._ab, m._ac], [m._ba, m._bb, m._bc], [m._ca, m._cb, m._cc]]


def _e(v):
    from vf.symx import _rv
    return _rv(v)


class Eq:
    """A goal `got == want` kept as a pair so it can be posed to z3 (symbolic) or compared numerically (replay)."""

    def __init__(self, got, want, kind="real"):
        self.got, self.want, self.kind = got, want, kind

    def z3(self):
        from vf import symx
        if self.kind == "angle":
            sg = symx.same_tag_goals(self.got, self.want)
            if sg is None:
                sg = [self.got.sin.e == self.want.sin.e, self.got.cos.e == self.want.cos.e]
            import z3
            return z3.And(sg)
        return _e(self.got) == _e(self.want)

    def holds_numerically(self):
        g, w = float(self.got), float(self.want)
        if self.kind == "angle":
            d = abs(g - w) % 360.0
            return min(d, 360.0 - d) <= 1e-4
        return abs(g - w) <= 1e-6 * (1.0 + abs(w))

    def __str__(self):
        return f"{self.got!r} == {self.want!r}"


def _eq_all(z3, got, want):
    flat_g = [x for row in got for x in row] if isinstance(got[0], list) else list(got)
    flat_w = [x for row in want for x in row] if isinstance(want[0], list) else list(want)
    assert len(flat_g) == len(flat_w)
    return [Eq(g, w) for g, w in zip(flat_g, flat_w)]


class Rec:
    """Collects the outcome of the queries of one obligation."""

    def __init__(self, fx):
        self.fx = fx
        self.items: List[Dict[str, Any]] = []
        self.t0 = time.perf_counter()
        self.fail = None
        self.unknown = []
        self.vacuous = False

    def satisfiable(self, cons, label):
        if self.fx.concrete is not None:
            return
        r = self.fx.symx.satisfiable(cons, 60000)
        if r != "sat":
            self.vacuous = True
            self.unknown.append(f"{label}: constraints {r}")

    def prove(self, label, cons, goals, timeout_ms=120000, conj=False):
        z3 = self.fx.z3
        if self.fx.concrete is not None:
            for i, g in enumerate(goals):
                ok = g.holds_numerically() if isinstance(g, Eq) else True
                self.items.append({"q": f"{label}[{i}]", "r": "ok" if ok else "FAILED"})
                if not ok and self.fail is None:
                    self.fail = {"query": f"{label}[{i}]", "goal": str(g)[:300], "model": dict(self.fx.used)}
            return
        goals = [g.z3() if isinstance(g, Eq) else g for g in goals]
        if conj:
            goals = [z3.And(goals)]
        for i, g in enumerate(goals):
            res, model = self.fx.symx.prove(cons, g, timeout_ms)
            if res == "holds":
                self.items.append({"q": f"{label}[{i}]", "r": "unsat"})
            elif res == "cex":
                vals = {str(d): self.fx.symx.model_value(model, d()) for d in model.decls()}
                self.items.append({"q": f"{label}[{i}]", "r": "sat"})
                if self.fail is None:
                    self.fail = {"query": f"{label}[{i}]", "goal": str(g)[:300], "model": vals}
            else:
                self.items.append({"q": f"{label}[{i}]", "r": "unknown"})
                self.unknown.append(f"{label}[{i}]")

    def native(self, label, cond, detail=""):
        """A concrete (non-solver) structural check, e.g. result types."""
        self.items.append({"q": label, "r": "ok" if cond else "FAILED"})
        if not cond and self.fail is None:
            self.fail = {"query": label, "goal": detail, "model": {}}

    def result(self):
        st = self.fx.symx.STATS
        if self.fx.concrete is not None:
            return {"verdict": "reproduced" if self.fail else "not-reproduced", "detail": json.dumps(self.fail, default=repr)[:1500],
                    "checked": len(self.items)}
        if self.fail is not None:
            verdict = "refuted"
        elif self.vacuous:
            verdict = "vacuous"
        elif self.unknown:
            verdict = "unknown"
        else:
            verdict = "confirmed"
        return {"verdict": verdict, "queries": st["queries"], "solver_checks": st["queries"], "solver_s": round(st["seconds"], 3),
                "paths": len(self.items), "cex": (self.fail or {}).get("model"), "failure": self.fail,
                "unknown_reasons": {u: 1 for u in self.unknown[:8]},
                "samples": [self.items[:3]], "wall_s": round(time.perf_counter() - self.t0, 3)}


# ------------------------------------------------------------------ obligations

def o_convention(_concrete=None):
    """from_angle (every argument form, both matrix classes) == SDK formula == Rx(roll)*Ry(pitch)*Rz(yaw); proper rotation."""
    fx = _fx(_concrete)
    z3, sm = fx.z3, fx.sm
    rec = Rec(fx)
    tags = fx.angle("a")
    ref = _sdk_matrix(tags)
    rx, ry, rz = _axis_mats(tags)
    prod = _mm(_mm(rx, ry), rz)
    rec.satisfiable(fx.cons, "convention")
    rec.prove("sdk==Rx.Ry.Rz", [], _eq_all(z3, ref, prod))
    for cls in (sm.Py_Matrix, sm.Py_FrozenMatrix):
        forms = {
            "Angle": lambda: cls.from_angle(fx.mk_angle(sm.Py_Angle, tags)),
            "FrozenAngle": lambda: cls.from_angle(fx.mk_angle(sm.Py_FrozenAngle, tags)),
            "3 floats": lambda: cls.from_angle(*tags),
        }
        for name, mk in forms.items():
            m = mk()
            rec.native(f"type {cls.__name__}.from_angle({name})", type(m) is cls)
            rec.prove(f"{cls.__name__}.from_angle({name})==SDK", [], _eq_all(z3, _ents(m), ref))
        # single-axis constructors and their library product
        mp, my, mr = cls.from_pitch(tags[0]), cls.from_yaw(tags[1]), cls.from_roll(tags[2])
        rec.prove(f"{cls.__name__}.from_pitch", [], _eq_all(z3, _ents(mp), ry))
        rec.prove(f"{cls.__name__}.from_yaw", [], _eq_all(z3, _ents(my), rz))
        rec.prove(f"{cls.__name__}.from_roll", [], _eq_all(z3, _ents(mr), rx))
    M = sm.Py_Matrix
    lib_prod = M.from_roll(tags[2]) @ M.from_pitch(tags[0]) @ M.from_yaw(tags[1])
    rec.prove("from_roll@from_pitch@from_yaw==from_angle", [], _eq_all(z3, _ents(lib_prod), _ents(M.from_angle(*tags))))
    # proper rotation: M M^T = I, det = +1  (needs s^2+c^2=1)
    m = M.from_angle(*tags)
    e = _ents(m)
    mt = _ents(m.transpose())
    rec.prove("transpose", [], _eq_all(z3, mt, [[e[j][i] for j in range(3)] for i in range(3)]))
    ident = [[1.0 if i == j else 0.0 for j in range(3)] for i in range(3)]
    rec.prove("orthonormal rows", fx.cons, _eq_all(z3, _mm(e, mt), ident))
    det = (e[0][0] * (e[1][1] * e[2][2] - e[1][2] * e[2][1]) - e[0][1] * (e[1][0] * e[2][2] - e[1][2] * e[2][0])
           + e[0][2] * (e[1][0] * e[2][1] - e[1][1] * e[2][0]))
    rec.prove("det=+1", fx.cons, [Eq(det, 1.0)])
    return rec.result()


def o_dispatch(_concrete=None):
    """Every Vec-kind @ rotation-kind, every operator form: value == v.M_ref and documented result type."""
    fx = _fx(_concrete)
    z3, sm = fx.z3, fx.sm
    rec = Rec(fx)
    tags = fx.angle("a")
    vx = fx.vec("v")
    gm_ents = None
    rot_kinds = {}
    rot_kinds["Angle"] = (lambda: fx.mk_angle(sm.Py_Angle, tags), _sdk_matrix(tags))
    rot_kinds["FrozenAngle"] = (lambda: fx.mk_angle(sm.Py_FrozenAngle, tags), _sdk_matrix(tags))
    for cls in (sm.Py_Matrix, sm.Py_FrozenMatrix):
        _m, ents = fx.gen_matrix(cls, "m")
        rot_kinds[cls.__name__] = ((lambda cls=cls: fx.gen_matrix(cls, "m")[0]), ents)
    vec_kinds = {
        "Vec": (lambda: sm.Py_Vec(*vx), sm.Py_Vec),
        "FrozenVec": (lambda: sm.Py_FrozenVec(*vx), sm.Py_FrozenVec),
        "tuple": (lambda: tuple(vx), sm.Py_Vec),
    }
    rec.satisfiable(fx.cons, "dispatch")
    for vk, (mkv, rtype) in vec_kinds.items():
        for rk, (mkr, ref) in rot_kinds.items():
            want = _vm(vx, ref)
            v, r = mkv(), mkr()
            res = v @ r
            rec.native(f"type({vk} @ {rk})", type(res) is rtype, f"{type(res).__name__}")
            rec.prove(f"{vk} @ {rk}", [], _eq_all(z3, [res.x, res.y, res.z], want))
            # in-place form
            v2 = mkv()
            orig = v2
            v2 @= mkr()
            rec.native(f"type({vk} @= {rk})", type(v2) is rtype, f"{type(v2).__name__}")
            rec.prove(f"{vk} @= {rk}", [], _eq_all(z3, [v2.x, v2.y, v2.z], want))
            # explicit reflected call
            res3 = r.__rmatmul__(mkv())
            rec.native(f"type({rk}.__rmatmul__({vk}))", type(res3) is rtype, f"{type(res3).__name__}")
            rec.prove(f"{rk}.__rmatmul__({vk})", [], _eq_all(z3, [res3.x, res3.y, res3.z], want))
    return rec.result()


def o_matrix_products(_concrete=None):
    """Matrix@Matrix, Matrix@Angle, in-place and reflected forms agree with the reference product (all class mixes)."""
    fx = _fx(_concrete)
    z3, sm = fx.z3, fx.sm
    rec = Rec(fx)
    ta = fx.angle("a")
    rec.satisfiable(fx.cons, "matrix products")
    mats = (sm.Py_Matrix, sm.Py_FrozenMatrix)
    angs = (sm.Py_Angle, sm.Py_FrozenAngle)
    for lc in mats:
        for rc in mats:
            l, le = fx.gen_matrix(lc, "l")
            r, re_ = fx.gen_matrix(rc, "r")
            want = _mm(le, re_)
            res = l @ r
            rec.native(f"type({lc.__name__}@{rc.__name__})", type(res) is lc, type(res).__name__)
            rec.prove(f"{lc.__name__}@{rc.__name__}", [], _eq_all(z3, _ents(res), want))
            l2, le2 = fx.gen_matrix(lc, "l")
            keep = l2
            l2 @= r
            rec.prove(f"{lc.__name__}@={rc.__name__}", [], _eq_all(z3, _ents(l2), want))
            res_r = r.__rmatmul__(fx.gen_matrix(lc, "l")[0])
            rec.prove(f"{rc.__name__}.__rmatmul__({lc.__name__})", [], _eq_all(z3, _ents(res_r), want))
        for ac in angs:
            l, le = fx.gen_matrix(lc, "l")
            a = fx.mk_angle(ac, ta)
            want = _mm(le, _sdk_matrix(ta))
            res = l @ a
            rec.native(f"type({lc.__name__}@{ac.__name__})", type(res) is lc, type(res).__name__)
            rec.prove(f"{lc.__name__}@{ac.__name__}", [], _eq_all(z3, _ents(res), want))
    # associativity with SHARED operand objects, both evaluation orders, every kind mix without Euler extraction
    # (a in {Matrix, FrozenMatrix}; b in all four rotation kinds; v in the three vector kinds): each side is also
    # compared with the independent reference product, so an operand damaged by an earlier evaluation is noticed.
    vs = fx.vec("v")
    for ac in mats:
        for bk in ("Matrix", "FrozenMatrix", "Angle", "FrozenAngle"):
            for vk in ("Vec", "FrozenVec", "tuple"):
                for order in ("rhs-first", "lhs-first"):
                    a_obj, a_ents = fx.gen_matrix(ac, "A")
                    if bk.endswith("Matrix"):
                        b_obj, b_ents = fx.gen_matrix(getattr(sm, "Py_" + bk), "B")
                    else:
                        b_obj, b_ents = fx.mk_angle(getattr(sm, "Py_" + bk), ta), _sdk_matrix(ta)
                    v_obj = {"Vec": lambda: sm.Py_Vec(*vs), "FrozenVec": lambda: sm.Py_FrozenVec(*vs), "tuple": lambda: tuple(vs)}[vk]()
                    want = _vm(_vm(vs, a_ents), b_ents)
                    if order == "rhs-first":
                        rhs = v_obj @ (a_obj @ b_obj)
                        lhs = (v_obj @ a_obj) @ b_obj
                    else:
                        lhs = (v_obj @ a_obj) @ b_obj
                        rhs = v_obj @ (a_obj @ b_obj)
                    lab = f"assoc {vk} @ {ac.__name__} @ {bk} [{order}]"
                    rec.prove(lab + " lhs", [], _eq_all(z3, [lhs.x, lhs.y, lhs.z], want), conj=True)
                    rec.prove(lab + " rhs", [], _eq_all(z3, [rhs.x, rhs.y, rhs.z], want), conj=True)
    # associativity of the vector action through two general matrices
    v = fx.vec("v")
    A, ae = fx.gen_matrix(sm.Py_Matrix, "A")
    B, be = fx.gen_matrix(sm.Py_FrozenMatrix, "B")
    lhs = (sm.Py_Vec(*v) @ A) @ B
    rhs = sm.Py_Vec(*v) @ (A @ B)
    rec.prove("(v@A)@B == v@(A@B) [matrices]", [], _eq_all(z3, [lhs.x, lhs.y, lhs.z], [rhs.x, rhs.y, rhs.z]))
    # ... and through angles on the vector side (no Euler extraction involved)
    tb = fx.angle("b")
    a1, a2 = fx.mk_angle(sm.Py_Angle, ta), fx.mk_angle(sm.Py_FrozenAngle, tb)
    lhs = (sm.Py_Vec(*v) @ a1) @ a2
    rhs = sm.Py_Vec(*v) @ (sm.Py_Matrix.from_angle(a1) @ a2)
    rec.prove("(v@A)@B == v@(M(A)@B) [angles]", [], _eq_all(z3, [lhs.x, lhs.y, lhs.z], [rhs.x, rhs.y, rhs.z]))
    return rec.result()


def _expected_tags(fx, P):
    """Euler extraction of matrix P written independently (SDK MatrixAngles), non-gimbal branch."""
    import math as _m
    px = fx.proxy if fx.concrete is None else type("M", (), {"sqrt": staticmethod(_m.sqrt), "atan2": staticmethod(lambda y, x: _m.degrees(_m.atan2(y, x)) % 360.0)})
    h = px.sqrt(P[0][0] * P[0][0] + P[0][1] * P[0][1])
    yaw = px.atan2(P[0][1], P[0][0])
    pitch = px.atan2(-P[0][2], h)
    roll = px.atan2(P[1][2], P[2][2])
    return h, (pitch, yaw, roll)


def _paths(fx, fn):
    """Run fn() under every feasible decision vector; yields (pc, side constraints, result)."""
    out = []
    if fx.concrete is not None:
        return [([], ([], []), fn(), False)]

    def run():
        del fx.proxy.side[:]
        del fx.proxy.nonneg[:]
        res = fn()
        return res, (list(fx.proxy.side), list(fx.proxy.nonneg))
    for pc, (res, side), unk in fx.symx.explore(run, lambda: fx.cons + list(fx.proxy.side), timeout_ms=3000, max_paths=400):
        out.append((pc, side, res, unk))
    del fx.proxy.side[:]
    return out


def o_angle_products(_concrete=None):
    """Angle@Angle, Angle@Matrix, @= and reflected forms == to_angle(M(A).M(B)) on the non-gimbal branch
    (compared through sin/cos of the result); gimbal-branch paths are only counted."""
    fx = _fx(_concrete)
    z3, sm, symx = fx.z3, fx.sm, fx.symx
    rec = Rec(fx)
    ta, tb = fx.angle("a"), fx.angle("b")
    rec.satisfiable(fx.cons, "angle products")
    cases = []
    for lc in (sm.Py_Angle, sm.Py_FrozenAngle):
        for rc in (sm.Py_Angle, sm.Py_FrozenAngle):
            cases.append((f"{lc.__name__}@{rc.__name__}", lc, lambda lc=lc: fx.mk_angle(lc, ta), lambda rc=rc: fx.mk_angle(rc, tb), True))
        for rc in (sm.Py_Matrix, sm.Py_FrozenMatrix):
            cases.append((f"{lc.__name__}@{rc.__name__}", lc, lambda lc=lc: fx.mk_angle(lc, ta), lambda rc=rc: fx.gen_matrix(rc, "m")[0], False))
    gimbal_paths = 0
    for name, lc, mkl, mkr, r_is_angle in cases:
        for form in ("@", "@="):   # the reflected methods are never reached with an Angle on the left (Angle.__matmul__ wins)
            def op():
                l, r = mkl(), mkr()
                keep = l
                if form == "@":
                    res = l @ r
                elif form == "@=":
                    l @= r
                    res = l
                else:
                    res = r.__rmatmul__(l)
                return res, keep, r
            try:
                runs = _paths(fx, op)
            except symx.Escaped as ex:
                rec.unknown.append(f"{name} {form}: {ex}")
                continue
            for pc, (side, _nn), (res, keep, r), unk in runs:
                if unk:
                    rec.unknown.append(f"{name} {form}: branch feasibility unknown")
                rec.native(f"type({name} {form})", type(res) is lc, type(res).__name__)
                got = (res._pitch, res._yaw, res._roll)
                Pm = _mm(_sdk_matrix(ta), _sdk_matrix(tb) if r_is_angle else _ents(r))
                if fx.concrete is not None:
                    h, want = _expected_tags(fx, Pm)
                    if h <= 0.001000001:
                        gimbal_paths += 1
                        continue
                    rec.prove(f"{name} {form}", [], [Eq(g, w, "angle") for g, w in zip(got, want)])
                    continue
                if not isinstance(got[2], symx.AngleTag):
                    gimbal_paths += 1      # roll = 0.0: the gimbal branch; covered (weakly) by o_roundtrip
                    continue
                del fx.proxy.side[:]
                h, want = _expected_tags(fx, Pm)
                cons = fx.cons + side + list(fx.proxy.side) + pc
                del fx.proxy.side[:]
                goals = [Eq(g, w, "angle") for g, w in zip(got, want)]
                rec.prove(f"{name} {form}", cons, goals, timeout_ms=60000, conj=True)
    res = rec.result()
    res["gimbal_paths_not_claimed"] = gimbal_paths
    return res


def _rotation(fx, cls, prefix="M"):
    """An arbitrary proper rotation, parametrised as from_angle(p, y, r) of unconstrained (sin, cos) pairs.
    (Every proper rotation has Euler angles: standard fact, assumed.) Entries come from the SDK reference formula,
    so this fixture does not depend on the library's from_angle."""
    tags = fx.angle(prefix)
    ref = _sdk_matrix(tags)
    ents = [x for row in ref for x in row]
    if fx.concrete is not None:
        return cls._from_raw(*ents), ref, [], []
    rows = [[x.e for x in row] for row in ref]
    lemmas = [sum(rows[k][i] * rows[k][j] for k in range(3)) == (1 if i == j else 0) for i in range(3) for j in range(i, 3)]
    lemmas += [sum(rows[i][k] * rows[j][k] for k in range(3)) == (1 if i == j else 0) for i in range(3) for j in range(i, 3)]
    return cls._from_raw(*ents), ref, [], lemmas


def _use_lemmas(rec, fx, rcons, lemmas):
    """Prove each lemma from the row constraints alone, then add it to the assumption set (sound strengthening)."""
    n0 = len(rec.items)
    rec.prove("lemma: rows and columns orthonormal", fx.cons + rcons, lemmas, timeout_ms=120000)
    if all(it["r"] == "unsat" for it in rec.items[n0:]):
        fx.cons += lemmas


def _aux_lemmas(rec, fx, cons, nonneg):
    """Staged proof: equalities between the non-negative auxiliary symbols (u == v, u == 1) that z3 can prove
    from the current assumptions are added as lemmas. Each is solver-proved, so the strengthening is sound."""
    z3 = fx.z3
    out = []
    cands = [(u, z3.RealVal(1)) for u in nonneg] + [(nonneg[i], nonneg[j]) for i in range(len(nonneg)) for j in range(i + 1, len(nonneg))]
    for u, v in cands:
        res, _m = fx.symx.prove(cons + out, u == v, 8000)
        if res == "holds":
            out.append(u == v)
            rec.items.append({"q": f"aux lemma {u} == {v}", "r": "unsat"})
    return out


def o_roundtrip(entry: int = -1, timeout_s: int = 120, _concrete=None):
    """from_angle(to_angle(M)) == M for every proper rotation M on the non-gimbal branch (entry-wise, over the reals).
    On the gimbal branch (horiz_dist <= 0.001) only the weaker facts are claimed: the forward row's z entry is
    reproduced, roll is 0 and, when the forward axis is exactly vertical, the whole matrix is reproduced."""
    fx = _fx(_concrete)
    z3, sm, symx = fx.z3, fx.sm, fx.symx
    rec = Rec(fx)
    M, ents, rcons, lemmas = _rotation(fx, sm.Py_Matrix)
    fx.cons += rcons
    if fx.concrete is None:
        _use_lemmas(rec, fx, rcons, lemmas)
    if fx.concrete is None:
        rec.satisfiable(fx.cons + [ents[0][0].e * ents[0][0].e + ents[0][1].e * ents[0][1].e > 1e-6], "roundtrip")

    def op():
        ang = M.to_angle()
        return ang, sm.Py_Matrix.from_angle(ang)
    n_non = n_gim = 0
    for pc, (side, nonneg), (ang, M2), unk in _paths(fx, op):
        cons = fx.cons + side + pc
        if fx.concrete is None:
            cons = cons + _aux_lemmas(rec, fx, cons, nonneg)
        e2 = _ents(M2)
        if fx.concrete is not None:
            hh = (float(ents[0][0]) ** 2 + float(ents[0][1]) ** 2) ** 0.5
            nongimbal = hh > 0.001000001
        else:
            nongimbal = isinstance(ang._roll, symx.AngleTag)
        if nongimbal:
            n_non += 1
            goals = _eq_all(z3, e2, ents)
            idx = range(9) if entry < 0 else [entry]
            for k in idx:
                rec.prove(f"roundtrip entry {k // 3}{k % 3}", cons, [goals[k]], timeout_ms=timeout_s * 1000)
        else:
            n_gim += 1
            rec.native("gimbal: roll is exactly 0", ang._roll == 0.0)
            if fx.concrete is None:
                # the lossy branch may only be taken under the engine's threshold: horizontal length <= 0.001
                hsq = ents[0][0].e * ents[0][0].e + ents[0][1].e * ents[0][1].e
                # (stated so that any model shows an observable difference: outside the threshold the round trip must be exact)
                exact = z3.And([g.z3() for g in _eq_all(z3, e2, ents)])
                rec.prove("gimbal branch only when horiz_dist <= 0.001 (else exact)", cons,
                          [z3.Or(hsq <= _e(0.001) * _e(0.001), exact)], timeout_ms=timeout_s * 1000)
            if entry < 0:
                rec.prove("gimbal: forward.z reproduced", cons, [Eq(e2[0][2], ents[0][2])], timeout_ms=timeout_s * 1000)
                if fx.concrete is not None:
                    continue
                vertical = [ents[0][0].e == 0, ents[0][1].e == 0]
                rec.prove("gimbal, exactly vertical: matrix reproduced", cons + vertical, _eq_all(z3, e2, ents), timeout_ms=timeout_s * 1000, conj=True)
    if fx.concrete is None:
        rec.native("both branches explored", n_non >= 1 and n_gim >= 1, f"{n_non} {n_gim}")
    return rec.result()


# ------------------------------------------------------------------ inverse() == transpose() on rotations

def _purify(z3, e, cache, defs):
    """Replace every division node of `e` by a fresh variable q (bottom-up); defs gets (q, num, den, purified num, purified den).
    The purified expression equals the original whenever q*den == num for every definition (and den != 0)."""
    k = e.get_id()
    if k in cache:
        return cache[k]
    if z3.is_app(e) and e.num_args() > 0:
        args = [_purify(z3, a, cache, defs) for a in e.children()]
        if e.decl().kind() == z3.Z3_OP_DIV:
            q = z3.Real(f"q{len(defs)}")
            defs.append((q, e.arg(0), e.arg(1), args[0], args[1]))
            r = q
        else:
            r = e.decl()(*args)
    else:
        r = e
    cache[k] = r
    return r


def _subterm_vars(z3, e, acc):
    if z3.is_const(e) and e.decl().kind() == z3.Z3_OP_UNINTERPRETED:
        acc[str(e)] = e
    for c in e.children():
        _subterm_vars(z3, c, acc)
    return acc


def _ratnorm(z3, e, cache):
    """(N, D) with e == N/D, built by the four textbook rules for +, *, /, unary minus (each rule is proved abstractly by the
    solver in o_inverse, 'rule:' items). N and D contain no division. D is a product of child denominators and of the
    numerators of divisors, so D != 0 whenever every divisor occurring in e is non-zero."""
    k = e.get_id()
    if k in cache:
        return cache[k][0]
    one = z3.RealVal(1)
    kind = e.decl().kind() if z3.is_app(e) else None
    ch = e.children()
    if not ch:
        r = (e, one)
    elif kind in (z3.Z3_OP_ADD, z3.Z3_OP_SUB):
        n, d = _ratnorm(z3, ch[0], cache)
        for c in ch[1:]:
            n2, d2 = _ratnorm(z3, c, cache)
            if kind == z3.Z3_OP_SUB:
                n2 = -n2
            if d.eq(d2):
                n = n + n2
            else:
                n, d = n * d2 + n2 * d, d * d2
        r = (n, d)
    elif kind == z3.Z3_OP_MUL:
        n, d = _ratnorm(z3, ch[0], cache)
        for c in ch[1:]:
            n2, d2 = _ratnorm(z3, c, cache)
            n, d = n * n2, d * d2
        r = (n, d)
    elif kind == z3.Z3_OP_UMINUS:
        n, d = _ratnorm(z3, ch[0], cache)
        r = (-n, d)
    elif kind == z3.Z3_OP_DIV:
        n, d = _ratnorm(z3, ch[0], cache)
        n2, d2 = _ratnorm(z3, ch[1], cache)
        r = (n * d2, d * n2)
    else:
        raise RuntimeError(f"unexpected operator {e.decl()} in a real-arithmetic term")
    cache[k] = (r, e)      # keep e alive: ids of freed terms are recycled
    return r


def o_inverse(part: int = 0, nparts: int = 1, _concrete=None):
    """inverse() == transpose() on every proper rotation, for every pivoting path of the real Gauss-Jordan code.

    The matrix is 9 arbitrary reals m_ij; "rotation" = M.M^T = I, M^T.M = I, det M = 1. Every decision vector of the real
    code is enumerated (no feasibility pruning), and each path is closed by a chain of solver queries (each one a validity
    query z3 decides; later queries use earlier ones only as assumptions that were themselves proved):
      success path:  every denominator is non-zero (by the path condition, or because it equals an earlier denominator, or by
                     the generic identity p0*p1*p2 == +-det M);  out.M == I or M.out == I as a generic rational identity;
                     X.M == I (or M.X == I) and M orthogonal  =>  X == M^T  (abstract lemma with the associativity instance).
      error path:    infeasible on rotations: column-0/1 pivot search fails => contradiction with the unit orthogonal columns;
                     a tolerance rejection |v| <= 1e-5 => v is a pivot, |p0|<=1, |p1|<=2, |p2|<=4 (entries and forward
                     multipliers are bounded by 1) and |p0.p1.p2| == 1.
    """
    fx = _fx(_concrete)
    z3, sm, symx = fx.z3, fx.sm, fx.symx
    rec = Rec(fx)
    if fx.concrete is not None:
        for cls in (sm.Py_Matrix, sm.Py_FrozenMatrix):
            M, ents = fx.gen_matrix(cls, "m")
            rot_ok = all(abs(sum(ents[i][k] * ents[j][k] for k in range(3)) - (1.0 if i == j else 0.0)) <= 1e-6
                         for i in range(3) for j in range(3))
            det = (ents[0][0] * (ents[1][1] * ents[2][2] - ents[1][2] * ents[2][1]) - ents[0][1] * (ents[1][0] * ents[2][2] - ents[1][2] * ents[2][0])
                   + ents[0][2] * (ents[1][0] * ents[2][1] - ents[1][1] * ents[2][0]))
            if not rot_ok or abs(det - 1.0) > 1e-6:
                rec.items.append({"q": "model is not a rotation within 1e-6", "r": "ok"})
                return rec.result()
            try:
                inv = M.inverse()
            except (ArithmeticError, ZeroDivisionError) as e:
                rec.fail = rec.fail or {"query": f"{cls.__name__}.inverse() raised on a rotation", "goal": f"{type(e).__name__}: {e}"[:200],
                                        "model": dict(fx.used)}
                continue
            rec.native(f"type of {cls.__name__}.inverse()", type(inv) is cls, type(inv).__name__)
            rec.prove(f"{cls.__name__}.inverse()==transpose (numeric)", [], _eq_all(z3, _ents(inv), [[ents[j][i] for j in range(3)] for i in range(3)]))
            if rec.fail is not None and not rec.fail.get("model"):
                rec.fail["model"] = dict(fx.used)
        return rec.result()

    M, ents = fx.gen_matrix(sm.Py_Matrix, "m")
    Mf, _ = fx.gen_matrix(sm.Py_FrozenMatrix, "m")
    E = [[x.e for x in row] for row in ents]
    delta = lambda i, j: 1 if i == j else 0
    rows = [sum(E[i][k] * E[j][k] for k in range(3)) == delta(i, j) for i in range(3) for j in range(i, 3)]
    cols = [sum(E[k][i] * E[k][j] for k in range(3)) == delta(i, j) for i in range(3) for j in range(i, 3)]
    det = (E[0][0] * (E[1][1] * E[2][2] - E[1][2] * E[2][1]) - E[0][1] * (E[1][0] * E[2][2] - E[1][2] * E[2][0])
           + E[0][2] * (E[1][0] * E[2][1] - E[1][1] * E[2][0]))
    R = rows + cols + [det == 1]
    ab = lambda e: z3.If(e >= 0, e, -e)
    rec.satisfiable(R + [E[0][0] != 1, E[0][0] != 0], "rotation constraints (vacuity)")

    memo: Dict[Any, Any] = {}

    def holds(label, cons, goal, to=20000, quiet=False):
        key = (tuple(sorted(c.get_id() for c in cons)), goal.get_id())
        if key not in memo:
            res, _m = symx.prove(cons, goal, to)
            memo[key] = (res, list(cons), goal)     # the ASTs are kept alive: z3 recycles the ids of freed terms
            if not quiet or res == "holds":
                rec.items.append({"q": label, "r": {"holds": "unsat", "cex": "sat"}.get(res, "unknown")})
        return memo[key][0] == "holds"

    # ---- abstract lemma C (both sides), with the associativity instance made explicit
    O = [[z3.Real(f"o{i}{j}") for j in range(3)] for i in range(3)]
    OM = [[sum(O[i][l] * E[l][k] for l in range(3)) for k in range(3)] for i in range(3)]
    MO = [[sum(E[i][l] * O[l][k] for l in range(3)) for k in range(3)] for i in range(3)]
    MMt = [[sum(E[k][l] * E[j][l] for l in range(3)) for j in range(3)] for k in range(3)]
    MtM = [[sum(E[l][i] * E[l][k] for l in range(3)) for k in range(3)] for i in range(3)]
    # (O.M).M^T == O.(M.M^T)   and   M^T.(M.O) == (M^T.M).O   as generic polynomial identities
    assoc_l = [sum(OM[i][k] * E[j][k] for k in range(3)) == sum(O[i][k] * MMt[k][j] for k in range(3)) for i in range(3) for j in range(3)]
    assoc_r = [sum(E[k][i] * MO[k][j] for k in range(3)) == sum(MtM[i][k] * O[k][j] for k in range(3)) for i in range(3) for j in range(3)]
    okC = {"left": all(holds(f"lemma assoc-left[{n}] (generic)", [], g) for n, g in enumerate(assoc_l)),
           "right": all(holds(f"lemma assoc-right[{n}] (generic)", [], g) for n, g in enumerate(assoc_r))}
    A_ = [[z3.Real(f"A{i}{j}") for j in range(3)] for i in range(3)]
    B_ = [[z3.Real(f"B{i}{j}") for j in range(3)] for i in range(3)]
    unit = [A_[i][j] == delta(i, j) for i in range(3) for j in range(3)] + [B_[i][j] == delta(i, j) for i in range(3) for j in range(3)]
    goalT = z3.And([O[i][j] == E[j][i] for i in range(3) for j in range(3)])
    inst_l = [sum(A_[i][k] * E[j][k] for k in range(3)) == sum(O[i][k] * B_[k][j] for k in range(3)) for i in range(3) for j in range(3)]
    inst_r = [sum(E[k][i] * A_[k][j] for k in range(3)) == sum(B_[i][k] * O[k][j] for k in range(3)) for i in range(3) for j in range(3)]
    okC["left"] = okC["left"] and holds("lemma C-left: O.M==I, M.M^T==I, assoc => O==M^T", unit + inst_l, goalT)
    okC["right"] = okC["right"] and holds("lemma C-right: M.O==I, M^T.M==I, assoc => O==M^T", unit + inst_r, goalT)
    # |m_ij| <= 1 from the norm of its own row
    box = []
    for i in range(3):
        for j in range(3):
            if holds(f"|m_{i}{j}| <= 1 from the row norm", [rows[[0, 3, 5][i]]], ab(E[i][j]) <= 1):
                box.append(ab(E[i][j]) <= 1)

    # ---- the four rewrite rules of _ratnorm, proved abstractly
    x, y, nx, dx, ny, dy = (z3.Real(n) for n in ("rx", "ry", "rnx", "rdx", "rny", "rdy"))
    hyp = [dx != 0, dy != 0, x * dx == nx, y * dy == ny]
    rules_ok = all([
        holds("rule: x+y == (nx*dy+ny*dx)/(dx*dy)", hyp, z3.And(dx * dy != 0, (x + y) * (dx * dy) == nx * dy + ny * dx)),
        holds("rule: x+y == (nx+ny)/dx when dy is dx", hyp + [dy == dx], (x + y) * dx == nx + ny),
        holds("rule: x-y == (nx*dy-ny*dx)/(dx*dy)", hyp, (x - y) * (dx * dy) == nx * dy + (-ny) * dx),
        holds("rule: x*y == (nx*ny)/(dx*dy)", hyp, z3.And(dx * dy != 0, (x * y) * (dx * dy) == nx * ny)),
        holds("rule: -x == (-nx)/dx", hyp, (-x) * dx == -nx),
        holds("rule: x/y == (nx*dy)/(dx*ny) for y != 0", hyp + [y != 0], z3.And(ny != 0, dx * ny != 0, (x / y) * (dx * ny) == nx * dy)),
    ])
    pts = [[z3.RealVal(v) for v in row] for row in ([3, -5, 7, 2, 11, -13, 17, 19, 23], [-2, 9, 4, 15, -7, 6, 1, 8, -21], [5, 1, -3, 2, 8, 13, -4, 7, 6])]
    flatE = [E[i][j] for i in range(3) for j in range(3)]

    def bridge(g, N, D, facts):
        """Translator validation of _ratnorm on this very term: at a rational point where every divisor is non-zero,
        z3's own evaluation of g equals its evaluation of N/D."""
        for pt in pts:
            sub = list(zip(flatE, pt))
            ev = lambda t: z3.simplify(z3.substitute(t, *sub))
            if not all(z3.is_true(ev(f)) for f in facts):
                continue
            dv = ev(D)
            if not z3.is_rational_value(dv) or dv.numerator_as_long() == 0:
                return False
            ok = z3.is_true(z3.simplify(ev(g) == ev(N) / dv))
            rec.items.append({"q": "bridge: term == N/D at a rational sample point (z3 evaluation)", "r": "ok" if ok else "FAILED"})
            return ok
        return False

    # ---- enumerate every decision vector of the real code
    def run_paths(mat):
        log: List[Any] = []
        symx.OP_LOG = log

        def op():
            del log[:]
            try:
                r = mat.inverse()
            except ArithmeticError as e:
                r = e
            return r, list(log), list(symx.ENG.raw)
        try:
            return [(pc, res, lg, raw) for pc, (res, lg, raw), _u in symx.explore(op, lambda: [], timeout_ms=1, max_paths=600)]
        finally:
            symx.OP_LOG = None
    paths = run_paths(M)
    fpaths = run_paths(Mf)
    same = len(paths) == len(fpaths)
    if same:
        for (pc, res, _l, _r), (pc2, res2, _l2, _r2) in zip(paths, fpaths):
            if len(pc) != len(pc2) or any(not a.eq(b) for a, b in zip(pc, pc2)) or isinstance(res, Exception) != isinstance(res2, Exception):
                same = False
                break
            if not isinstance(res, Exception):
                if type(res2) is not sm.Py_FrozenMatrix or type(res) is not sm.Py_Matrix:
                    same = False
                    break
                if any(not _e(a).eq(_e(b)) for ra, rb in zip(_ents(res), _ents(res2)) for a, b in zip(ra, rb)):
                    same = False
                    break
    rec.native("FrozenMatrix.inverse(): same paths, same entries, result types Matrix/FrozenMatrix", same, f"{len(paths)} / {len(fpaths)} paths")
    n_ok = sum(1 for p in paths if not isinstance(p[1], Exception))
    rec.native("paths enumerated", n_ok >= 1 and len(paths) > n_ok, f"{len(paths)} paths, {n_ok} returning")

    # group paths by their forward-phase prefix so that the memo is shared inside one part
    prefixes: List[Any] = []

    def group(pc):
        key = tuple(c.get_id() for c in pc[:5])
        if key not in prefixes:
            prefixes.append(key)
        return prefixes.index(key)
    groups = [group(p[0]) for p in paths]

    def distinct_dens(lg):
        out = []
        for it in lg:
            if it[0] == "div" and not any(it[2].eq(d) for d, _n in out):
                out.append((it[2], it[3]))
        return out

    def nonzero_chain(pc, lg, tag):
        """Prove every denominator non-zero, in execution order. Returns (facts, pivots, sigma) or None."""
        dens = distinct_dens(lg)
        facts: List[Any] = []
        sigma = None
        for i, (d, npc) in enumerate(dens):
            done = holds(f"{tag}: denominator {i} != 0 by the path condition", list(pc[:npc]) + facts, d != 0, 5000, quiet=True)
            if not done:
                for j in range(i):
                    if holds(f"{tag}: denominator {i} == denominator {j} (generic)", facts, d == dens[j][0], 5000, quiet=True):
                        done = True
                        break
            if not done and i == 2:
                for sg in (1, -1):
                    if holds(f"{tag}: p0*p1*p2 == {sg:+d}*det M (generic)", facts, dens[0][0] * dens[1][0] * d == sg * det, 20000, quiet=True):
                        P = [z3.Real(f"P{k}") for k in range(3)]
                        if holds("abstract: P0*P1*P2 == +-1 => P2 != 0", [P[0] * P[1] * P[2] == sg], P[2] != 0, 5000):
                            done, sigma = True, sg
                        break
            if not done:
                # not proved: ask for a rotation that reaches this division with a zero divisor and run the float code on it
                if not find_rotation_cex(tag, list(pc[:npc]) + facts + [d == 0], []):
                    rec.unknown.append(f"{tag}: denominator {i} not shown non-zero")
                return None
            facts.append(d != 0)
        if len(dens) >= 3 and sigma is None:
            for sg in (1, -1):
                if holds(f"{tag}: p0*p1*p2 == {sg:+d}*det M (generic)", facts[:2], dens[0][0] * dens[1][0] * dens[2][0] == sg * det, 20000, quiet=True):
                    sigma = sg
                    break
        return facts, [d for d, _n in dens[:3]], sigma

    def pivot_bounds(pc, raw, lg, pivots, tag):
        """|p_k| <= 2^k: entries are in [-1, 1] (row norms) and each forward multiplier has |q| <= 1 (pivot choice)."""
        out = []
        for k, pk in enumerate(pivots):
            cache: Dict[int, Any] = {}
            defs: List[Any] = []
            pur = _purify(z3, pk, cache, defs)
            qfacts = []
            for q, num, den, _pn, _pd in defs:
                N, D = z3.Real("N_abs"), z3.Real("D_abs")
                sub = [z3.substitute(c, (num, N), (den, D)) for c in raw[:5]]
                if holds(f"{tag}: forward multiplier |num/den| <= 1 by the pivot choice (abstracted operands)",
                         sub + [D != 0], ab(N / D) <= 1, 5000, quiet=True) or \
                   holds(f"{tag}: forward multiplier |num/den| <= 1 by the pivot choice", list(pc[:5]) + [den != 0], ab(num / den) <= 1, 10000, quiet=True):
                    qfacts.append(ab(q) <= 1)
            K = 2 ** k
            if not holds(f"{tag}: |p{k}| <= {K} (entries and multipliers in [-1,1])", box + qfacts, ab(pur) <= K, 30000):
                rec.unknown.append(f"{tag}: bound on pivot {k}")
                return None
            out.append(K)
        return out

    attempts = [0]

    def find_rotation_cex(tag, cons, extra):
        """A rotation on this path (solver model), replayed on the real float code. At most 16 attempts of 12 s per run."""
        for ex in ([extra, []] if extra else [[]]):
            if attempts[0] >= 16 or rec.fail is not None:
                return rec.fail is not None
            attempts[0] += 1
            s = symx.new_solver(12000)
            s.add(R + cons + ex)
            if symx.check(s) != "sat":
                continue
            m = s.model()
            vals = {str(d): symx.model_value(m, d()) for d in m.decls() if d.arity() == 0}
            chk = o_inverse(_concrete=vals)
            rec.items.append({"q": f"{tag}: rotation model replayed on the float code", "r": chk["verdict"]})
            if chk["verdict"] == "reproduced":
                rec.fail = {"query": f"{tag}: inverse() != transpose() on a rotation", "goal": chk["detail"][:300], "model": vals}
                return True
        return False

    for idx, (pc, res, lg, raw) in enumerate(paths):
        if groups[idx] % nparts != part or rec.fail is not None:
            continue
        tag = f"path {idx}"
        if isinstance(res, Exception):
            n_abs = [it for it in lg if it[0] == "abs"]
            dens = distinct_dens(lg)
            if len(dens) < 3:
                # pivot search failed in column 0 or 1: impossible with unit, mutually orthogonal columns
                if holds(f"{tag}: 'no pivot' path infeasible (columns orthonormal)", [], z3.Not(z3.And(cols + list(pc))), 30000) or \
                   holds(f"{tag}: 'no pivot' path infeasible (rotation)", [], z3.Not(z3.And(R + list(pc))), 60000):
                    continue
                if not find_rotation_cex(tag, list(pc), []):
                    rec.unknown.append(f"{tag}: no-pivot path not refuted")
                continue
            chain = nonzero_chain(pc[:-1], lg, tag)
            if chain is None:
                continue
            facts, pivots, sigma = chain
            v = n_abs[-1][1]
            which = [k for k, pk in enumerate(pivots) if holds(f"{tag}: rejected diagonal value == pivot {k} (generic)", facts, v == pk, 10000, quiet=True)]
            bounds = pivot_bounds(pc, raw, lg, pivots, tag) if which and sigma is not None else None
            if bounds is None:
                rec.unknown.append(f"{tag}: tolerance rejection not refuted")
                continue
            P = [z3.Real(f"P{k}") for k in range(3)]
            n = which[0]
            rejected = z3.substitute(raw[-1], (v, P[n]))       # the real code's own final decision, about the abstract pivot
            if holds(f"abstract: the rejection test on P{n}, |P_k| <= 2^k, P0*P1*P2 == +-1 is contradictory",
                     [P[0] * P[1] * P[2] == sigma] + [ab(P[k]) <= bounds[k] for k in range(3)], z3.Not(rejected), 10000):
                continue
            if not find_rotation_cex(tag, list(pc) + facts, []):
                rec.unknown.append(f"{tag}: tolerance rejection not refuted")
            continue
        # ---- a returning path
        chain = nonzero_chain(pc, lg, tag)
        if chain is None:
            continue
        facts, pivots, sigma = chain
        out = [[_e(x) for x in row] for row in _ents(res)]
        side = None
        for name, prod in (("left", lambda i, j: sum(out[i][k] * E[k][j] for k in range(3))),
                           ("right", lambda i, j: sum(E[i][k] * out[k][j] for k in range(3)))):
            if not okC[name] or not rules_ok:
                continue
            good = True
            for i in range(3):
                for j in range(3):
                    g = prod(i, j) - delta(i, j)
                    N, D = _ratnorm(z3, g, {})
                    lbl = f"{tag}: numerator of ({'out.M' if name == 'left' else 'M.out'} - I)[{i}{j}] is the zero polynomial"
                    if not (holds(lbl, [], N == 0, 30000, quiet=True) and bridge(g, N, D, facts)):
                        good = False
                        break
                if not good:
                    break
            if good:
                # negative control: the same machinery must NOT prove out.M == 2*I
                N2, _D2 = _ratnorm(z3, prod(0, 0) - 2, {})
                good = not holds(f"{tag}: control (out.M)[00] == 2 must fail", [], N2 == 0, 10000, quiet=True)
                if not good:
                    rec.unknown.append(f"{tag}: negative control proved")
            if good:
                side = name
                break
        if side is None:
            # not proved as an identity: ask for a rotation on this path and run the real float code on it
            if not find_rotation_cex(tag, list(pc) + facts, [z3.Or([out[i][j] != E[j][i] for i in range(3) for j in range(3)])]):
                rec.unknown.append(f"{tag}: inverse identity not proved")
            continue
        rec.items.append({"q": f"{tag}: inverse()==transpose() by lemma C-{side}", "r": "unsat"})
    return rec.result()


def _rv_const(z3, v):
    from vf.symx import _rv
    return _rv(v)



def replay(o: str = "", **kw):
    """Native replay of an E2 model: rerun obligation `o` in concrete mode with the model's values (floats, real math)."""
    raise RuntimeError("use replay_<obligation>")


def _mk_replay(name):
    def rp(**cex):
        params = {k: v for k, v in cex.items() if k in ("entry", "timeout_s", "part", "nparts")}
        model = {k: v for k, v in cex.items() if k not in params}
        r = globals()[name](_concrete=model, **params)
        if r["verdict"] == "reproduced":
            from vf.h import Fail
            raise Fail(r["detail"])
    rp.__name__ = "replay_" + name
    return rp


for _n in ("o_convention", "o_dispatch", "o_matrix_products", "o_angle_products", "o_roundtrip", "o_inverse"):
    globals()["replay_" + _n] = _mk_replay(_n)


def o_validate_encoding():
    """Translator validation: every obligation, run in concrete mode on angle/vector values taken from the repo's own
    tests (tests/test_rotations.py style grids), must agree with the real float code."""
    import itertools
    import math as _m
    n = 0
    bad = None
    grid = [0.0, 45.0, 90.0, 135.0, 270.0, 12.5, 333.0]
    for p_, y_, r_ in itertools.product(grid, [0.0, 30.0, 180.0, 271.0], [0.0, 90.0, 200.5]):
        model = {}
        for pre, (a, b, c) in (("a", (p_, y_, r_)), ("b", (y_, r_, p_)), ("M", (p_, y_, r_))):
            for ax, v in zip("pyr", (a, b, c)):
                model[f"{pre}_s{ax}"] = _m.sin(_m.radians(v))
                model[f"{pre}_c{ax}"] = _m.cos(_m.radians(v))
        ref = _sdk_matrix([CTag(p_), CTag(y_), CTag(r_)])
        for i in range(3):
            for j in range(3):
                model[f"m_{i}{j}"] = ref[i][j]
        for f in (o_convention, o_dispatch, o_matrix_products, o_angle_products, o_roundtrip, o_inverse):
            r = f(_concrete=model)
            n += r.get("checked", 0)
            if r["verdict"] == "reproduced" and bad is None:
                bad = {"obligation": f.__name__, "angles": (p_, y_, r_), "detail": r["detail"]}
    return {"verdict": "confirmed" if bad is None else "harness-error", "error": json.dumps(bad) if bad else None,
            "paths": n, "queries": 0, "samples": [{"concrete checks": n}]}


def obligations(tier):
    def ob(name, func, desc, bound="all reals", budget=600, **kw):
        return Obl(name, MOD, func, engine="call", budget_s=budget, desc=desc, bound=bound, replay="replay_" + func, **kw)
    return [
        Obl("encoding_validation", MOD, "o_validate_encoding", engine="call", budget_s=300,
            desc="translator validation: all obligations in concrete mode on a grid of test angles agree with the real float code"),
        ob("convention", "o_convention", "from_angle == SDK AngleMatrix == Rx(roll).Ry(pitch).Rz(yaw); orthonormal rows, det +1"),
        ob("dispatch", "o_dispatch", "{Vec,FrozenVec,tuple} x {Angle,FrozenAngle,Matrix,FrozenMatrix} x {@,@=,reflected}: value and result type"),
        ob("matrix_products", "o_matrix_products", "Matrix products in all class mixes and forms; associativity of the vector action"),
        ob("angle_products", "o_angle_products", "Angle@Angle / Angle@Matrix (@ and @=) == Euler extraction of the matrix product",
           bound="all reals, non-gimbal branch (horiz_dist > 0.001)"),
        ob("roundtrip", "o_roundtrip", "from_angle(to_angle(M)) == M for M = any Euler rotation; weaker facts on the gimbal branch",
           bound="all reals; gimbal branch: forward.z, roll = 0, exact when exactly vertical"),
        ob("inverse", "o_inverse", "inverse() == transpose() on every proper rotation, on every pivoting path of the Gauss-Jordan code "
           "(Matrix and FrozenMatrix); no ArithmeticError / division by zero on a rotation",
           bound="all real 3x3 matrices with M.M^T = M^T.M = I and det M = 1; every decision vector of inverse()",
           slices=[{"part": k, "nparts": 8} for k in range(8)], budget=900),
    ]
