"""C18 — a constrained directory filesystem never reaches outside its root (E1, CrossHair + model FS)."""
from __future__ import annotations

from vf.core import Obl
from vf.h import Fail, assume, check

MOD = "vf.props.c18"

META = {
    "level": "model_checking",
    "functions": ["srctools.filesys:RawFileSystem._resolve_path", "srctools.filesys:RawFileSystem.walk_folder",
                  "srctools.filesys:RawFileSystem.open_bin", "srctools.filesys:RawFileSystem.open_str",
                  "srctools.filesys:RawFileSystem._file_exists", "srctools.filesys:RawFileSystem._get_file",
                  "srctools.filesys:RawFileSystem._get_cache_key", "srctools.filesys:FileSystemChain._get_file",
                  "srctools.filesys:FileSystemChain.walk_folder_repeat", "srctools.packlist:unify_path"],
    "bounds": "path = symbolic str over the alphabet {. / \\ r x s i d} with an exact length per slice (quick 0..5, thorough 0..7, "
              "sliced by the class of the first two characters); model tree /r/i /r/d/i and a file named '\\..\\s' in /r (inside), /rx/s (sibling whose name extends "
              "the root's), /s (ancestor), /x/s; roots '/r', '/r/' and relative 'r' (cwd '/'); 11 entry points incl. a chain with "
              "subfolder prefix 'd'",
    "outside": "symbolic links, Windows path semantics, paths longer than the bound or using other characters (the code only "
               "compares against '/', '\\\\', '.', and the root string, so other characters behave like the letters used)",
    "stubs": ["srctools.filesys.os -> vf.stubs.pathmodel.OsModel (CPython's pure-Python normpath reference, join, abspath, relpath; "
              "isfile/walk/stat on a model tree); srctools.filesys.open -> model open; validated differentially against os.path on "
              "every run"],
    "trusted_base": ["crosshair-tool 0.0.110", "z3", "vf/chx.py", "vf/stubs/pathmodel.py (POSIX path-resolution model: component-wise, no symlinks)"],
    "assumptions": ["POSIX path resolution without symbolic links", "oracle: a touched path is inside iff its kernel-resolved form equals the root or starts with root + '/'"],
    "validation_runs": 2814,
}

# "/r/\\..\\s" is ONE file inside the root whose name contains backslashes (an ordinary character on POSIX); with the slashes
# unified it would spell "/../s"
FILES = [("/r/i", b"in"), ("/r/d/i", b"nested"), ("/rx/s", b"SECRET-sibling"), ("/s", b"SECRET-parent"), ("/x/s", b"SECRET-other"),
         ("/r/\\..\\s", b"in-odd-name")]
ROOT = "/r"
ALPHA = "./\\rxsid"
OPS = ["resolve", "open_bin", "open_str", "contains", "getitem", "getitem_open", "walk", "cache_key", "chain_getitem", "chain_contains", "chain_walk"]
ROOT_FORMS = ["/r", "/r/", "r"]


class _ListFS:
    """pathmodel.ModelFS with list-based lookups (a dict would hash, i.e. realise, the symbolic path)."""

    def __init__(self):
        from vf.stubs import pathmodel
        self.pm = pathmodel
        self.inner = pathmodel.ModelFS({}, cwd="/")
        self.inner.files = _FileList(FILES)
        self.log = self.inner.log


class _FileList:
    def __init__(self, items):
        self.items = list(items)

    def __contains__(self, q):
        for k, _v in self.items:
            if k == q:
                return True
        return False

    def __getitem__(self, q):
        for k, v in self.items:
            if k == q:
                return v
        raise KeyError(q)

    def __iter__(self):
        return iter([k for k, _v in self.items])


def setup(engine):
    from vf.stubs import pathmodel
    pathmodel.selftest()
    if engine == "chx":
        from vf.stubs.common import casefold_fastpath
        casefold_fastpath()
    if engine in ("chx", "replay"):
        setup_unify()


def _install():
    import srctools.filesys as fsm
    from vf.stubs import pathmodel
    lf = _ListFS()
    fsm.os = pathmodel.OsModel(lf.inner, cwd="/")
    fsm.open = lf.inner.open
    return lf


def _inside(q: str) -> bool:
    return q == ROOT or q.startswith(ROOT + "/")


def _run(path, op, rootform):
    import srctools.filesys as fsm
    lf = _install()
    fs = fsm.RawFileSystem(rootform)
    check(fs.path == ROOT, "root normalisation", fs.path)
    del lf.log[:]
    got = None
    try:
        if op == "resolve":
            got = fs._resolve_path(path)
            lf.log.append(("resolved", lf.inner.resolve(got)))
        elif op == "open_bin":
            with fs.open_bin(path) as f:
                got = f.read()
        elif op == "open_str":
            with fs.open_str(path) as f:
                got = f.read()
        elif op == "contains":
            got = path in fs
        elif op == "getitem":
            f = fs[path]
            with f.open_bin() as h:
                got = h.read()
        elif op == "getitem_open":
            f = fs[path]
            with fs.open_str(f) as h:
                got = h.read()
        elif op == "walk":
            got = []
            for f in fs.walk_folder(path):
                with f.open_bin() as h:
                    got.append(h.read())
        elif op == "cache_key":
            got = fs._get_cache_key(fsm.File(fs, path, path))
        else:
            chain = fsm.FileSystemChain((fs, "d"))
            if op == "chain_getitem":
                with chain[path].open_bin() as h:
                    got = h.read()
            elif op == "chain_contains":
                got = path in chain
            else:
                got = []
                for f in chain.walk_folder(path):
                    with f.open_bin() as h:
                        got.append(h.read())
    except fsm.RootEscapeError:
        got = "ESCAPE-ERROR"
    except FileNotFoundError:
        got = "NOT-FOUND"
    for kind, q in lf.log:
        check(_inside(q), "touched a path outside the root", op, kind, q)
    if isinstance(got, (bytes, str)) and got not in ("ESCAPE-ERROR", "NOT-FOUND"):
        check(not str(got).startswith("SECRET") and not (isinstance(got, bytes) and got.startswith(b"SECRET")), "returned outside data", got)
    if isinstance(got, list):
        for d in got:
            check(not d.startswith(b"SECRET"), "walk returned outside data", d)
    return got


def _alpha(path):
    for c in path:
        assume(c in ALPHA)


CLASSES = ["sep", "dot", "name"]


def _cls(c, k):
    if k == "sep":
        assume(c == "/" or c == "\\")
    elif k == "dot":
        assume(c == ".")
    else:
        assume(c != "/" and c != "\\" and c != ".")


def h_access(path: str, n: int, op: str, rootform: str = "/r", c0: str = "", c1: str = "") -> None:
    assume(len(path) == n)
    _alpha(path)
    if c0:
        _cls(path[0], c0)
    if c1:
        _cls(path[1], c1)
    _run(path, op, rootform)


def h_access_witness(path: str, n: int, op: str, rootform: str = "/r", c0: str = "", c1: str = "") -> None:
    assume(len(path) == n)
    _alpha(path)
    got = _run(path, op, rootform)
    # reachability: some path must actually deliver inside data
    if got == b"in" or got == b"nested" or got == "in" or got is True or (isinstance(got, list) and len(got) > 0) or (op in ("resolve", "cache_key") and got != "ESCAPE-ERROR"):
        raise Fail("reached")


def h_unify(path: str, n: int) -> None:
    """packlist.unify_path: the result never climbs out ('..' followed by more) and is never absolute."""
    import srctools.packlist as pl
    assume(len(path) == n)
    _alpha(path)
    try:
        r = pl.unify_path(path)
    except ValueError:
        return
    check(not r.startswith("/"), "absolute result", r)
    check(not r.startswith("../") and "/../" not in r, "escaping result", r)


def setup_unify():
    import srctools.packlist as pl
    from vf.stubs import pathmodel
    pl.os = pathmodel.OsModel(pathmodel.ModelFS({}, cwd="/"), cwd="/")


def h_unify_w(path: str, n: int) -> None:
    h_unify(path, n)
    raise Fail("reached")


def obligations(tier):
    obls = []
    if tier == "quick":
        lens = [0, 1, 2, 3, 4, 5]
        sl = []
        for op in OPS:
            for n in lens:
                if n >= 5:
                    sl += [{"n": n, "op": op, "c0": a} for a in CLASSES]
                else:
                    sl.append({"n": n, "op": op})
        sl += [{"n": n, "op": "open_bin", "rootform": rf} for n in (3, 4) for rf in ROOT_FORMS[1:]]
        budget = 300
    else:
        sl = []
        for op in OPS:
            for n in range(0, 8):
                if n >= 6:
                    sl += [{"n": n, "op": op, "c0": a, "c1": b} for a in CLASSES for b in CLASSES]
                elif n >= 4:
                    sl += [{"n": n, "op": op, "c0": a} for a in CLASSES]
                else:
                    sl.append({"n": n, "op": op})
        sl += [{"n": n, "op": op, "rootform": rf} for n in (3, 4, 5) for rf in ROOT_FORMS[1:] for op in ("open_bin", "walk", "chain_getitem")]
        budget = 2400
    obls.append(Obl("access", MOD, "h_access", slices=sl, budget_s=budget, per_path_s=30,
                    desc="every FS access made by the entry point resolves inside the root, or RootEscapeError/FileNotFoundError",
                    bound="exact path length per slice over ALPHA"))
    obls.append(Obl("access.witness", MOD, "h_access_witness", slices=[{"n": 1, "op": op} for op in OPS if not op.startswith("chain")] +
                    [{"n": 1, "op": "chain_getitem"}, {"n": 0, "op": "chain_walk"}, {"n": 1, "op": "chain_contains"}],
                    budget_s=120, per_path_s=30, witness=True, desc="reachability: inside data is actually delivered"))
    obls.append(Obl("unify_path", MOD, "h_unify", slices=[{"n": n} for n in (range(0, 6) if tier == "quick" else range(0, 8))],
                    budget_s=budget, per_path_s=30, desc="unify_path result never escapes", bound="exact length per slice"))
    obls.append(Obl("unify_path.witness", MOD, "h_unify_w", slices=[{"n": 2}], budget_s=60, witness=True))
    return obls
