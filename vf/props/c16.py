"""C16 — FGD definitions survive text export, the binary database format and lazy loading (E1, CrossHair).

Text: the REAL FGD.export writes into a ChunkSink, the REAL FGD.parse_file reads the written pieces back through its own
Tokenizer (a fake File whose open_str() yields the pieces), the result is compared field by field with the original
definition (up to the documented decays) and exported again (fixed point).  Binary: ent_serialise -> BinStrDict ->
ent_unserialise on ModelBytesIO/ModelStruct with symbolic flag bits / type indices.  Lazy: a 3-block EngineDB built by the
harness with the real block writers, queried in a symbolic order, compared with the eager load.
"""
from __future__ import annotations

from vf.core import Obl
from vf.h import ChunkSink, Fail, assume, check

MOD = "vf.props.c16"

META = {
    "level": "model_checking",
    "functions": ["srctools.fgd:FGD.export", "srctools.fgd:FGD.parse_file", "srctools.fgd:EntityDef.export",
                  "srctools.fgd:EntityDef.parse", "srctools.fgd:KVDef.export", "srctools.fgd:KVDef._parse",
                  "srctools.fgd:IODef.export", "srctools.fgd:IODef._parse", "srctools.fgd:_write_longstring",
                  "srctools.fgd:_fgd_escape", "srctools.fgd:_read_colon_list", "srctools.fgd:_parse_colon_array",
                  "srctools.fgd:_parse_flags", "srctools.fgd:_parse_choices", "srctools.fgd:read_tags",
                  "srctools.fgd:FGD.sorted_ents", "srctools.fgd:FGD.apply_bases",
                  "srctools._engine_db:ent_serialise", "srctools._engine_db:ent_unserialise",
                  "srctools._engine_db:kv_serialise", "srctools._engine_db:kv_unserialise",
                  "srctools._engine_db:iodef_serialise", "srctools._engine_db:iodef_unserialise",
                  "srctools._engine_db:BinStrDict.serialise", "srctools._engine_db:BinStrDict.unserialise",
                  "srctools._engine_db:EngineDB.get_ent", "srctools._engine_db:EngineDB._parse_block",
                  "srctools._engine_db:EngineDB.get_fgd", "srctools._engine_db:make_lookup",
                  "srctools.fgd:Helper.parse", "srctools.fgd:UnknownHelper.export",
                  "srctools._fgd_helpers:_HelperOneOptional.parse", "srctools._fgd_helpers:_HelperOneOptional.export",
                  "srctools._fgd_helpers:HelperSize.parse", "srctools._fgd_helpers:HelperSize.export",
                  "srctools._fgd_helpers:HelperRenderColor.parse", "srctools._fgd_helpers:HelperRenderColor.export",
                  "srctools._fgd_helpers:HelperSphere.parse", "srctools._fgd_helpers:HelperSphere.export",
                  "srctools._fgd_helpers:HelperLine.parse", "srctools._fgd_helpers:HelperLine.export",
                  "srctools._fgd_helpers:HelperFrustum.parse", "srctools._fgd_helpers:HelperFrustum.export",
                  "srctools._fgd_helpers:HelperCylinder.parse", "srctools._fgd_helpers:HelperCylinder.export",
                  "srctools._fgd_helpers:HelperBoundingBox.parse", "srctools._fgd_helpers:HelperBoundingBox.export",
                  "srctools._fgd_helpers:HelperSprite.parse", "srctools._fgd_helpers:HelperSprite.export",
                  "srctools._fgd_helpers:HelperModel.parse", "srctools._fgd_helpers:HelperModel.export",
                  "srctools._fgd_helpers:HelperLightSpot.parse", "srctools._fgd_helpers:HelperLightSpot.export",
                  "srctools._fgd_helpers:HelperLightSpotBlackMesa.parse", "srctools._fgd_helpers:HelperLightSpotBlackMesa.export",
                  "srctools._fgd_helpers:HelperRope.parse", "srctools._fgd_helpers:HelperRope.export",
                  "srctools._fgd_helpers:HelperExtAppliesTo.parse", "srctools._fgd_helpers:HelperExtOrderBy.parse",
                  "srctools._fgd_helpers:HelperExtAutoVisgroups.parse"],
    "bounds": "text: symbolic str (all code points; exact length per slice: quick 0..2 single slot / two slots with total <= 2, "
              "thorough also readonly/report variants; numeric-looking alphabet {0-9 + - blank _ . e} up to length 2, thorough 3 / 2+1) "
              "in one or two of: keyvalue display name / default / description; one symbolic leaf (len 0..1, thorough 2) among input / "
              "output description, entity description, base description, resource file name, tagged keyvalue name / description, "
              "choice label, spawnflag label; '+' splitting: CONCRETE 1027..1033-char texts of 7 kinds (blanks, none, newlines, an "
              "escape sequence at the split position) with offset / slot / option by symbolic index; every ValueTypes member, entity "
              "kind, tag set (5), choice value (10 tricky values), flag bit (6) by symbolic index from finite lists; options "
              "custom_syntax / label_spawnflags / readonly / report symbolic bools. binary: a two-entity block + CBaseEntity with "
              "symbolic readonly/default/alias bits, flag power and value-type / resource-type / kind index by symbolic index (one "
              "free per slice). lazy: 7-entity 3-block database with same-block, cross-block and chained aliases, every sequence "
              "of 1..3 queries (thorough 4) out of the 7 class names by symbolic index, then the eager load. "
              "helpers (extension 2): every HelperTypes member + UnknownHelper (the table is checked against the tree's HelperTypes / "
              "HELPER_IMPL on every start), every accepted argument count, every optional argument with its default and a non-default "
              "value, numbers / colours / vectors concrete 6-digit-exact constants -- kind, form and alternatives by symbolic index "
              "(enumeration in solver clothing); one string argument symbolic (all code points, exact length 0..1, thorough 2) in a "
              "position chosen by symbolic index (line()/cylinder() colour pinned in those slices); direct parse/export route and the "
              "real text route (helper between two fixed helpers, custom_syntax symbolic). binary (extension 2): kv_* / iodef_* / "
              "ent_* called directly: first flag bit index 0..31, 126, 127 x second flag bit index {0, 5, 23} by symbolic index with "
              "three symbolic default bits and symbolic readonly; every ValueTypes member (43) as keyvalue and I/O type; 6 shapes the "
              "format must refuse",
    "outside": "the complete bundled database as a symbolic object (it is one concrete input: its custom-syntax text round trip "
               "and its cross-block aliases in both query orders are run natively as concrete supplements); the LZMA container and serialise()'s block packing "
               "heuristic (needs >=512 shared strings); symbolic characters inside 1000+-char strings (one path > 300 s); custom_syntax=False with '\"' or '\\\\' in text (documented lossy "
               "substitution), choice labels with '\"', '\\\\' or newline (always written in the legacy escaping), spawnflag "
               "labels with newline / leading blank / leading '[' (label convention), spawnflags keyvalues with a default or "
               "description, key/class/helper names as symbolic strings (they are dict keys: chosen from finite lists), "
               "@snippet, @include, @mapsize, @MaterialExclusion, @AutoVisgroup, strings longer than the bounds; helpers: "
               "a lone empty argument (`name()` reads as no arguments, so origin('') / keyframe('') / sphere('') cannot be written), "
               "arguments containing ',' '(' ')' or surrounding whitespace (the header syntax has no quoting), numeric arguments as "
               "symbolic text (float()/'%g' are C code; non-6-digit-exact numbers are rounded by format_float/'%g' by design), "
               "frustum() / orderby() / autovis() arguments only by index (float() resp. dict keys), HelperInherit in the text "
               "(base() is special-cased by EntityDef), the second export after autovis() (parse-only sugar for @AutoVisGroup); "
               "binary: flag masks that are not powers of two, flag lists > 255 entries",
    "stubs": ["srctools.tokenizer.BARE_DISALLOWED frozenset -> tuple", "casefold fast path",
              "srctools._engine_db.io.BytesIO -> vf.stubs.binio.ModelBytesIO; srctools._engine_db Struct instances -> "
              "binio.ModelStruct (self-tested against struct/io on every start)",
              "fake filesys.File whose open_str() hands the written pieces to the parser's own Tokenizer",
              "helpers.* only: srctools.math.float / srctools._fgd_helpers.float -> vf.stubs.floatstub.FloatShim (exact C float() on "
              "a de-proxied string whose characters are concrete); the helper piece `name(a, b)` is re-cut at the argument "
              "boundaries after a solver-checked equality with the written piece"],
    "trusted_base": ["crosshair-tool 0.0.110", "z3", "vf/chx.py", "vf/stubs/binio.py", "vf/stubs/floatstub.py"],
    "assumptions": ["chunked delivery is equivalent to joined delivery (C03; one joined-string obligation here)",
                    "lzma round-trips concrete bytes (left real; string tables are concrete)",
                    "float(value) in KVDef.export (choices) is C code: choice values are concrete, drawn by symbolic index"],
}

LONG_TAIL_WORDS = ("lorem ipsum dolor sit amet " * 40)[:1000]        # has blanks: split after a blank
LONG_TAIL_SOLID = "x" * 1000                                           # no blanks: split exactly at LIMIT
LONG_TAIL_NL = ("line of text\n" * 80)[:1000]                         # has newlines: split after \n


def setup(engine):
    if engine == "chx":
        from vf.stubs.common import stub_bare_disallowed, casefold_fastpath
        stub_bare_disallowed()
        casefold_fastpath()
    if engine in ("chx",):
        _install_bin_models()


_PADS = ["pad_%03d" % i for i in range(600)]
_TRACED = [False]


def _untraced():
    """Concrete-only sections run outside CrossHair's tracer (C07 engineering note); a no-op natively."""
    if _TRACED[0]:
        from crosshair.tracers import NoTracing
        return NoTracing()
    import contextlib
    return contextlib.nullcontext()


def _install_bin_models():
    _TRACED[0] = True
    from vf.stubs import binio
    import srctools._engine_db as edb
    binio.selftest()
    binio.enable_symbolic()
    for name in ("_fmt_8bit", "_fmt_16bit", "_fmt_32bit", "_fmt_double", "_fmt_header", "_fmt_ent_header", "_fmt_block_pos"):
        real = getattr(edb, name)
        setattr(edb, name, binio.ModelStruct(real.format))

    class _IoProxy:
        BytesIO = binio.ModelBytesIO

        def __getattr__(self, n):
            import io
            return getattr(io, n)
    edb.io = _IoProxy()


# ----------------------------------------------------------------------------------------------- text plumbing

class _Ctx:
    def __init__(self, parts):
        self.parts = parts

    def __enter__(self):
        return self.parts

    def __exit__(self, *a):
        return False


class _FakeFile:
    """Stands in for filesys.File: parse_file only uses .path, hashing and .open_str()."""
    path = "harness.fgd"

    def __init__(self, parts):
        self.parts = parts

    def open_str(self, encoding="utf8"):
        return _Ctx(self.parts)


def _export(fgd, cs, ls):
    sink = ChunkSink()
    fgd.export(sink, label_spawnflags=ls, custom_syntax=cs)
    return sink.parts


def _parse(parts, joined=False):
    from srctools.fgd import FGD
    from srctools.tokenizer import TokenSyntaxError
    g = FGD()
    if joined:
        parts = ["".join(parts)]
    try:
        g.parse_file(None, _FakeFile(parts), eval_bases=True, ignore_unknown_valuetype=True, encoding="utf8")
    except TokenSyntaxError as exc:
        raise Fail("exported text does not parse: " + str(exc.mess)) from None
    return g


def pick(lst, idx):
    """Concrete element chosen by a symbolic index (one path per element; hashed values stay concrete)."""
    for k in range(len(lst) - 1):
        if idx == k:
            return lst[k]
    return lst[-1]


def _plain_text(s):
    """legacy escaping region: no '"', no backslash, no carriage return (the tokenizer reads a raw CR as LF)"""
    return all([(c != '"') & (c != '\\') & (c != '\r') for c in s])


def _exp_kv(kv):
    """The KVDef expected after export->parse (documented normalisations only)."""
    from srctools.fgd import KVDef, ValueTypes
    default = kv.default
    if kv._type is ValueTypes.BOOL:
        if not default:
            default = '0'                      # "This has to be present."
        else:
            cf = default.casefold()
            if cf == 'yes':
                default = '1'                  # "old aliases, change them to proper booleans"
            elif cf == 'no':
                default = '0'
    return KVDef(kv.name, kv._type, kv.disp_name, default, kv.desc,
                 list(kv.val_list) if kv.val_list is not None else None, kv.readonly, kv.reportable)


def _cmp_kv(a, b, where):
    check(a.name == b.name, where + " name", a.name, b.name)
    check(a._type == b._type, where + " type", a._type, b._type)
    check(a.disp_name == b.disp_name, where + " display name", a.disp_name, b.disp_name)
    check(a.default == b.default, where + " default", a.default, b.default)
    check(a.desc == b.desc, where + " description", a.desc, b.desc)
    check(a.readonly == b.readonly, where + " readonly", a.readonly, b.readonly)
    check(a.reportable == b.reportable, where + " reportable", a.reportable, b.reportable)
    if a.val_list is None or b.val_list is None:
        check(a.val_list is None and b.val_list is None, where + " value list presence", a.val_list, b.val_list)
    else:
        check(len(a.val_list) == len(b.val_list), where + " value list length", a.val_list, b.val_list)
        for x, y in zip(a.val_list, b.val_list):
            check(len(x) == len(y), where + " value list entry", x, y)
            for p, q in zip(x, y):
                check(type(p) is type(q) or (isinstance(p, str) and isinstance(q, str)), where + " value list entry type", x, y)
                check(p == q, where + " value list entry", x, y)


def _cmp_ent(a, b, cs, io_decay=True):
    """b (parsed) must equal a (original) field-wise. cs=False: extension syntax (tags, resources, ext helpers) is dropped."""
    from srctools.fgd import EntityDef, ValueTypes, VALUE_TO_IO_DECAY
    w = "entity " + a.classname
    check(a.type is b.type, w + " kind", a.type, b.type)
    check(a.classname == b.classname, w + " classname", b.classname)
    check(a.desc == b.desc, w + " description", a.desc, b.desc)
    check(a.is_alias == b.is_alias or not cs, w + " alias flag", a.is_alias, b.is_alias)
    ba = [x.classname if isinstance(x, EntityDef) else x for x in a.bases]
    bb = [x.classname if isinstance(x, EntityDef) else x for x in b.bases]
    check(ba == bb, w + " bases", ba, bb)
    ha = [h for h in a.helpers if cs or not h.IS_EXTENSION]
    check(len(ha) == len(b.helpers), w + " helper count", ha, b.helpers)
    for x, y in zip(ha, b.helpers):
        check(type(x) is type(y) and x.export() == y.export(), w + " helper", x, y)
    check(list(a.keyvalues) == list(b.keyvalues), w + " keyvalue names", list(a.keyvalues), list(b.keyvalues))
    for name, tmap in a.keyvalues.items():
        omap = b.keyvalues[name]
        check(set(tmap) == set(omap), w + " tag sets of " + name, list(tmap), list(omap))
        for tags, kv in tmap.items():
            _cmp_kv(_exp_kv(kv), omap[tags], w + " kv " + name + str(sorted(tags)))
    for kind, ma, mb in (("input", a.inputs, b.inputs), ("output", a.outputs, b.outputs)):
        check(list(ma) == list(mb), w + " " + kind + " names", list(ma), list(mb))
        for name, tmap in ma.items():
            omap = mb[name]
            check(set(tmap) == set(omap), w + " tag sets of " + kind + " " + name, list(tmap), list(omap))
            for tags, io in tmap.items():
                o = omap[tags]
                t = io._type
                if io_decay and isinstance(t, ValueTypes) and t is not ValueTypes.BOOL:
                    t = VALUE_TO_IO_DECAY[t]
                check(o.name == io.name, w + " " + kind + " name", o.name)
                check(o._type == t, w + " " + kind + " type " + name, o._type, t)
                check(o.desc == io.desc, w + " " + kind + " description " + name, o.desc, io.desc)
    if cs:
        check((a.resources == ()) == (b.resources == ()), w + " resources defined", a.resources, b.resources)
        check(len(a.resources) == len(b.resources), w + " resource count", a.resources, b.resources)
        for x, y in zip(a.resources, b.resources):
            check(x.filename == y.filename, w + " resource filename", x.filename, y.filename)
            check(x.type is y.type and x.tags == y.tags, w + " resource", x, y)


def _roundtrip(fgd, cs, ls, joined=False):
    parts = _export(fgd, cs, ls)
    g = _parse(parts, joined)
    check(sorted(fgd.entities) == sorted(g.entities), "entity set", sorted(g.entities))
    for key, ent in fgd.entities.items():
        _cmp_ent(ent, g.entities[key], cs)
    parts2 = _export(g, cs, ls)
    check(len(parts) == len(parts2), "second export differs (piece count)", len(parts), len(parts2))
    for i in range(len(parts)):
        check(parts[i] == parts2[i], "second export differs from the first", parts[i], parts2[i])
    return g


def _one_ent(kind_name="POINT", classname="demo_ent"):
    from srctools.fgd import FGD, EntityDef, EntityTypes
    f = FGD()
    e = EntityDef(EntityTypes[kind_name], classname)
    f.entities[classname.casefold()] = e
    return f, e


def _add_kv(e, kv, tags=frozenset()):
    m = e.keyvalues.setdefault(kv.name.casefold(), {})
    if not m:
        e.kv_order.append(kv.name.casefold())
    m[tags] = kv


# ----------------------------------------------------------------------------------------------- text harnesses

VT_REPR = ["STRING", "INT", "BOOL", "FLOAT", "TARG_DEST", "custom"]
THIRDS = ["", "Some: text + [x] = (y) // z"]


def h_kv(s: str, t: str, cs: bool, n: int, m: int, slots: str, vt: str, third: int, ro: bool = False, rep: bool = False,
         joined: bool = False, alpha: str = "") -> None:
    """One keyvalue; two of display name / default / description symbolic (exact lengths n, m), the third a constant."""
    from srctools.fgd import KVDef, ValueTypes
    assume(len(s) == n and len(t) == m)
    if not cs:
        assume(_plain_text(s) and _plain_text(t))
    if alpha == "num":          # numeric-looking text: where the writer decides between a bare token and a quoted string
        assume(all([(('0' <= c) & (c <= '9')) | (c == '+') | (c == '-') | (c == ' ') | (c == '_') | (c == '.') | (c == 'e')
                    for c in s + t]))
    vals = {"disp": THIRDS[third], "default": THIRDS[third], "desc": THIRDS[third]}
    a, b = slots.split(",")
    vals[a] = s
    vals[b] = t
    typ = "my_custom_type" if vt == "custom" else ValueTypes[vt]
    f, e = _one_ent()
    _add_kv(e, KVDef("health", typ, vals["disp"], vals["default"], vals["desc"], None, ro, rep))
    _add_kv(e, KVDef("after", ValueTypes.INT, "After", "7", "the next keyvalue"))
    _roundtrip(f, cs, True, joined)


def h_kv_witness(s: str, t: str, cs: bool, n: int, m: int, slots: str, vt: str, third: int) -> None:
    h_kv(s, t, cs, n, m, slots, vt, third)
    raise Fail("reached")


def h_kv_types(vt_i: int, cs: bool, ro: bool, rep: bool, shape: int) -> None:
    """Every ValueTypes member (symbolic index) as keyvalue type and as input/output type (I/O decay)."""
    from srctools.fgd import KVDef, IODef, ValueTypes
    types = [x for x in ValueTypes if not x.has_list]
    assume(0 <= vt_i < len(types))
    typ = pick(types, vt_i)
    if not cs:
        assume(not typ.extension)
    f, e = _one_ent()
    d, dv, ds = [("Name", "", ""), ("", "", ""), ("", "12", ""), ("", "", "Desc \"q\" \\ t"), ("N: a", "-3", "D + e"), ("N", "some text", "")][shape]
    if not cs:
        ds = ds.replace('"', "").replace("\\", "")
    _add_kv(e, KVDef("thekey", typ, d, dv, ds, None, ro, rep))
    e.inputs["setvalue"] = {frozenset(): IODef("SetValue", typ, ds)}
    e.outputs["onvalue"] = {frozenset(): IODef("OnValue", typ, d)}
    _roundtrip(f, cs, True)


CHOICE_VALUES = ["0", "1", "-1", "abc", "", "1.5", "+1", " 2", "1e3", "a b"]
TAGSETS = [[], ["A"], ["!A"], ["+A", "B"], ["-B", "+C", "D"]]
FLAG_BITS = [1, 2, 4, 128, 1 << 23, 1 << 31]


def h_choices(s: str, v_i: int, tg_i: int, cs: bool, n: int, slot: str, pin: bool = False) -> None:
    """choices keyvalue: symbolic label / description, value and tag set by symbolic index."""
    from srctools.fgd import KVDef, ValueTypes
    assume(len(s) == n)
    label, desc = "Label two", "What it does"
    if slot == "label":
        assume(_plain_text(s) and all([c != '\n' for c in s]))
        label = s
    else:
        if not cs:
            assume(_plain_text(s))
        desc = s
    assume(0 <= v_i < len(CHOICE_VALUES) and 0 <= tg_i < len(TAGSETS))
    if pin:
        assume(v_i == 6 and tg_i == 3)
    val = pick(CHOICE_VALUES, v_i)
    tags = frozenset(pick(TAGSETS, tg_i) if cs else [])
    f, e = _one_ent("NPC")
    _add_kv(e, KVDef("mode", ValueTypes.CHOICES, "Mode", "0", desc,
                     [("0", "First", frozenset()), (val, label, tags), ("zz", "Last", frozenset())]))
    _roundtrip(f, cs, True)


def h_flags(s: str, b_i: int, tg_i: int, cs: bool, ls: bool, dflt: bool, n: int, pin: bool = False) -> None:
    """spawnflags keyvalue: symbolic label, bit / tag set by symbolic index, default bit and label_spawnflags symbolic."""
    from srctools.fgd import KVDef, ValueTypes
    assume(len(s) == n)
    if not cs:
        assume(_plain_text(s))
    assume(all([c != '\n' for c in s]))
    if n:
        assume(s[0] != '[')
        if ls:      # with the generated "[N] " label the parser strips the whitespace after it; without a label the name is verbatim
            assume(not s[0].isspace())
    assume(0 <= b_i < len(FLAG_BITS) and 0 <= tg_i < len(TAGSETS))
    if pin:
        assume(b_i == 4 and tg_i == 3)
    bit = pick(FLAG_BITS, b_i)
    tags = frozenset(pick(TAGSETS, tg_i) if cs else [])
    f, e = _one_ent("BRUSH")
    _add_kv(e, KVDef("spawnflags", ValueTypes.SPAWNFLAGS, "spawnflags", "", "",
                     [(8, "Eight", True, frozenset()), (bit, s, dflt, tags), (16, "Sixteen", False, frozenset())]))
    _roundtrip(f, cs, ls)


KINDS = ["BASE", "POINT", "BRUSH", "ROPES", "TRACK", "FILTER", "NPC", "EXTEND"]
FULL_SLOTS = ["ent_desc", "inp_desc", "out_desc", "res_file", "tag_desc", "tag_disp", "base_desc"]


def _full(kind_name, slot, s, tg):
    """Skeleton FGD: base class, an entity of the given kind with bases, helpers, tagged duplicates of one key, choices,
    spawnflags, I/O (tagged + untagged), resources, and an alias entity.  `slot` names the leaf that receives s."""
    from srctools.fgd import (FGD, EntityDef, EntityTypes, KVDef, IODef, ValueTypes, Resource, UnknownHelper, HelperTypes,
                              HELPER_IMPL)
    from srctools.const import FileType
    v = {k: None for k in FULL_SLOTS}
    v[slot] = s
    f = FGD()
    base = EntityDef(EntityTypes.BASE, "BaseThing")
    base.desc = v["base_desc"] if v["base_desc"] is not None else ""
    _add_kv(base, KVDef("targetname", ValueTypes.TARG_SOURCE, "Name", "", "The name."))
    base.inputs["kill"] = {frozenset(): IODef("Kill", ValueTypes.VOID, "Remove.")}
    base.resources = []        # an explicitly empty @resources block ("defined, nothing to pack") is not the same as none
    f.entities["basething"] = base
    e = EntityDef(EntityTypes[kind_name], "the_Entity")
    e.bases.append(base)
    e.desc = v["ent_desc"] if v["ent_desc"] is not None else "An entity: with + text."
    e.helpers.append(HELPER_IMPL[HelperTypes.CUBE].parse(["-8 -8 -8", "8 8 8"]))
    e.helpers.append(HELPER_IMPL[HelperTypes.HALF_GRID_SNAP].parse([]))
    e.helpers.append(UnknownHelper("mystery", ["1", "two"]))
    e.helpers.append(HELPER_IMPL[HelperTypes.EXT_APPLIES_TO].parse(["P2", "!CSGO"]))
    e.helpers.append(HELPER_IMPL[HelperTypes.MODEL].parse(["models/editor/axis.mdl"]))
    tags = frozenset(tg)
    _add_kv(e, KVDef("model", ValueTypes.STR_MODEL, "Model", "models/a.mdl", "The model"))
    _add_kv(e, KVDef("model", ValueTypes.STRING, v["tag_disp"] if v["tag_disp"] is not None else "Tagged model",
                     "models/b.mdl", v["tag_desc"] if v["tag_desc"] is not None else "Variant"), tags or frozenset(["X"]))
    _add_kv(e, KVDef("skin", ValueTypes.INT, "Skin", "0", "", None, True, False))
    _add_kv(e, KVDef("style", ValueTypes.CHOICES, "Style", "1", "", [("0", "Off", frozenset()), ("1", "On", frozenset(["X"]))]))
    _add_kv(e, KVDef("spawnflags", ValueTypes.SPAWNFLAGS, "spawnflags", "", "", [(1, "Start on", True, frozenset()), (2, "Silent", False, tags)]))
    e.inputs["enable"] = {frozenset(): IODef("Enable", ValueTypes.VOID, v["inp_desc"] if v["inp_desc"] is not None else "Turn on")}
    e.inputs["setskin"] = {frozenset(): IODef("SetSkin", ValueTypes.INT, "Plain"), (tags or frozenset(["X"])): IODef("SetSkin", ValueTypes.STRING, "Tagged")}
    e.outputs["onuse"] = {frozenset(): IODef("OnUse", ValueTypes.TARG_DEST, v["out_desc"] if v["out_desc"] is not None else "")}
    e.resources = [Resource("sound/a.wav", FileType.GAME_SOUND, frozenset()),
                   Resource(v["res_file"] if v["res_file"] is not None else "models/c d.mdl", FileType.MODEL, tags)]
    f.entities["the_entity"] = e
    al = EntityDef(EntityTypes[kind_name], "the_alias")
    al.bases.append(e)
    al.is_alias = True
    f.entities["the_alias"] = al
    return f


def h_full(s: str, k_i: int, tg_i: int, ls: bool, n: int, slot: str, joined: bool = False, pin: bool = False) -> None:
    """Full skeleton, custom syntax on; one symbolic leaf; entity kind and tag set by symbolic index."""
    assume(len(s) == n)
    assume(0 <= k_i < len(KINDS) and 0 <= tg_i < len(TAGSETS))
    if pin:
        assume(k_i == 1 and tg_i == 3)
    kind = pick(KINDS, k_i)
    tg = pick(TAGSETS, tg_i)
    f = _full(kind, slot, s, tg)
    g = _roundtrip(f, True, ls, joined)
    # the alias: is_alias is exported as base(); documented: aliasof() is the parser's spelling.  Checked as bases only.


def h_full_witness(s: str, k_i: int, tg_i: int, ls: bool, n: int, slot: str, joined: bool = False, pin: bool = False) -> None:
    h_full(s, k_i, tg_i, ls, n, slot, joined, pin)
    raise Fail("reached")


def h_plain(s: str, k_i: int, ls: bool, n: int, slot: str, pin: bool = False) -> None:
    """custom_syntax=False on an untagged skeleton (legacy escaping region: no quote / backslash in the symbolic text)."""
    from srctools.fgd import (FGD, EntityDef, EntityTypes, KVDef, IODef, ValueTypes, HelperTypes, HELPER_IMPL)
    assume(len(s) == n)
    assume(_plain_text(s))
    assume(0 <= k_i < len(KINDS))
    if pin:
        assume(k_i == 2)
    kind = pick(KINDS, k_i)
    f, e = _one_ent(kind, "plain_ent")
    e.desc = s if slot == "ent_desc" else "Desc"
    e.helpers.append(HELPER_IMPL[HelperTypes.CUBE].parse(["-8 -8 -8", "8 8 8"]))
    _add_kv(e, KVDef("skin", ValueTypes.INT, "Skin", "0", s if slot == "kv_desc" else "d"))
    _add_kv(e, KVDef("spawnflags", ValueTypes.SPAWNFLAGS, "spawnflags", "", "", [(1, "Start on", True, frozenset())]))
    e.inputs["enable"] = {frozenset(): IODef("Enable", ValueTypes.BOOL, s if slot == "inp_desc" else "Turn on")}
    e.outputs["onuse"] = {frozenset(): IODef("OnUse", ValueTypes.VOID, s if slot == "out_desc" else "")}
    _roundtrip(f, False, ls)


LONG_KINDS = ["words", "solid", "nl", "quote", "tab", "backslash", "lf"]
LONG_K = [996, 997, 998, 999, 1000, 1001, 1002]
LONG_SLOTS = ["kv_desc", "ent_desc", "disp", "inp_desc"]


def _long_text(kind, k):
    if kind == "words":
        return (LONG_TAIL_WORDS + LONG_TAIL_WORDS)[:k + 31]
    if kind == "solid":
        return "x" * (k + 31)
    if kind == "nl":
        return (LONG_TAIL_NL + LONG_TAIL_NL)[:k + 31]
    ch = {"quote": '"', "tab": "\t", "backslash": "\\", "lf": "\n"}[kind]
    return "x" * k + ch + "y" * 30          # an escape sequence at / next to the 1000-char split position


def h_long(k_i: int, s_i: int, cs: bool, kind: str) -> None:
    """'+' splitting: texts whose escaped form crosses LIMIT=1000 (concrete content; length offset, slot and custom_syntax
    by symbolic index).  A symbolic character inside a 1000-char str makes every path > 300 s under CrossHair, so the
    content is concrete here: enumeration in solver clothing, stated in META."""
    from srctools.fgd import KVDef, IODef, ValueTypes
    assume(0 <= k_i < len(LONG_K) and 0 <= s_i < len(LONG_SLOTS))
    if not cs:
        assume(kind != "quote" and kind != "backslash")
    k = pick(LONG_K, k_i)
    slot = pick(LONG_SLOTS, s_i)
    text = _long_text(kind, k)
    f, e = _one_ent()
    e.desc = text if slot == "ent_desc" else ""
    _add_kv(e, KVDef("k", ValueTypes.STRING, text if slot == "disp" else "K", "", text if slot == "kv_desc" else ""))
    e.inputs["a"] = {frozenset(): IODef("A", ValueTypes.VOID, text if slot == "inp_desc" else "")}
    _roundtrip(f, cs, True)


# ----------------------------------------------------------------------------------------------- binary format

def _bin_ent(kind_name, classname, vt, ro, bit, dflt, alias, rt, rtags, base_names=()):
    from srctools.fgd import EntityDef, EntityTypes, KVDef, IODef, ValueTypes, Resource
    e = EntityDef(EntityTypes[kind_name], classname)
    for b in base_names:
        e.bases.append(b)
    e.is_alias = alias
    _add_kv(e, KVDef("thekey", vt, "The Key", "12", "", None, ro, False))
    _add_kv(e, KVDef("spawnflags", ValueTypes.SPAWNFLAGS, "spawnflags", "", "",
                     [(bit, "A flag", dflt, frozenset()), (2, "Other", not dflt, frozenset())]))
    e.inputs["setvalue"] = {frozenset(): IODef("SetValue", vt)}
    e.outputs["onvalue"] = {frozenset(): IODef("OnValue", ValueTypes.VOID)}
    e.resources = [Resource("models/a.mdl", rt, frozenset(rtags))]
    return e


def _base_dict(edb, cbase, make_file):
    """The shared string table as serialise() builds it: CBaseEntity's strings padded to exactly SHARED_STRINGS entries
    (block-local indices start at SHARED_STRINGS), written and read back with the real BinStrDict code."""
    with _untraced():          # everything here is concrete
        strings = set()

        def rec(st):
            strings.add(st)
            return b"\0\0"
        edb.ent_serialise(cbase, make_file(), rec)
        for pad in _PADS:
            if len(strings) >= edb.SHARED_STRINGS:
                break
            strings.add(pad)
        base_dict = edb.BinStrDict(strings, None)
        fb = make_file()
        base_dict.serialise(fb)
        edb.ent_serialise(cbase, fb, base_dict)
        fb2 = make_file(fb.getvalue())
        base_list, from_dict = edb.BinStrDict.unserialise(fb2, [])
        cb = edb.ent_unserialise(fb2, "_CBaseEntity_", from_dict)
    return base_dict, base_list, cb


def _ser_block(edb, ents, base_dict_obj, make_file):
    """What serialise() writes for one block: the block string table, then every entity (real writers)."""
    strings = set()

    def rec(st):
        strings.add(st)
        return b"\0\0"
    dummy = make_file()
    for e in ents:
        edb.ent_serialise(e, dummy, rec)
    dic = edb.BinStrDict(strings - set(base_dict_obj._dict), base_dict_obj)
    out = make_file()
    dic.serialise(out)
    for e in ents:
        edb.ent_serialise(e, out, dic)
    return out.getvalue()


def _cmp_bin(a, b):
    """The binary format keeps: kind, alias flag, base names, kv name/type/display name/default/readonly/flags list,
    io name/type, resources (documented: no descriptions, no helpers, no reportable flag)."""
    from srctools.fgd import EntityDef, ValueTypes
    w = "binary " + a.classname
    check(a.type is b.type, w + " kind", a.type, b.type)
    check(a.is_alias == b.is_alias, w + " alias flag", b.is_alias)
    ba = [x.classname if isinstance(x, EntityDef) else x for x in a.bases]
    bb = [x.classname if isinstance(x, EntityDef) else x for x in b.bases]
    check(ba == bb, w + " bases", ba, bb)
    check(list(a.keyvalues) == list(b.keyvalues), w + " kv names", list(b.keyvalues))
    for name, tmap in a.keyvalues.items():
        kv = tmap[frozenset()]
        o = b.keyvalues[name][frozenset()]
        check(o.name == kv.name and o.disp_name == kv.disp_name, w + " kv name", o)
        check(o.type is kv.type, w + " kv type", o.type, kv.type)
        check(o.readonly == kv.readonly, w + " kv readonly", o.readonly, kv.readonly)
        if kv.type is ValueTypes.SPAWNFLAGS:
            check(len(o.val_list) == len(kv.val_list), w + " flags", o.val_list)
            for x, y in zip(kv.val_list, o.val_list):
                check(x[0] == y[0], w + " flag bit", x, y)
                check(x[1] == y[1], w + " flag name", x, y)
                check(x[2] == y[2], w + " flag default", x, y)
        else:
            check(o.default == kv.default, w + " kv default", o.default, kv.default)
            check(o.val_list is None, w + " kv value list", o.val_list)
    for ma, mb in ((a.inputs, b.inputs), (a.outputs, b.outputs)):
        check(list(ma) == list(mb), w + " io names", list(mb))
        for name, tmap in ma.items():
            io = tmap[frozenset()]
            o = mb[name][frozenset()]
            check(o.name == io.name and o.type is io.type, w + " io", o, io)
    check(len(a.resources) == len(b.resources), w + " resource count", b.resources)
    for x, y in zip(a.resources, b.resources):
        check(x.filename == y.filename and x.type is y.type and x.tags == y.tags, w + " resource", x, y)


def h_bin(vt_i: int, rt_i: int, k_i: int, ro: bool, dflt: bool, alias: bool, p_i: int, tagged: bool, free: str) -> None:
    """ent_serialise -> ent_unserialise of one block of two entities through the real string table."""
    import io as _io
    import srctools._engine_db as edb
    from srctools.fgd import ValueTypes
    types = [x for x in ValueTypes if not x.has_list]
    powers = [0, 1, 7, 23, 31, 126]
    assume(0 <= vt_i < len(types) and 0 <= rt_i < len(edb.FILE_TYPE_ORDER) and 0 <= k_i < len(KINDS) and 0 <= p_i < len(powers))
    # the four indices are independent: one is free per slice, the others are pinned
    if free != "vt":
        assume(vt_i == 3)
    if free != "rt":
        assume(rt_i == 2)
    if free != "kind":
        assume(k_i == 1)
    if free != "power":
        assume(p_i == 3)
    vt = pick(types, vt_i)
    rt = pick(edb.FILE_TYPE_ORDER, rt_i)
    kind = pick(KINDS, k_i)
    bit = 1 << pick(powers, p_i)
    make_file = edb.io.BytesIO
    cbase = _bin_ent("BASE", "_CBaseEntity_", ValueTypes.STRING, False, 1, True, False, edb.FILE_TYPE_ORDER[0], [])
    base_dict, base_list, cb = _base_dict(edb, cbase, make_file)
    _cmp_bin(cbase, cb)
    e1 = _bin_ent(kind, "ent_one", vt, ro, bit, dflt, alias, rt, ["TAG", "!OTHER"] if tagged else [], ["ent_two"] if alias else [])
    e2 = _bin_ent("POINT", "ent_two", ValueTypes.INT, not ro, 4, not dflt, False, edb.FILE_TYPE_ORDER[3], [])
    data = _ser_block(edb, [e1, e2], base_dict, make_file)
    f = make_file(data)
    _inv, from_dict = edb.BinStrDict.unserialise(f, base_list)
    r1 = edb.ent_unserialise(f, "ent_one", from_dict)
    r2 = edb.ent_unserialise(f, "ent_two", from_dict)
    check(f.read(1) == b"", "trailing bytes after the block")
    _cmp_bin(e1, r1)
    _cmp_bin(e2, r2)


def h_bin_witness(vt_i: int, rt_i: int, k_i: int, ro: bool, dflt: bool, alias: bool, p_i: int, tagged: bool, free: str) -> None:
    h_bin(vt_i, rt_i, k_i, ro, dflt, alias, p_i, tagged, free)
    raise Fail("reached")


# ----------------------------------------------------------------------------------------------- lazy database

LAZY_BLOCKS = [["alias_same", "target_one"], ["alias_cross", "plain_two"], ["alias_chain", "target_three", "alias_back"]]
LAZY_ALIAS = {"alias_same": "target_one", "alias_cross": "target_three", "alias_chain": "alias_cross", "alias_back": "target_one"}
LAZY_NAMES = [n for blk in LAZY_BLOCKS for n in blk]


_LAZY_CACHE = []


def _lazy_db():
    """A fresh EngineDB made of three blocks written by the real block writers (what unserialise() would hand over).
    The block bytes are concrete: they are built once per process outside the tracer; every call hands out a fresh
    database object (fresh CBaseEntity, fresh ent_map / unparsed lists)."""
    import srctools._engine_db as edb
    with _untraced():
        if not _LAZY_CACHE:
            _LAZY_CACHE.append(_lazy_parts())
        base_bytes, base_list_c, blocks = _LAZY_CACHE[0]
        fb = edb.io.BytesIO(base_bytes)
        base_list, from_dict = edb.BinStrDict.unserialise(fb, [])
        cb = edb.ent_unserialise(fb, "_CBaseEntity_", from_dict)
        ent_map = {"_cbaseentity_": cb}
        unparsed = []
        for bi, (names, data) in enumerate(blocks):
            for name in names:
                ent_map[name] = bi
            unparsed.append((list(names), data))
    return edb.EngineDB(ent_map, base_list, unparsed)


def _lazy_parts():
    import srctools._engine_db as edb
    from srctools.fgd import ValueTypes
    make_file = edb.io.BytesIO
    cbase = _bin_ent("BASE", "_CBaseEntity_", ValueTypes.STRING, False, 1, True, False, edb.FILE_TYPE_ORDER[0], [])
    base_dict, base_list, cb = _base_dict(edb, cbase, make_file)
    unparsed = []
    vts = [ValueTypes.INT, ValueTypes.FLOAT, ValueTypes.VEC, ValueTypes.STR_MODEL, ValueTypes.BOOL, ValueTypes.COLOR_255, ValueTypes.ANGLES]
    for bi, names in enumerate(LAZY_BLOCKS):
        ents = []
        for name in names:
            i = LAZY_NAMES.index(name)
            if name in LAZY_ALIAS:
                ents.append(_bin_ent("POINT", name, vts[i], False, 1 << i, True, True, edb.FILE_TYPE_ORDER[i], [], [LAZY_ALIAS[name]]))
            else:
                ent = _bin_ent("NPC" if i % 2 else "POINT", name, vts[i], bool(i % 2), 1 << i, False, False, edb.FILE_TYPE_ORDER[i], [])
                ent.keyvalues["only_" + name] = {frozenset(): ent.keyvalues.pop("thekey")[frozenset()]}
                ent.keyvalues["only_" + name][frozenset()].name = "only_" + name
                ent.inputs["in_" + name] = ent.inputs.pop("setvalue")
                ent.inputs["in_" + name][frozenset()].name = "In_" + name
                ents.append(ent)
        unparsed.append((list(names), bytes(_ser_block(edb, ents, base_dict, make_file))))
    fb = make_file()
    base_dict.serialise(fb)
    edb.ent_serialise(cbase, fb, base_dict)
    return bytes(fb.getvalue()), base_list, unparsed


def _sig(ent, depth=0):
    """Everything observable about a definition, including what is reachable through its bases."""
    from srctools.fgd import EntityDef
    bases = []
    for b in ent.bases:
        if isinstance(b, EntityDef):
            bases.append(("resolved", b.classname, _sig(b, depth + 1) if depth < 6 else None))
        else:
            bases.append(("name-only", str(b)))
    kvs = sorted((n, sorted(t), kv.name, str(kv._type), kv.disp_name, kv.default, kv.readonly, repr(kv.val_list or None))
                 for n, m in ent.keyvalues.items() for t, kv in m.items())
    ios = [sorted((n, sorted(t), io.name, str(io._type)) for n, m in mp.items() for t, io in m.items()) for mp in (ent.inputs, ent.outputs)]
    res = [(r.filename, r.type.name, sorted(r.tags)) for r in ent.resources]
    return (ent.classname, ent.type.name, ent.is_alias, bases, kvs, ios, res, sorted(ent.kv), sorted(ent.inp), sorted(ent.out))


_EAGER = {}


def _eager_sigs():
    with _untraced():
        return _eager_sigs0()


def _eager_sigs0():
    if not _EAGER:
        db = _lazy_db()
        fgd = db.get_fgd()
        for n in LAZY_NAMES:
            _EAGER[n] = _sig(fgd[n])
        # sanity of the oracle itself: every alias resolves to an entity carrying its target's keys
        for a, t in LAZY_ALIAS.items():
            final = t
            while final in LAZY_ALIAS:
                final = LAZY_ALIAS[final]
            if ("only_" + final) not in _EAGER[a][7]:
                raise SystemExit(2)
    return _EAGER


def h_lazy(q0: int, q1: int, q2: int, q3: int, nq: int) -> None:
    """nq one-at-a-time get_ent() queries in a symbolic order on a fresh database give, at the moment of each query and
    again afterwards, the definitions of the eager load."""
    from copy import deepcopy
    qs = [q0, q1, q2, q3][:nq]
    for q in [q0, q1, q2, q3][nq:]:
        assume(q == 0)
    for q in qs:
        assume(0 <= q < len(LAZY_NAMES))
    want = _eager_sigs()
    db = _lazy_db()
    seen = []
    for q in qs:
        name = pick(LAZY_NAMES, q)
        ent = deepcopy(db.get_ent(name))          # EntityDef.engine_def() = deepcopy(db.get_ent(name))
        with _untraced():
            got = _sig(ent)
        check(got == want[name], "lazy lookup of " + name + " differs from the eager load", got, want[name])
        seen.append(name)
    for name in seen:
        ent = db.get_ent(name)
        with _untraced():
            got = _sig(ent)
        check(got == want[name], "second lookup of " + name + " differs from the eager load", got, want[name])
    fgd = db.get_fgd()
    for name in LAZY_NAMES:
        with _untraced():
            got = _sig(fgd[name])
        check(got == want[name], "eager load after lazy queries differs for " + name, got, want[name])


def h_lazy_witness(q0: int, q1: int, q2: int, q3: int, nq: int) -> None:
    h_lazy(q0, q1, q2, q3, nq)
    raise Fail("reached")


def o_bundled_aliases(_exclude=None):
    """Concrete supplement (engine=call, native): in the shipped fgd.lzma, every alias whose target lives in another block is
    queried first on a fresh database, then its target; and in the opposite order; both must equal the eager load."""
    import srctools.fgd as fgdmod
    import time
    from copy import deepcopy
    t0 = time.perf_counter()

    def fresh():
        fgdmod._ENGINE_DB = None
        return fgdmod._load_engine_db()[0]
    db = fresh()
    full = db.get_fgd()
    blocks = {}
    db2 = fresh()
    for key, val in db2.ent_map.items():
        if isinstance(val, int):
            blocks[key] = val
    cross = []
    for ent in full:
        if ent.is_alias and ent.bases:
            tgt = ent.bases[0].classname.casefold()
            if blocks.get(ent.classname.casefold()) != blocks.get(tgt):
                cross.append((ent.classname.casefold(), tgt))
    n = 0
    fail = None
    for alias, tgt in cross:
        for order in ((alias, tgt), (tgt, alias)):
            d = fresh()
            for name in order:
                n += 1
                got = _sig(deepcopy(d.get_ent(name)))
                want = _sig(full[name])
                if got != want and fail is None:
                    fail = {"order": list(order), "name": name, "got_bases": repr(got[3])[:200], "want_bases": repr(want[3])[:200]}
    fgdmod._ENGINE_DB = None
    res = {"verdict": "confirmed" if fail is None and cross else ("refuted" if fail else "vacuous"),
           "queries": n, "solver_checks": 0, "solver_s": 0.0, "paths": n, "cex": fail, "failure": fail,
           "unknown_reasons": {}, "samples": [{"cross_block_aliases": cross}], "wall_s": round(time.perf_counter() - t0, 2)}
    return res


def o_bundled_text(_exclude=None):
    """Concrete supplement (engine=call, native): the complete shipped database (FGD.engine_dbase(), 1600+ entities) is exported
    with custom_syntax=True, parsed back, compared field by field and exported again.  (custom_syntax=False is outside the
    claim for it: its display names contain backslashes.)"""
    import time
    from srctools.fgd import FGD
    t0 = time.perf_counter()
    full = FGD.engine_dbase()
    fail = None
    n = len(full.entities)
    for ls in (True, False):
        try:
            _roundtrip(full, True, ls)
        except Fail as exc:
            fail = {"label_spawnflags": ls, "message": str(exc)[:400]}
            break
    return {"verdict": "confirmed" if fail is None else "refuted", "queries": 2 * n, "solver_checks": 0, "solver_s": 0.0, "paths": 2 * n,
            "cex": fail, "failure": fail, "unknown_reasons": {}, "samples": [{"entities": n}], "wall_s": round(time.perf_counter() - t0, 2)}


def replay_o_bundled_text(**kw):
    r = o_bundled_text()
    if r["verdict"] == "refuted":
        raise Fail("bundled database text round trip: " + repr(r["failure"]))


def replay_o_bundled_aliases(**kw):
    r = o_bundled_aliases()
    if r["verdict"] == "refuted":
        raise Fail("bundled database: " + repr(r["failure"]))


# ----------------------------------------------------------------------------------------------- helpers (extension 2)

# Every helper kind of HelperTypes (+ 'unknown' = UnknownHelper).  A kind has a list of argument FORMS (the accepted argument
# counts); a form is a tuple of positions; a position is (class, alternatives): class 'n' = numeric / vector / colour text that
# the code hands to float() (C code: concrete, exactly representable in 6 significant digits), class 's' = a string the code
# only stores or compares (may be replaced by the symbolic string).  For every optional argument the alternatives contain the
# default value AND a non-default value; uninterpreted keys get a distinct name per position (a swap is visible).
def _S(*alts):
    return ("s", list(alts))


def _N(*alts):
    return ("n", list(alts))


_H_VEC = _N("-8 -8 -8", "8 8 16", "0.5 -0.25 0")
_H_VEC2 = _N("8 8 8", "-16 0 4")
_H_COL = _N("255 255 255", "255 128 0", "0.5 0 1")             # sphere: 255 255 255 is the default colour
_H_PITCH_F = _N("-1", "1", "0.5")                                # frustum default -1
_H_PITCH_L = _N("1", "-1", "0.5")                                # lightcone default 1
_H_LINE3 = (_N("255 128 0", "0.5 0 1"), _S("k_start"), _S("v_start"))
HELPER_FORMS = {
    "base": [()],                                                # HelperInherit: direct route only (EntityDef special-cases base())
    "halfgridsnap": [()],
    "size": [(_H_VEC,), (_H_VEC, _H_VEC2)],
    "bbox": [(_H_VEC,), (_H_VEC, _H_VEC2)],
    "color": [(_H_COL,)],
    "sphere": [(), (_S("radius", "k_dist"),), (_S("radius", "k_dist"), _H_COL)],
    "line": [_H_LINE3, _H_LINE3 + (_S("k_end"), _S("v_end"))],
    "frustum": [(), (_S("_fov", "k_fov", "90"),), (_S("_fov", "90"), _S("_nearplane", "4")),
                (_S("_fov", "90"), _S("_nearplane", "4"), _S("_farz", "1024.5")),
                (_S("_fov", "90"), _S("_nearplane", "4"), _S("_farz", "1024.5"), _S("_light", "k_col", "255 128 0")),
                (_S("_fov", "k_fov", "90"), _S("_nearplane", "4"), _S("_farz", "1024.5"), _S("_light", "k_col", "255 128 0"), _H_PITCH_F)],
    "cylinder": [_H_LINE3, _H_LINE3 + (_S("r_start"),), _H_LINE3 + (_S("r_start"), _S("k_end"), _S("v_end")),
                 _H_LINE3 + (_S("r_start"), _S("k_end"), _S("v_end"), _S("r_end"))],
    "origin": [(), (_S("origin", "k_pos"),)],
    "vecline": [(), (_S("origin", "k_pos"),)],
    "sidelist": [(), (_S("sides", "k_faces"),)],
    "wirebox": [(_S("k_min"), _S("k_max"))],
    "sweptplayerhull": [()],
    "obb": [(_S("k_min"), _S("k_max"))],
    "iconsprite": [(), (_S("editor/light.vmt", "sprites/glow01"),)],
    "studio": [(), (_S("models/editor/axis.mdl", "models/a b.mdl"),)],
    "studioprop": [(), (_S("models/editor/axis.mdl"),)],
    "lightprop": [(), (_S("models/editor/spot.mdl"),)],
    "sprite": [(), (_S("sprites/glow01.vmt"),)],
    "instance": [()], "decal": [()], "overlay": [()], "overlay_transition": [()], "light": [()],
    "lightcone": [(), (_S("_inner_cone", "k_in"),), (_S("_inner_cone", "k_in"), _S("_cone", "k_out")),
                  (_S("_inner_cone", "k_in"), _S("_cone", "k_out"), _S("_light", "k_col")),
                  (_S("_inner_cone", "k_in"), _S("_cone", "k_out"), _S("_light", "k_col"), _H_PITCH_L)],
    "keyframe": [(), (_S("k_name"),)],
    "animator": [()], "quadbounds": [()], "worldtext": [()], "catapult": [()],
    "lightconenew": [(_S("k_theta"), _S("k_phi"), _S("k_col"))],
    "appliesto": [(), (_S("P2"),), (_S("P2", "+srctools"), _S("!CSGO"))],
    "orderby": [(), (_S("beta"),), (_S("beta", "Alpha"), _S("alpha", "gamma"))],
    "autovis": [(_S("World"),), (_S("Auto", "auto", "World"), _S("Custom")), (_S("Auto", "World"), _S("Custom"), _S("Sub"))],
    "unknown": [(), (_S("1"),), (_S("1"), _S("two"))],
}
# frustum: every argument goes through float() / split()+float() -> no symbolic slot there (all by index)
HELPER_NOSLOT = ("frustum",)
# text route: names the exporter / parser hash (dict keys): by index only
HELPER_TEXT_NOSLOT = ("frustum", "orderby", "autovis")
HELPER_SLOT_PIN_N = ("line", "cylinder")
HELPER_NOARG = [k for k, v in HELPER_FORMS.items() if v == [()] and k != "base"]
HELPER_KINDS = list(HELPER_FORMS)
_HTABLE_OK = []


def _helper_table_check():
    """The table must name EVERY helper type of the tree under test (a new HelperTypes member = harness error, not silence)."""
    from srctools.fgd import HelperTypes, HELPER_IMPL
    want = set([t.value for t in HelperTypes])
    if set(HELPER_FORMS) - set(["unknown"]) != want or set(HELPER_IMPL) != set(HelperTypes):
        import sys
        print("HARNESS-ERROR helper table does not match HelperTypes:", sorted(want ^ (set(HELPER_FORMS) - set(["unknown"]))), file=sys.stderr)
        raise SystemExit(2)


def _hparse(kind, args):
    from srctools.fgd import HelperTypes, HELPER_IMPL, UnknownHelper
    if kind == "unknown":
        return UnknownHelper("mystery", list(args))
    return HELPER_IMPL[HelperTypes(kind)].parse(list(args))


def _hfields(h):
    import attrs
    if attrs.has(type(h)):
        return [(a.name, getattr(h, a.name)) for a in attrs.fields(type(h))]
    return sorted(vars(h).items())


def _cmp_helper(a, b, where):
    """b must be the same helper as a: same class, every field of the same kind and equal, ==, and not !=."""
    check(type(a) is type(b), where + ": helper class", a, b)
    fa, fb = _hfields(a), _hfields(b)
    check(len(fa) == len(fb), where + ": field count", fa, fb)
    for (na, va), (nb, vb) in zip(fa, fb):
        check(na == nb, where + ": field names", na, nb)
        check((va is None) == (vb is None) and isinstance(va, str) == isinstance(vb, str)
              and isinstance(va, float) == isinstance(vb, float), where + ": kind of field " + na, va, vb)
        check(va == vb, where + ": field " + na, va, vb)
    check(a == b, where + ": helpers compare unequal", a, b)
    check(not (a != b), where + ": != holds for equal helpers", a, b)


def _cmp_args(x, y, where):
    check(len(x) == len(y), where + ": argument count", x, y)
    for p, q in zip(x, y):
        check(isinstance(p, str) and isinstance(q, str) and p == q, where + ": argument", x, y)


def _helper_args(kinds, k_i, f_i, idx, s, p_i, slot, n, text, pos=-1):
    """(kind, argument list) from the table: kind, form and every alternative by symbolic index; with `slot` one 's'
    position (symbolic index p_i) holds the symbolic string s of exact length n."""
    kind_list = kinds.split(",")
    # pick() maps every index outside 0..len-2 to the last element: no range assumptions needed (no wasted paths), unused
    # indices are never looked at
    kind = pick(kind_list, k_i)
    forms = HELPER_FORMS[kind]
    form = pick(forms, f_i)
    assume(len(s) == n)
    p = -1
    if slot:
        assume(kind not in (HELPER_TEXT_NOSLOT if text else HELPER_NOSLOT))
        spos = [j for j in range(len(form)) if form[j][0] == "s"]
        assume(len(spos) > 0)
        if pos >= 0:                       # big kinds: one slice per position
            assume(pos < len(spos))
            p = spos[pos]
        else:
            p = pick(spos, p_i)
    args = []
    for j in range(len(form)):
        if j == p:
            args.append(s)
        elif slot and form[j][0] == "n" and kind in HELPER_SLOT_PIN_N:
            args.append(form[j][1][0])      # line()/cylinder() colour has no default: both values only in the slot-free slice
        else:
            args.append(pick(form[j][1], idx[j]))
    # `name()` means "no arguments": the header parser never hands over a lone empty argument
    assume(not (len(args) == 1 and len(args[0]) == 0))
    return kind, args


def _helper_direct(kind, args):
    h = _hparse(kind, args)
    args2 = h.export()
    check(isinstance(args2, list), "export() is not a list", args2)
    args2 = list(args2)
    h2 = _hparse(kind, args2)
    _cmp_helper(h, h2, kind + " parse(export(parse(args)))")
    _cmp_args(args2, h2.export(), kind + " second export")
    return h


def _textable(a):
    """What `name(a, b)` can carry: the parser splits at ',' and strips every argument; '(' cannot nest, ')' ends the list."""
    return (a.strip() == a) and all([(c != ',') & (c != '(') & (c != ')') for c in a])


def _recut(parts, h):
    """Rule (i): the writer puts `\n\tname(a, b)` into ONE piece; with a symbolic argument inside, every later character
    of that piece costs a solver query in the tokenizer (measured 5.7 s per path for cylinder()).  If the piece equals
    (solver-checked) the concatenation prefix + arguments + separators, the parser is fed these shorter pieces instead
    (chunked delivery == joined delivery: C03 and kv.joined); otherwise the original piece is delivered."""
    from srctools.fgd import UnknownHelper
    name = h.name if isinstance(h, UnknownHelper) else h.TYPE.value
    cut = ["\n\t" + name + "("]
    for j, a in enumerate(h.export()):
        if j:
            cut.append(", ")
        cut.append(a)
    cut.append(")")
    if len(parts) > 2 and parts[2] == "".join(cut):
        return parts[:2] + cut + parts[3:]
    return parts


def _helper_text(kind, h, cs, recut=False):
    """The helper between two fixed ones on an entity: FGD.export -> pieces -> FGD.parse_file -> same helpers, same text again."""
    from srctools.fgd import KVDef, ValueTypes, UnknownHelper, HelperTypes, HELPER_IMPL
    f, e = _one_ent("POINT", "helper_ent")
    pre = HELPER_IMPL[HelperTypes.CUBE].parse(["-8 -8 -8", "8 8 8"])
    post = UnknownHelper("tailmark", ["z"])
    e.helpers.extend([pre, h, post])
    _add_kv(e, KVDef("alpha", ValueTypes.INT, "Alpha", "1", ""))
    _add_kv(e, KVDef("beta", ValueTypes.STRING, "Beta", "b", ""))
    parts = _export(f, cs, True)
    g = _parse(_recut(parts, h) if recut else parts)
    ge = g.entities["helper_ent"]
    want = [pre, h, post]
    if kind == "autovis" or (h.IS_EXTENSION and not cs):
        want = [pre, post]                  # autovis() is parse-only sugar for @AutoVisGroup; extensions need custom syntax
    check(len(ge.helpers) == len(want), kind + " helper count after the text round trip", want, ge.helpers)
    for x, y in zip(want, ge.helpers):
        _cmp_helper(x, y, kind + " after the text round trip")
        _cmp_args(x.export(), y.export(), kind + " export after the text round trip")
    if isinstance(h, UnknownHelper):
        check(ge.helpers[1].name == "mystery", "unknown helper name", ge.helpers[1].name)
    check(sorted(ge.keyvalues) == ["alpha", "beta"], kind + " keyvalues", list(ge.keyvalues))
    if kind == "autovis":
        if cs:
            path = h.export()
            for par, name in zip(path, path[1:]):
                vis = g.auto_visgroups.get(name.casefold())
                check(vis is not None and "helper_ent" in vis.ents and vis.name == name, "autovis() group", name, par)
        else:
            check(not g.auto_visgroups, "autovis() written without custom syntax", list(g.auto_visgroups))
        return
    parts2 = _export(g, cs, True)
    check(len(parts) == len(parts2), kind + ": second export differs (piece count)", parts, parts2)
    for i in range(len(parts)):
        check(parts[i] == parts2[i], kind + ": second export differs from the first", parts[i], parts2[i])


def h_helper(s: str, k_i: int, f_i: int, p_i: int, i0: int, i1: int, i2: int, i3: int, i4: int, i5: int, i6: int, cs: bool,
             kinds: str, slot: bool, n: int, text: bool, pos: int = -1) -> None:
    """Every helper kind: parse -> export -> parse is the same helper and export a fixed point (text=False); the same
    through the real FGD text (text=True), custom_syntax symbolic."""
    if not _HTABLE_OK:
        with _untraced():
            _helper_table_check()
            if _TRACED[0]:
                # a numeric argument cut out of the piece that also holds the symbolic argument is a string proxy with concrete
                # characters: de-proxy it for the C float() (vf/stubs/floatstub.py) instead of CrossHair's symbolic-real model
                from vf.stubs.floatstub import stub_float
                stub_float(modules=("srctools.math", "srctools._fgd_helpers"))
        _HTABLE_OK.append(True)
    kind, args = _helper_args(kinds, k_i, f_i, [i0, i1, i2, i3, i4, i5, i6], s, p_i, slot, n, text, pos)
    if not text:
        assume(cs)
        _helper_direct(kind, args)
        return
    assume(kind != "base")
    for a in args:
        assume(_textable(a))
    h = _helper_direct(kind, args)
    ex = h.export()
    assume(not (len(ex) == 1 and len(ex[0]) == 0))       # ... nor can the text carry one (`sphere()` reads as no arguments)
    _helper_text(kind, h, cs, recut=slot and n > 0)


def h_helper_witness(s: str, k_i: int, f_i: int, p_i: int, i0: int, i1: int, i2: int, i3: int, i4: int, i5: int, i6: int, cs: bool,
                     kinds: str, slot: bool, n: int, text: bool, pos: int = -1) -> None:
    h_helper(s, k_i, f_i, p_i, i0, i1, i2, i3, i4, i5, i6, cs, kinds, slot, n, text, pos)
    raise Fail("reached")


# ----------------------------------------------------------------------------------------------- binary format: flags, types, tags

BIN_POWERS = list(range(32)) + [126, 127]          # every bit index 0..23 (and up to 31), plus the top of the 7-bit field
BIN_POWERS2 = [0, 5, 23]


def _cmp_flags(kv, o, w):
    check(o.val_list is not None and len(o.val_list) == len(kv.val_list), w + " flag count", o.val_list)
    for x, y in zip(kv.val_list, o.val_list):
        check(len(y) == 4, w + " flag entry shape", y)
        check(x[0] == y[0], w + " flag bit", x, y)
        check(x[1] == y[1], w + " flag name", x, y)
        check(isinstance(y[2], bool) and x[2] == y[2], w + " flag default", x, y)
        check(y[3] == frozenset(), w + " flag tags", y)


def _cmp_binkv(kv, o, w):
    from srctools.fgd import ValueTypes
    check(o.name == kv.name, w + " name", o.name)
    check(o.disp_name == kv.disp_name, w + " display name", o.disp_name)
    check(o.type is kv.type, w + " type", o.type, kv.type)
    check(isinstance(o.readonly, bool) and o.readonly == kv.readonly, w + " readonly", o.readonly, kv.readonly)
    check(o.desc == "" and o.reportable is False, w + " description / report flag are not stored", o.desc, o.reportable)
    if kv.type is ValueTypes.SPAWNFLAGS:
        check(o.default == "", w + " spawnflags default", o.default)
        _cmp_flags(kv, o, w)
    else:
        check(o.default == kv.default, w + " default", o.default, kv.default)
        check(o.val_list is None, w + " value list", o.val_list)


def h_binkv(vt_i: int, b_i: int, b2_i: int, ro: bool, d1: bool, d2: bool, d3: bool, v_i: int, mode: str, b2: int = -1) -> None:
    """kv_serialise/kv_unserialise, iodef_serialise/iodef_unserialise and ent_serialise/ent_unserialise called directly on
    a real string table.  mode 'flags': a spawnflags keyvalue whose first flag has bit index b (every index 0..31, 126,
    127 by symbolic index: math.log2 is C code) and whose default bits are symbolic; 'types': EVERY ValueTypes member as
    keyvalue and I/O type; 'refuse': what the format cannot hold (choices list, tags on a keyvalue / input / output /
    flag) must be refused with ValueError, never written as something else."""
    import srctools._engine_db as edb
    from srctools.fgd import EntityDef, EntityTypes, KVDef, IODef, ValueTypes
    make_file = edb.io.BytesIO
    none = frozenset()
    types = list(ValueTypes)
    assume(0 <= vt_i < len(types) and 0 <= b_i < len(BIN_POWERS) and 0 <= b2_i < len(BIN_POWERS2) and 0 <= v_i < 6)
    if b2 >= 0:
        assume(b2_i == b2)
    if mode != "types":
        assume(vt_i == 0)
    if mode != "flags":
        assume(b_i == 0 and b2_i == 0)
    if mode != "refuse":
        assume(v_i == 0)
    vt = pick(types, vt_i)
    bit = 1 << pick(BIN_POWERS, b_i)
    bit2 = 1 << pick(BIN_POWERS2, b2_i)
    flags = [(bit, "Flag A", d1, none), (bit2, "Flag B", d2, none), (1 << 9, "Flag C", d3, none)]
    e = EntityDef(EntityTypes.POINT, "bin_ent")
    if mode == "refuse":
        variant = pick(["choices", "kv_tag", "kv_two", "in_tag", "out_tag", "flag_tag"], v_i)
        tg = frozenset(["TAG"])
        kv = KVDef("thekey", ValueTypes.INT, "The Key", "3", "")
        sf = KVDef("spawnflags", ValueTypes.SPAWNFLAGS, "spawnflags", "", "", flags)
        if variant == "choices":
            kv = KVDef("thekey", ValueTypes.CHOICES, "The Key", "0", "", [("0", "Off", none), ("1", "On", none)])
        if variant == "flag_tag":
            sf = KVDef("spawnflags", ValueTypes.SPAWNFLAGS, "spawnflags", "", "", [(bit, "Flag A", d1, tg)])
        e.keyvalues["thekey"] = {(tg if variant == "kv_tag" else none): kv}
        if variant == "kv_two":
            e.keyvalues["thekey"][tg] = KVDef("thekey", ValueTypes.STRING, "Tagged", "x", "")
        e.keyvalues["spawnflags"] = {none: sf}
        e.inputs["enable"] = {(tg if variant == "in_tag" else none): IODef("Enable", ValueTypes.VOID)}
        e.outputs["onuse"] = {(tg if variant == "out_tag" else none): IODef("OnUse", ValueTypes.VOID)}
        try:
            edb.ent_serialise(e, make_file(), lambda st: b"\0\0")
        except ValueError:
            return
        raise Fail("ent_serialise accepted a definition the format cannot hold: " + variant)
    if vt is ValueTypes.SPAWNFLAGS or mode == "flags":
        kv = KVDef("spawnflags", ValueTypes.SPAWNFLAGS, "spawnflags", "", "", flags, ro, False)
    elif vt is ValueTypes.CHOICES:
        kv = KVDef("thekey", vt, "The Key", "0", "", [("0", "Off", none)], ro, False)
    else:
        kv = KVDef("thekey", vt, "The Key", "12", "a description that is not stored", None, ro, True)
    io_in = IODef("SetValue", vt, "not stored")
    io_out = IODef("OnValue", vt)
    # --- kv_serialise / kv_unserialise, iodef_serialise / iodef_unserialise directly
    strings = ["spawnflags", "thekey", "The Key", "Flag A", "Flag B", "Flag C", "12", "0", "", "SetValue", "OnValue", "bin_ent"]
    dic = edb.BinStrDict(strings, None)
    fd = make_file()
    dic.serialise(fd)
    refused = False
    try:
        edb.kv_serialise(kv, fd, dic)
    except ValueError:
        refused = True
    check(refused == (vt is ValueTypes.CHOICES and mode == "types"), "kv_serialise refusal", vt, refused)
    if not refused:
        edb.iodef_serialise(io_in, fd, dic)
        edb.iodef_serialise(io_out, fd, dic)
        fr = make_file(fd.getvalue())
        _inv, from_dict = edb.BinStrDict.unserialise(fr, [])
        o = edb.kv_unserialise(fr, from_dict)
        _cmp_binkv(kv, o, "kv_unserialise")
        for io in (io_in, io_out):
            r = edb.iodef_unserialise(fr, from_dict)
            check(r.name == io.name and r.type is io.type and r.desc == "", "iodef_unserialise", r, io)
        check(fr.read(1) == b"", "trailing bytes after kv + io")
    # --- the same inside an entity
    if not refused:
        e.keyvalues[kv.name] = {none: kv}
        e.keyvalues["after"] = {none: KVDef("after", ValueTypes.INT, "After", "7", "")}
    e.inputs["setvalue"] = {none: io_in}
    e.outputs["onvalue"] = {none: io_out}
    strings2 = strings + ["after", "After", "7"]
    dic2 = edb.BinStrDict(strings2, None)
    fe = make_file()
    dic2.serialise(fe)
    edb.ent_serialise(e, fe, dic2)
    fr = make_file(fe.getvalue())
    _inv, from_dict = edb.BinStrDict.unserialise(fr, [])
    r = edb.ent_unserialise(fr, "bin_ent", from_dict)
    check(fr.read(1) == b"", "trailing bytes after the entity")
    check(list(r.keyvalues) == list(e.keyvalues), "entity keyvalue names", list(r.keyvalues))
    for name, tmap in e.keyvalues.items():
        check(list(r.keyvalues[name]) == [none], "entity keyvalue tag sets", list(r.keyvalues[name]))
        _cmp_binkv(tmap[none], r.keyvalues[name][none], "ent_unserialise " + name)
    for ma, mb in ((e.inputs, r.inputs), (e.outputs, r.outputs)):
        check(list(ma) == list(mb), "entity io names", list(mb))
        for name, tmap in ma.items():
            o = mb[name][none]
            check(o.name == tmap[none].name and o.type is tmap[none].type, "entity io", o, tmap[none])


def h_binkv_witness(vt_i: int, b_i: int, b2_i: int, ro: bool, d1: bool, d2: bool, d3: bool, v_i: int, mode: str, b2: int = -1) -> None:
    h_binkv(vt_i, b_i, b2_i, ro, d1, d2, d3, v_i, mode, b2)
    raise Fail("reached")


# ----------------------------------------------------------------------------------------------- obligations

def _helper_slices(q):
    """text route: one slice per kind with arguments (no-argument kinds share one slice), x {no symbolic string, symbolic
    string of length 0, 1 (thorough 2)} in one 's' position chosen by symbolic index."""
    direct, text = [], []
    allk = ",".join(HELPER_KINDS)
    direct.append({"kinds": allk, "slot": False, "n": 0, "text": False})
    for n in ((0, 1) if q else (0, 1, 2)):
        direct.append({"kinds": allk, "slot": True, "n": n, "text": False})
    text.append({"kinds": ",".join(HELPER_NOARG), "slot": False, "n": 0, "text": True})
    for k in HELPER_KINDS:
        if k in HELPER_NOARG or k == "base":
            continue
        text.append({"kinds": k, "slot": False, "n": 0, "text": True})
        if k not in HELPER_TEXT_NOSLOT:
            npos = max(len([1 for x in f if x[0] == "s"]) for f in HELPER_FORMS[k])
            for n in ((0, 1) if q else (0, 1, 2)):
                if n and npos >= 3:
                    text += [{"kinds": k, "slot": True, "n": n, "text": True, "pos": pp} for pp in range(npos)]
                else:
                    text.append({"kinds": k, "slot": True, "n": n, "text": True})
    return direct, text


def obligations(tier):
    q = tier == "quick"
    obls = []
    pairs = ["disp,default", "disp,desc", "default,desc"]
    # --- keyvalue text
    sl = []
    if q:
        for p in pairs:
            for (n, m) in [(0, 0), (1, 0), (0, 1)]:
                for third in (0, 1):
                    sl.append({"n": n, "m": m, "slots": p, "vt": "STRING", "third": third})
            sl.append({"n": 1, "m": 1, "slots": p, "vt": "STRING", "third": 0})
        for vt in VT_REPR[1:]:
            sl.append({"n": 1, "m": 0, "slots": "default,desc", "vt": vt, "third": 0})
            sl.append({"n": 0, "m": 1, "slots": "disp,default", "vt": vt, "third": 0})
        sl.append({"n": 2, "m": 0, "slots": "disp,desc", "vt": "STRING", "third": 0})
        sl.append({"n": 0, "m": 2, "slots": "disp,desc", "vt": "STRING", "third": 0})
        # numeric-looking text (digits + - blank _ . e): the bare-token / quoted-string decision of the writer
        for vt in ("INT", "STRING"):
            sl.append({"n": 0, "m": 1, "slots": "disp,default", "vt": vt, "third": 0, "alpha": "num"})
            sl.append({"n": 0, "m": 2, "slots": "disp,default", "vt": vt, "third": 0, "alpha": "num"})
        sl.append({"n": 1, "m": 1, "slots": "default,desc", "vt": "INT", "third": 0, "alpha": "num"})
    else:
        for p in pairs:
            for (n, m) in [(a, b) for a in (0, 1, 2) for b in (0, 1, 2) if a + b <= 2]:
                for third in (0, 1):
                    sl.append({"n": n, "m": m, "slots": p, "vt": "STRING", "third": third})
        for vt in VT_REPR[1:]:
            for p in pairs:
                for (n, m) in [(0, 0), (1, 1)]:
                    sl.append({"n": n, "m": m, "slots": p, "vt": vt, "third": 0})
        for p in pairs:
            sl.append({"n": 1, "m": 1, "slots": p, "vt": "STRING", "third": 0, "ro": True, "rep": True})
        for vt in ("INT", "STRING", "BOOL"):
            for (n, m) in [(0, 1), (0, 2), (0, 3)]:
                sl.append({"n": n, "m": m, "slots": "disp,default", "vt": vt, "third": 0, "alpha": "num"})
            sl.append({"n": 2, "m": 1, "slots": "default,desc", "vt": vt, "third": 0, "alpha": "num"})
    obls.append(Obl("kv.text", MOD, "h_kv", slices=sl, budget_s=300 if q else 3000, per_path_s=40,
                    desc="keyvalue display name / default / description: parse(export(f)) == f and export is a fixed point; "
                         "custom_syntax symbolic",
                    bound="two symbolic slots with exact lengths per slice, third slot '' or a punctuation-rich constant"))
    obls.append(Obl("kv.text.witness", MOD, "h_kv_witness", witness=True, budget_s=200, per_path_s=40,
                    slices=[{"n": 1, "m": 0, "slots": p, "vt": "STRING", "third": 1} for p in pairs], desc="reachability twin"))
    obls.append(Obl("kv.types", MOD, "h_kv_types", slices=[{"shape": i} for i in range(6)], budget_s=600, per_path_s=40,
                    desc="every ValueTypes member as keyvalue / input / output type (I/O decay table); readonly/report/custom_syntax symbolic",
                    bound="type by symbolic index (enumeration in solver clothing); 6 concrete shapes of name/default/description"))
    # --- choices / flags
    sl = [{"n": 0, "slot": "label"}] + [{"n": n, "slot": s, "pin": True} for s in ("label", "desc") for n in ((1,) if q else (1, 2))]
    if not q:
        sl += [{"n": 1, "slot": "label"}, {"n": 1, "slot": "desc"}]
    obls.append(Obl("choices.text", MOD, "h_choices", slices=sl, budget_s=600 if q else 2400, per_path_s=40,
                    desc="choices list: label/description symbolic, value (10 tricky values) and tags by symbolic index",
                    bound="exact length per slice"))
    sl = [{"n": 0}] + [{"n": n, "pin": True} for n in ((1,) if q else (1, 2))]
    if not q:
        sl += [{"n": 1}]
    obls.append(Obl("flags.text", MOD, "h_flags", slices=sl, budget_s=600 if q else 2400, per_path_s=40,
                    desc="spawnflags list: label symbolic, bit/tags by symbolic index, default + label_spawnflags + custom_syntax symbolic"))
    # --- full skeleton
    sl = [{"n": 0, "slot": "ent_desc"}] + [{"n": n, "slot": s, "pin": True} for s in FULL_SLOTS for n in ((1,) if q else (1, 2))]
    if not q:
        sl += [{"n": 1, "slot": s} for s in ("res_file", "tag_desc")]
    obls.append(Obl("full.text", MOD, "h_full", slices=sl, budget_s=900 if q else 3000, per_path_s=60,
                    desc="3-entity skeleton (base, entity of every kind with helpers/tagged duplicates/choices/flags/IO/resources, alias)",
                    bound="one symbolic leaf; kind and tag set by symbolic index in the n=0 slice, pinned elsewhere"))
    obls.append(Obl("full.text.witness", MOD, "h_full_witness", witness=True, slices=[{"n": 1, "slot": "inp_desc", "pin": True}], budget_s=300,
                    per_path_s=60, desc="reachability twin"))
    obls.append(Obl("kv.joined", MOD, "h_kv", slices=[{"n": 1, "m": 0, "slots": p, "vt": "STRING", "third": 1, "joined": True}
                                                      for p in (("default,desc",) if q else pairs)],
                    budget_s=900 if q else 3000, per_path_s=200,
                    desc="whole-string delivery: the exported text is handed to the parser as ONE str (smallest skeleton)"))
    sl = [{"n": 0, "slot": "ent_desc"}] + [{"n": n, "slot": s, "pin": True} for s in ("ent_desc", "kv_desc", "inp_desc", "out_desc")
                                           for n in ((1,) if q else (1, 2))]
    obls.append(Obl("plain.text", MOD, "h_plain", slices=sl, budget_s=600 if q else 2400, per_path_s=40,
                    desc="custom_syntax=False on an untagged entity (every kind in the n=0 slice)"))
    obls.append(Obl("text.bundled", MOD, "o_bundled_text", engine="call", replay="replay_o_bundled_text", budget_s=300,
                    desc="concrete supplement: the complete shipped database exported (custom syntax), re-parsed, compared, re-exported (native)"))
    # --- long strings
    obls.append(Obl("long.text", MOD, "h_long", slices=[{"kind": k} for k in LONG_KINDS], budget_s=900, per_path_s=120,
                    desc="'+' splitting of strings crossing the 1000-char limit: 7 kinds of content (blanks, none, newlines, an escape "
                         "sequence at the split position) x 7 length offsets x 4 slots x custom_syntax",
                    bound="concrete content, offsets/slot/option by symbolic index (enumeration in solver clothing)"))
    # --- binary
    obls.append(Obl("bin.block", MOD, "h_bin", slices=[{"tagged": t, "free": f} for f in ("vt", "rt", "kind", "power") for t in
                                                       ((True,) if q and f != "rt" else (False, True))],
                    budget_s=900 if q else 3000, per_path_s=60,
                    desc="ent_serialise -> string table -> ent_unserialise of a two-entity block (+ CBaseEntity through the shared table)",
                    bound="value type / resource type / kind / flag power by symbolic index (one free per slice); readonly, default, alias bits symbolic"))
    obls.append(Obl("bin.block.witness", MOD, "h_bin_witness", witness=True, slices=[{"tagged": True, "free": "kind"}], budget_s=300, per_path_s=60))
    # --- lazy
    obls.append(Obl("lazy.order", MOD, "h_lazy", slices=[{"nq": k} for k in ((1, 2, 3) if q else (1, 2, 3, 4))],
                    budget_s=900 if q else 3000, per_path_s=60,
                    desc="every sequence of nq get_ent() queries on a fresh 3-block database equals the eager load (aliases in the "
                         "same block, in another block, chained through a third)", bound="7 class names by symbolic index"))
    obls.append(Obl("lazy.order.witness", MOD, "h_lazy_witness", witness=True, slices=[{"nq": 2}], budget_s=300, per_path_s=60))
    obls.append(Obl("lazy.bundled", MOD, "o_bundled_aliases", engine="call", replay="replay_o_bundled_aliases", budget_s=300,
                    desc="concrete supplement: cross-block aliases of the shipped database, both query orders (native)"))
    # --- extension 2: every helper kind, binary flags / types / refusals
    direct, text = _helper_slices(q)
    obls.append(Obl("helpers.direct", MOD, "h_helper", slices=direct, budget_s=900 if q else 3000, per_path_s=40,
                    desc="every helper kind of HelperTypes + UnknownHelper: h=parse(args); h2=parse(h.export()); h2 == h field by "
                         "field and h2.export() == h.export(); every accepted argument count, every optional argument with its "
                         "default and a non-default value",
                    bound="kind / form / alternatives by symbolic index (enumeration in solver clothing); one string argument "
                          "symbolic (all code points, exact length 0..1, thorough 2) in a position chosen by symbolic index"))
    obls.append(Obl("helpers.text", MOD, "h_helper", slices=text, budget_s=900 if q else 3000, per_path_s=60,
                    desc="the same through the real text: an entity carrying the helper between two others, FGD.export -> pieces -> "
                         "FGD.parse_file -> same helpers, second export identical; custom_syntax symbolic (extension helpers dropped "
                         "without it; autovis() lands in the auto-visgroup table)",
                    bound="as helpers.direct; the symbolic argument restricted to what `name(a, b)` can carry (no ',', '(', ')', "
                          "no surrounding whitespace, not a lone empty argument)"))
    obls.append(Obl("helpers.witness", MOD, "h_helper_witness", witness=True, budget_s=300, per_path_s=60,
                    slices=[{"kinds": "lightcone", "slot": True, "n": 1, "text": True},
                            {"kinds": "frustum", "slot": False, "n": 0, "text": True},
                            {"kinds": ",".join(HELPER_KINDS), "slot": True, "n": 1, "text": False}], desc="reachability twin"))
    obls.append(Obl("bin.kv", MOD, "h_binkv", slices=[{"mode": "flags", "b2": k} for k in range(len(BIN_POWERS2))] + [{"mode": "types"}, {"mode": "refuse"}],
                    budget_s=900 if q else 3000, per_path_s=60,
                    desc="kv_serialise/kv_unserialise, iodef_serialise/iodef_unserialise, ent_serialise/ent_unserialise called "
                         "directly: spawnflags with every bit index 0..31, 126, 127 and symbolic default bits; EVERY ValueTypes "
                         "member as keyvalue and I/O type (CHOICES keyvalue refused); choices lists and tags on keyvalues / I/O / "
                         "flags refused with ValueError",
                    bound="bit index (34) x second bit index (3) / value type (43) / refused shape (6) by symbolic index; readonly "
                          "and three default bits symbolic"))
    obls.append(Obl("bin.kv.witness", MOD, "h_binkv_witness", witness=True, slices=[{"mode": "flags", "b2": 1}, {"mode": "types"}],
                    budget_s=300, per_path_s=60, desc="reachability twin"))
    return obls
