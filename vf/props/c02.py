"""C02 — escape_text and the tokenizer are exact inverses on every string (E1, CrossHair)."""
from __future__ import annotations

from vf.core import Obl
from vf.h import Fail, assume, check

MOD = "vf.props.c02"

META = {
    "level": "model_checking",
    "functions": ["srctools.tokenizer:escape_text", "srctools.tokenizer:_escape_matcher",
                  "srctools.tokenizer:Tokenizer._get_token", "srctools.tokenizer:Tokenizer._handle_string",
                  "srctools.tokenizer:Tokenizer._next_char", "srctools.tokenizer:Tokenizer._handle_comment",
                  "srctools.tokenizer:BaseTokenizer.__call__"],
    "bounds": "symbolic str over all code points with an exact length per slice: quick 0..2 (3 in the bare context), "
              "thorough 0..3 in every context and 4 in the bare context sliced by first character class; multiline symbolic; "
              "5 embedding contexts delivered as separate chunks; escaped text additionally cut at concrete positions 1..3",
    "outside": "strings longer than the bound; the Cython tokenizer/escape_text (not buildable here); joined single-str "
               "delivery except in the 'joined' obligation (len<=2)",
    "stubs": ["BARE_DISALLOWED frozenset -> tuple"],
    "trusted_base": ["crosshair-tool 0.0.110 symbolic str/regex models", "z3 4.x (z3-solver wheel 5.1.0 API)", "vf/chx.py driver"],
    "assumptions": ["CrossHair's model of re.Pattern.sub / str indexing is faithful (every model is replayed natively)",
                    "pure-Python Tokenizer only"],
}

CONTEXTS = {
    # name: (pieces before, pieces after, expected tokens before, expected after, newlines before the string)
    "bare": ([], [], [], [], 0),
    "after_key": (['"k" '], ['\n'], [("STRING", "k")], [("NEWLINE", "\n")], 0),
    "before_val": ([], [' "v"\n'], [], [("STRING", "v"), ("NEWLINE", "\n")], 0),
    "in_block": (['{\n\t'], ['\n}'], [("BRACE_OPEN", "{"), ("NEWLINE", "\n")], [("NEWLINE", "\n"), ("BRACE_CLOSE", "}")], 1),
    "after_comment": (['// c " \\\n'], [], [("NEWLINE", "\n")], [], 1),
}


def setup(engine):
    if engine == "chx":
        from vf.stubs.common import stub_bare_disallowed
        stub_bare_disallowed()


def _tokens(pieces):
    from srctools.tokenizer import Tokenizer, Token
    tok = Tokenizer(pieces, allow_escapes=True)
    out = []
    for _ in range(40):
        t, v = tok()
        if t is Token.EOF:
            # EOF must repeat
            t2, _v2 = tok()
            check(t2 is Token.EOF, "EOF not repeated")
            return out, tok.line_num
        out.append((t.name, v))
    raise Fail("no EOF within 40 tokens")


def h_roundtrip(s: str, multiline: bool, n: int, ctx: str, cut: int, cls: str = "") -> None:
    """tokenize(ctx_pre + '"' + escape_text(s) + '"' + ctx_post) yields exactly (STRING, s) in context."""
    from srctools.tokenizer import escape_text
    assume(len(s) == n)
    if cls:
        _first_class(s, cls)
    esc = escape_text(s, multiline)
    # escaped text never contains a raw quote / CR, nor a raw LF in single-line mode
    bs = 0
    for ch in esc:
        if ch == '"':
            check(bs % 2 == 1, "raw double quote in escaped text", esc)
        if ch == '\\':
            bs += 1
        else:
            bs = 0
        check(ch != '\r', "raw CR in escaped text", esc)
        if not multiline:
            check(ch != '\n', "raw LF in single-line escaped text", esc)
    pre, post, epre, epost, nl_before = CONTEXTS[ctx]
    if cut:
        assume(cut < len(esc))
        mid = [esc[:cut], esc[cut:]]
    else:
        mid = [esc]
    pieces = pre + ['"'] + mid + ['"'] + post
    toks, line = _tokens(pieces)
    want = epre + [("STRING", s)] + epost
    check(len(toks) == len(want), "token count", toks)
    for got, w in zip(toks, want):
        check(got[0] == w[0], "token kind", toks)
        check(got[1] == w[1], "token value", toks, s)
    nls = 0
    if multiline:
        for ch in s:
            if ch == '\n':
                nls += 1
    total_nl = nl_before + nls + sum(1 for (k, _v) in epost if k == "NEWLINE")
    check(line == 1 + total_nl, "line number", line, total_nl)


FIRST_CLASSES = ["quote", "backslash", "lf", "cr", "ctl", "ascii", "high"]


def _first_class(s, cls):
    c = s[0]
    if cls == "quote":
        assume(c == '"' or c == "'")
    elif cls == "backslash":
        assume(c == '\\')
    elif cls == "lf":
        assume(c == '\n')
    elif cls == "cr":
        assume(c == '\r')
    elif cls == "ctl":
        assume(c < ' ' and c != '\n' and c != '\r')
    elif cls == "ascii":
        assume(' ' <= c < '\x7f' and c != '"' and c != "'" and c != '\\')
    else:
        assume(c >= '\x7f')


def h_witness(s: str, multiline: bool, n: int, ctx: str, cut: int, cls: str = "") -> None:
    """Reachability twin of h_roundtrip: same body, then fails at the assertion point."""
    h_roundtrip(s, multiline, n, ctx, cut, cls)
    raise Fail("reached")


def h_joined(s: str, multiline: bool, n: int) -> None:
    """Whole-string delivery (no chunking) on the bare context."""
    from srctools.tokenizer import escape_text, Tokenizer, Token
    assume(len(s) == n)
    tok = Tokenizer('"' + escape_text(s, multiline) + '"', allow_escapes=True)
    t, v = tok()
    check(t is Token.STRING and v == s, "joined round trip", v)
    t, v = tok()
    check(t is Token.EOF, "EOF expected", t)


def h_concat(a: str, b: str, multiline: bool, na: int, nb: int) -> None:
    """Step lemma: escape_text is a homomorphism, and decoding esc(a)+esc(b) gives a+b."""
    from srctools.tokenizer import escape_text
    assume(len(a) == na and len(b) == nb)
    ea, eb = escape_text(a, multiline), escape_text(b, multiline)
    check(escape_text(a + b, multiline) == ea + eb, "escape_text(a+b) != escape_text(a)+escape_text(b)")
    toks, _ = _tokens(['"', ea, eb, '"'])
    check(len(toks) == 1 and toks[0][0] == "STRING", "one STRING", toks)
    check(toks[0][1] == a + b, "value(esc(a)+esc(b)) != a+b", toks)


def h_both_modes(s: str, first_multiline: bool, n: int) -> None:
    """The same string escaped in both modes, in either order, within one process: each call obeys its own mode's clauses
    (the property is quantified over both modes for every s; a result must not depend on what was escaped before)."""
    from srctools.tokenizer import escape_text
    assume(len(s) == n)
    for multiline in (first_multiline, not first_multiline, first_multiline):
        esc = escape_text(s, multiline)
        bs = 0
        for ch in esc:
            if ch == '"':
                check(bs % 2 == 1, "raw double quote in escaped text", esc, multiline)
            bs = bs + 1 if ch == '\\' else 0
            check(ch != '\r', "raw CR in escaped text", esc, multiline)
            if not multiline:
                check(ch != '\n', "raw LF in single-line escaped text", esc, multiline)
        toks, _line = _tokens(['"', esc, '"'])
        check(len(toks) == 1 and toks[0][0] == "STRING" and toks[0][1] == s, "round trip", toks, multiline)


def obligations(tier):
    obls = []
    ctxs = list(CONTEXTS)
    if tier == "quick":
        sl = [{"n": n, "ctx": c, "cut": 0} for c in ctxs for n in (0, 1, 2)]
        sl += [{"n": 2, "ctx": "bare", "cut": k} for k in (1, 2, 3)]
        sl += [{"n": 3, "ctx": "bare", "cut": 0, "cls": k} for k in FIRST_CLASSES]
        budget = 240
    else:
        sl = [{"n": n, "ctx": c, "cut": 0} for c in ctxs for n in (0, 1, 2)]
        sl += [{"n": 3, "ctx": c, "cut": 0, "cls": k} for c in ctxs for k in FIRST_CLASSES]
        sl += [{"n": n, "ctx": c, "cut": k} for c in ("bare", "after_key") for n in (1, 2) for k in (1, 2, 3)]
        sl += [{"n": 3, "ctx": "bare", "cut": k, "cls": f} for k in (1, 2, 3, 4, 5) for f in FIRST_CLASSES]
        budget = 1500
    obls.append(Obl("roundtrip", MOD, "h_roundtrip", slices=sl, budget_s=budget, per_path_s=30,
                    desc="escape_text then Tokenizer yields exactly one STRING == s in each context; no raw quote/CR/LF",
                    bound="exact length per slice; full Unicode"))
    obls.append(Obl("roundtrip.witness", MOD, "h_witness", slices=[{"n": 1, "ctx": c, "cut": 0} for c in ctxs] + [{"n": 2, "ctx": "bare", "cut": 1}],
                    budget_s=120, per_path_s=30, witness=True, desc="reachability twin"))
    obls.append(Obl("joined", MOD, "h_joined", slices=[{"n": n} for n in ((0, 1, 2) if tier == "quick" else (0, 1, 2, 3))],
                    budget_s=budget, per_path_s=30, desc="single-str delivery"))
    cc = [(1, 1)] if tier == "quick" else [(1, 1), (2, 1), (1, 2)]
    obls.append(Obl("concat_lemma", MOD, "h_concat", slices=[{"na": a, "nb": b} for a, b in cc], budget_s=budget, per_path_s=30,
                    desc="escape_text(a+b)==escape_text(a)+escape_text(b) and decoding the concatenation gives a+b",
                    bound="len(a),len(b) exact per slice"))
    obls.append(Obl("both_modes", MOD, "h_both_modes", slices=[{"n": n} for n in ((0, 1, 2) if tier == "quick" else (0, 1, 2, 3))],
                    budget_s=budget, per_path_s=30, desc="one string through both modes in either order in one process; every call obeys its mode's clauses",
                    bound="exact length per slice"))
    if tier == "thorough":
        sl4 = [{"n": 4, "ctx": "bare", "cut": 0, "cls": k} for k in FIRST_CLASSES]
        obls.append(Obl("roundtrip.len4", MOD, "h_roundtrip", slices=sl4, budget_s=3000, per_path_s=60,
                        desc="length 4, bare context", bound="len == 4"))
    return obls
