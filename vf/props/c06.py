"""C06 — VMF export -> parse -> export is a fixed point and loses no map content (E1, CrossHair).

Concrete skeleton x symbolic leaves.  Each export/parse class pair is driven on its own block:
    obj.export(ChunkSink) -> Keyvalues.parse(list of written pieces) -> Cls.parse(...) -> export(ChunkSink)
and the check is (a) every field of the re-parsed object equals the original (numeric fields within the
tolerance the property states), (b) the second export equals the first piece for piece.
String leaves are symbolic `str` (exact length per slice, all code points), bools are symbolic, ids / group ids /
visgroup ids / enum members / ints that reach C code are chosen by *symbolic index* from short lists (they are
hashed into sets / IDMan / enum lookups), floats are concrete constants (float<->text conversion is C code).
Whole-map obligations run VMF.export/VMF.parse on three skeleton maps for preserve_ids on/off, minimal and
disp_multiblend, with the id renumbering oracle.
"""
from __future__ import annotations

import math

from vf.core import Obl
from vf.h import ChunkSink, Fail, assume, check

MOD = "vf.props.c06"

META = {
    "level": "model_checking",
    "functions": [
        "srctools.vmf:VMF.export", "srctools.vmf:VMF.parse", "srctools.vmf:Entity.export", "srctools.vmf:Entity.parse",
        "srctools.vmf:EntityFixup.export", "srctools.vmf:Solid.export", "srctools.vmf:Solid.parse", "srctools.vmf:Side.export",
        "srctools.vmf:Side.parse", "srctools.vmf:Side._export_displacement", "srctools.vmf:Side._parse_displacement_data",
        "srctools.vmf:Side._export_disp_rowset", "srctools.vmf:Side._iter_disp_row", "srctools.vmf:Side._parse_disp_vecrow",
        "srctools.vmf:Side._parse_strata_points", "srctools.vmf:UVAxis.parse", "srctools.vmf:UVAxis.__str__",
        "srctools.vmf:Output.as_keyvalue", "srctools.vmf:Output.parse", "srctools.vmf:Output.parse_name",
        "srctools.vmf:EntityGroup.export", "srctools.vmf:EntityGroup.parse", "srctools.vmf:VisGroup.export", "srctools.vmf:VisGroup.parse",
        "srctools.vmf:Camera.export", "srctools.vmf:Camera.parse", "srctools.vmf:Cordon.export", "srctools.vmf:Cordon.parse",
        "srctools.vmf:Strata2DViewport.export", "srctools.vmf:Strata3DViewport.export", "srctools.vmf:_parse_strata_viewport",
        "srctools.keyvalues:Keyvalues.parse", "srctools.tokenizer:escape_text", "srctools.tokenizer:Tokenizer._get_token",
        "srctools.math:format_float",
    ],
    "bounds": "one symbolic str leaf at a time, exact length per slice (quick 0..1, thorough 0..2; all code points; face material: thorough "
              "only, length 1, ~60 s per path; output/input/instance names: ASCII only, they are casefolded) in each of: entity value, "
              "fixup value, comments, logical_pos, output name/target/input/params/instance names (both separators, 4 instance forms), face "
              "material, visgroup name (nested), cordon name; symbolic bools for every boolean field; ids, group ids, visgroup ids, times, "
              "lightmap/smoothing, displacement flags/triangle tags/allowed_verts, editor colours and VMF header ints by symbolic index from "
              "short lists; floats are concrete constants (6-decimal-exact values plus 1e-07, 3.14159e-05, 1.5e-07, 123456.789, 0.1); "
              "displacement power 1 and 2; whole-map export/parse on 3 skeleton maps x preserve_ids x minimal x disp_multiblend",
    "outside": "the float continuum (float()/'%g'/'%.6f' are C code: numeric clauses are checked on the listed constants only); symbolic "
               "entity keys / fixup names / targetnames (hashed, so list-chosen); displacement power 3-4; strings longer than the bound; "
               ".vmf files under tests/; output fields that contain the active separator or ';' in an instance name (not representable in the "
               "format); the Cython tokenizer",
    "stubs": ["srctools.keyvalues.sys.intern / srctools.vmf.intern -> identity", "srctools.tokenizer.BARE_DISALLOWED frozenset -> tuple",
              "CrossHair casefold fast path", "srctools.vmf.frozenset -> real frozenset untraced (CopySet.__iter__)",
              "srctools.{vmf,math,keyvalues,__init__}.float -> FloatShim: real float() on the de-proxied text (vf/stubs/floatstub.py)",
              "srctools.vmf.Array -> real array.array built untraced (CrossHair's array model is 16-bit for 'i' and cannot extend() from a generator)",
              "srctools.{vmf,keyvalues,__init__}.int -> IntShim: real int() on de-proxied text; symbolic ints go to CrossHair unchanged"],
    "trusted_base": ["crosshair-tool 0.0.110", "z3 (z3-solver wheel 5.1.0 API)", "vf/chx.py driver", "vf/stubs/common.py casefold fast path"],
    "assumptions": ["writers deliver text as pieces and Keyvalues.parse is fed the pieces (chunk independence is C03)",
                    "every value chosen by symbolic index from a list is enumeration in solver clothing",
                    "pure-Python Tokenizer only"],
    "explanation": "",
}

OUTPUT_SEP = "\x1b"

# ------------------------------------------------------------------------------------------ helpers


def setup(engine):
    if engine == "chx":
        from vf.stubs.common import text_stubs
        from vf.stubs.vmfstubs import stub_copyset, stub_array
        from vf.stubs.floatstub import stub_float, stub_int
        text_stubs()
        stub_copyset()
        stub_float()
        stub_int()
        stub_array()


def pick(lst, idx):
    """Concrete element chosen by a symbolic index (one path per element; keeps hashed values concrete)."""
    for k in range(len(lst)):
        if idx == k:
            return lst[k]
    assume(False)


def _rechunk(parts):
    """Rule (i) at a finer grain: a written piece that is a CrossHair proxy (concrete text + symbolic leaf + concrete text) is handed to
    the tokenizer as its constituent segments - real `str` for the concrete runs, a proxy only for the symbolic run - so that indexes
    into the concrete runs are not solver queries on the (escape-dependent) symbolic length. Same character sequence; chunk
    boundaries are immaterial to the tokenizer (C03). Natively every piece is a real str and this is the identity."""
    import sys
    if "crosshair.core_and_libs" not in sys.modules:     # native run / replay
        return parts
    from crosshair.tracers import NoTracing
    from crosshair.libimpl.builtinslib import LazyIntSymbolicStr
    from crosshair.simplestructs import SequenceConcatenation
    out = []
    with NoTracing():
        for p in parts:
            if type(p) is str or not isinstance(p, LazyIntSymbolicStr):
                out.append(p)
                continue
            segs = []

            def walk(x):
                if isinstance(x, SequenceConcatenation):
                    walk(x._first)
                    walk(x._second)
                else:
                    segs.append(x)
            walk(p._codepoints)
            for sg in segs:
                if type(sg) in (list, tuple) and all(type(v) is int for v in sg):
                    if len(sg):
                        out.append("".join(map(chr, sg)))
                else:
                    out.append(LazyIntSymbolicStr(sg))
    return out


def _kv(parts):
    from srctools.keyvalues import Keyvalues
    return Keyvalues.parse(_rechunk(parts))


def _only_child(root, name):
    kids = list(root)
    check(len(kids) == 1, f"expected exactly one top-level block, got {len(kids)}", [k.name for k in kids])
    check(kids[0].name == name, f"top-level block is not {name!r}", kids[0].name)
    return kids[0]


def _same_text(p1, p2, what):
    """Second export equals the first, piece for piece (pieces are written by the same code, so they align)."""
    if len(p1) != len(p2):
        raise Fail(f"{what}: second export differs from the first (piece count {len(p1)} != {len(p2)}): "
                   f"{_first_diff(p1, p2)}")
    for a, b in zip(p1, p2):
        if a != b:
            raise Fail(f"{what}: second export differs from the first: {a!r} != {b!r}")


def _first_diff(p1, p2):
    for a, b in zip(p1, p2):
        if a != b:
            return f"{a!r} != {b!r}"
    return f"extra {(p1[len(p2):] or p2[len(p1):])[:2]!r}"


def _fclose(a, b, what, tol=5e-7):
    check(isinstance(b, float) or isinstance(b, int), f"{what}: not a number", b)
    check(abs(a - b) <= tol, f"{what}: re-read number differs from the original by more than {tol}", a, b)


def _sig6(a, b, what):
    """within six significant digits: the relative error of rounding to 6 digits is <= 5e-6"""
    check(a == b or abs(a - b) <= 5.0000001e-6 * abs(a), f"{what}: re-read number not within six significant digits", a, b)


def _vclose(a, b, what, tol=5e-7):
    _fclose(a.x, b.x, what + ".x", tol)
    _fclose(a.y, b.y, what + ".y", tol)
    _fclose(a.z, b.z, what + ".z", tol)


# float constants: exact in 6 decimals, plus awkward ones
F6 = [0.0, 1.0, -1.0, 0.5, -64.25, 128.125, 0.000001, -0.000001, 16384.0, 0.1, 123456.789, 1e-07, 0.015625]
G6 = [0.0, 45.0, -90.5, 0.1, 3.14159e-05, 1.5e-07, 123456.0, 2.5e9, 0.00123456, 99999.5]


def _vec(i):
    from srctools.math import Vec
    return Vec(F6[i % len(F6)], F6[(i + 3) % len(F6)], F6[(i + 7) % len(F6)])


# ------------------------------------------------------------------------------------------ Output

OUT_FORMS = [  # (comma_sep, inst_out, inst_in)
    (False, None, None), (True, None, None), (False, "rl;x"[:2], None), (False, None, "in_a"), (True, "o", "i"),
]
OUT_SLOTS = ["output", "target", "input", "params", "inst_out", "inst_in"]
TIMES = [-1, 1, 0, 7, 2 ** 31]


def _mk_output(slot, s, form, delay, times):
    import srctools.vmf as vmf
    comma, io, ii = form
    f = {"output": "OnTrigger", "target": "a b", "input": "Fire\\User1", "params": 'p "q"\n,r,', "inst_out": io, "inst_in": ii}
    if not comma:
        f["target"] = "a,b"
    else:
        f["params"] = 'p "q"\n,r,'
    if slot in ("inst_out", "inst_in") and f[slot] is None:
        assume(False)
    f[slot] = s
    return vmf.Output(f["output"], f["target"], f["input"], f["params"], delay, times=times, inst_out=f["inst_out"],
                      inst_in=f["inst_in"], comma_sep=comma)


def _output_representable(o):
    """Preconditions of the text format itself (documented in Output): the separator cannot occur in a field, a comma-separated
    output cannot contain the new separator at all nor commas outside params, instance names cannot contain ';', a plain
    name cannot start with 'instance:', an instance name that is present is non-empty."""
    fields = [o.output, o.target, o.input, o.params, o.inst_out or "", o.inst_in or ""]
    for f in fields:
        assume(OUTPUT_SEP not in f)
    if o.comma_sep:
        for f in (o.target, o.input, o.inst_in or ""):
            assume("," not in f)
    for nm in (o.inst_out, o.inst_in):
        if nm is not None:
            assume(len(nm) > 0)
            assume(";" not in nm)
    for f in (o.output, o.inst_out or ""):     # the output name is a keyvalue *key*: Keyvalues.parse rejects newlines in keys
        assume("\n" not in f)
        assume("\r" not in f)
    if o.inst_out is None:
        assume(not o.output.casefold().startswith("instance:"))
    if o.inst_in is None:
        assume(not o.input.casefold().startswith("instance:"))


def _cmp_output(o, p, what="output"):
    check(p.output == o.output, what + ".output", o.output, p.output)
    check(p.target == o.target, what + ".target", o.target, p.target)
    check(p.input == o.input, what + ".input", o.input, p.input)
    check(p.params == o.params, what + ".params", o.params, p.params)
    check(p.inst_out == o.inst_out, what + ".inst_out", o.inst_out, p.inst_out)
    check(p.inst_in == o.inst_in, what + ".inst_in", o.inst_in, p.inst_in)
    check(p.comma_sep == o.comma_sep, what + ".comma_sep", o.comma_sep, p.comma_sep)
    check(p.times == o.times, what + ".times", o.times, p.times)
    _sig6(o.delay, p.delay, what + ".delay")


NONASCII_REPS = "\x7f\x85\xe9\xdf\u0130\u2028\U0001f600"


def _few_nonascii(s):
    """Rule 4: where the text is casefolded by the code under test (CrossHair's Unicode tables make every later query ~15x slower),
    non-ASCII code points are restricted to a few representatives (incl. ones whose casefold changes length)."""
    if type(s) is str:      # concrete representative passed by the slice
        return
    for ch in s:
        assume(ch < "\x80")


def h_output(s: str, ti: int, n: int, slot: str, form: int, d: int = 0, tfix: int = -1) -> None:
    """Output.export -> Keyvalues.parse -> Output.parse: every field survives, delay within 6 significant digits."""
    import srctools.vmf as vmf
    assume(len(s) == n)
    if slot != "target" and slot != "params":
        _few_nonascii(s)
    if tfix >= 0:
        assume(ti == tfix)
    o = _mk_output(slot, s, OUT_FORMS[form], G6[d], pick(TIMES, ti))
    _output_representable(o)
    sink = ChunkSink()
    o.export(sink, "\t")
    root = _kv(["connections\n", "{\n"] + sink.parts + ["}\n"])
    block = _only_child(root, "connections")
    kids = list(block)
    check(len(kids) == 1, "one output line must parse to one keyvalue", len(kids))
    p = vmf.Output.parse(kids[0])
    _cmp_output(o, p)
    sink2 = ChunkSink()
    p.export(sink2, "\t")
    _same_text(sink.parts, sink2.parts, "output")


def h_output_w(s: str, ti: int, n: int, slot: str, form: int, d: int = 0, tfix: int = -1) -> None:
    h_output(s, ti, n, slot, form, d, tfix)
    raise Fail("reached")


# ------------------------------------------------------------------------------------------ Entity

IDS = [1, 2, 7, 100, 2 ** 31]
IDSETS = [(), (1,), (7,), (2, 2 ** 31), (1, 2, 7)]
COLORS = [(255, 255, 255), (0, 0, 0), (220, 30, 220)]
ENT_SLOTS = ["value", "fixup", "comments", "logical_pos"]
KEYSETS = [
    {"classname": "info_target", "origin": "0 0 64", "targetname": "tgt"},
    {"classname": "func_instance", "file": "inst/a.vmf", "Angles": "0 90 0", "replace": "x", "replace_me": "y"},
    {"classname": "logic_relay", "spawnflags": "0", "StartDisabled": "1", "empty": ""},
]


def _mk_entity(m, slot, s, ks=0, ent_id=7, hidden=False, groups=(), vis=(), vs=True, vas=True, color=(220, 30, 220),
               outputs=True, fixups=True, solids=()):
    import srctools.vmf as vmf
    keys = dict(KEYSETS[ks])
    if slot == "value":
        keys["message"] = s
    fix = []
    if fixups:
        fix = [vmf.FixupValue("var", s if slot == "fixup" else " lead tail ", 1), vmf.FixupValue("Other", "", 2),
               vmf.FixupValue("q", 'a "b" \\', 13)]
    outs = []
    if outputs:
        outs = [vmf.Output("OnTrigger", "tgt", "Fire", "a,b", 0.1, times=1),
                vmf.Output("OnUser1", "t", "Kill", "", 0.0, comma_sep=True, inst_out="r", inst_in="i")]
    kw = {}
    if slot == "logical_pos":
        kw["logical_pos"] = s
    elif slot != "default_logical":
        kw["logical_pos"] = "[0 500]"
    return vmf.Entity(m, keys=keys, fixup=fix, ent_id=ent_id, outputs=outs, solids=list(solids), hidden=hidden, groups=groups,
                      vis_ids=vis, vis_shown=vs, vis_auto_shown=vas, editor_color=color,
                      comments=s if slot == "comments" else 'c "1"\nline2', **kw)


def _cmp_entity(e, p, what="entity", world=False):
    import operator
    check(p.id == e.id, what + ".id", e.id, p.id)
    k1 = sorted(e._keys.items(), key=operator.itemgetter(0))
    k2 = sorted(p._keys.items(), key=operator.itemgetter(0))
    if world:   # VMF.export writes the map version into worldspawn for the duration of the export; it is a header field, compared there
        k1 = [kv for kv in k1 if kv[0] != "mapversion"]
        k2 = [kv for kv in k2 if kv[0] != "mapversion"]
    check(len(k1) == len(k2), what + ": number of keyvalues", [k for k, _ in k1], [k for k, _ in k2])
    for (ka, va), (kb, vb) in zip(k1, k2):
        check(ka == kb, what + ": key name", ka, kb)
        check(va == vb, what + f": value of {ka!r}", va, vb)
    f1 = sorted(e._fixup._fixup.values(), key=operator.attrgetter("id")) if e._fixup is not None else []
    f2 = sorted(p._fixup._fixup.values(), key=operator.attrgetter("id")) if p._fixup is not None else []
    check(len(f1) == len(f2), what + ": number of fixups", len(f1), len(f2))
    for a, b in zip(f1, f2):
        check(a.id == b.id, what + ": fixup index", a.id, b.id)
        check(a.var == b.var, what + ": fixup variable", a.var, b.var)
        check(a.value == b.value, what + f": fixup ${a.var} value", a.value, b.value)
    check(len(e.outputs) == len(p.outputs), what + ": number of outputs", len(e.outputs), len(p.outputs))
    for i, (a, b) in enumerate(zip(e.outputs, p.outputs)):
        _cmp_output(a, b, f"{what}.outputs[{i}]")
    check(p.hidden == e.hidden, what + ".hidden", e.hidden, p.hidden)
    check(p.comments == e.comments, what + ".comments", e.comments, p.comments)
    _vclose(e.editor_color, p.editor_color, what + ".editor_color")
    if not world:   # worldspawn has no visibility/group/logicalpos lines by design
        check(sorted(p.groups) == sorted(e.groups), what + ".groups (group membership)", sorted(e.groups), sorted(p.groups))
        check(sorted(p.visgroup_ids) == sorted(e.visgroup_ids), what + ".visgroup_ids", sorted(e.visgroup_ids), sorted(p.visgroup_ids))
        check(p.vis_shown == e.vis_shown, what + ".vis_shown", e.vis_shown, p.vis_shown)
        check(p.vis_auto_shown == e.vis_auto_shown, what + ".vis_auto_shown", e.vis_auto_shown, p.vis_auto_shown)
        check(p.logical_pos == e.logical_pos, what + ".logical_pos", e.logical_pos, p.logical_pos)
    check(len(e.solids) == len(p.solids), what + ": number of solids", len(e.solids), len(p.solids))
    for i, (a, b) in enumerate(zip(e.solids, p.solids)):
        _cmp_solid(a, b, f"{what}.solids[{i}]", in_entity=not world)


def _parse_entity_block(m2, parts, hidden):
    import srctools.vmf as vmf
    root = _kv(parts)
    if hidden:
        blk = _only_child(root, "hidden")
        kids = list(blk)
        check(len(kids) == 1 and kids[0].name == "entity", "hidden block holds one entity", [k.name for k in kids])
        return vmf.Entity.parse(m2, kids[0], True)
    return vmf.Entity.parse(m2, _only_child(root, "entity"), False)


def _rt_entity(e, what="entity"):
    import srctools.vmf as vmf
    s1 = ChunkSink()
    e.export(s1)
    m2 = vmf.VMF(preserve_ids=True)
    p = _parse_entity_block(m2, s1.parts, e.hidden)
    _cmp_entity(e, p, what)
    s2 = ChunkSink()
    p.export(s2)
    _same_text(s1.parts, s2.parts, what)


def h_entity_text(s: str, n: int, slot: str, ks: int = 0) -> None:
    """Point entity with outputs and fixups; one symbolic string leaf."""
    import srctools.vmf as vmf
    assume(len(s) == n)
    if slot == "logical_pos":
        assume(n > 0)      # '' means "use the default" in the constructor
    m = vmf.VMF()
    _rt_entity(_mk_entity(m, slot, s, ks))


def h_entity_text_w(s: str, n: int, slot: str, ks: int = 0) -> None:
    h_entity_text(s, n, slot, ks)
    raise Fail("reached")


def h_entity_ids(ei: int, gi: int, vi: int, ci: int, hidden: bool, vs: bool, vas: bool, brush: int = 0, part: int = 0) -> None:
    """Ids, group ids, visgroup ids, colour by symbolic index; symbolic visibility bools; point or brush entity."""
    import srctools.vmf as vmf
    if part == 0:
        assume(vi == 0 and ci == 0 and vs and vas)
    else:
        assume(ei == 0 and gi == 0 and not hidden)
    m = vmf.VMF()
    solids = []
    if brush:
        solids = [_mk_solid(m, "tools/toolsnodraw", kind="prism", sid=3, hidden=False),
                  _mk_solid(m, "dev/x", kind="wedge", sid=9, hidden=(brush == 2))]
    e = _mk_entity(m, "none", "", ks=2, ent_id=pick(IDS, ei), hidden=hidden, groups=pick(IDSETS, gi), vis=pick(IDSETS, vi),
                   vs=vs, vas=vas, color=pick(COLORS, ci), outputs=False, fixups=False, solids=solids)
    _rt_entity(e)


def h_entity_default(ei: int) -> None:
    """Entity built with every default (logical_pos derived from the id)."""
    import srctools.vmf as vmf
    m = vmf.VMF()
    e = vmf.Entity(m, keys={"classname": "info_null"}, ent_id=pick(IDS, ei))
    _rt_entity(e)


# ------------------------------------------------------------------------------------------ Solid / Side

INTS = [0, 1, 16, -1, 32767, 2 ** 31, 2 ** 40]


def _mk_side(m, pts, mat, fid, k=0, lightmap=16, smooth=0):
    import srctools.vmf as vmf
    from srctools.math import Vec
    u = vmf.UVAxis(F6[(k + 1) % len(F6)], F6[(k + 2) % len(F6)], F6[(k + 5) % len(F6)], F6[(k + 4) % len(F6)], 0.25 if k % 2 else 0.1)
    v = vmf.UVAxis(0.0, -1.0, 0.000001, -64.25, 0.015625)
    return vmf.Side(m, [Vec(*p) for p in pts], des_id=fid, lightmap=lightmap, smoothing=smooth, mat=mat,
                    rotation=G6[k % len(G6)], uaxis=u, vaxis=v)


def _mk_solid(m, mat, kind="wedge", sid=5, hidden=False, group=None, vis=(), vs=True, vas=True, cordon=False, color=(0, 180, 0),
              lightmap=16, smooth=0, fid0=11):
    import srctools.vmf as vmf
    from srctools.math import Vec
    if kind == "prism":
        s = m.make_prism(Vec(-64.25, 0, 0), Vec(128.125, 16384, 0.5), mat, set_points=True).solid
        s.hidden, s.group_id, s.visgroup_ids = hidden, group, set(vis)
        s.vis_shown, s.vis_auto_shown, s.is_cordon, s.editor_color = vs, vas, cordon, Vec(color)
        return s
    pts = [
        [(0, 0, 0), (128.125, 0, 0), (0, 0.5, 0)],
        [(0, 0, 0), (0, 0, -64.25), (123456.789, 0, 0)],
        [(0, 0, 0), (0, 0.000001, 0), (0, 0, 1e-07)],
        [(1, 0, 0), (0, 1, 0), (0, 0, 0.015625)],
    ]
    sides = [_mk_side(m, p, mat if i == 0 else "dev/dev_measuregeneric01", fid0 + i * 3, k=i, lightmap=lightmap if i == 0 else 16,
                      smooth=smooth if i == 0 else 3) for i, p in enumerate(pts)]
    return vmf.Solid(m, sid, sides, vis, hidden, group, vs, vas, cordon, Vec(color))


_CMP = {"multiblend": True}     # whether multiblend data is expected to survive (export option disp_multiblend)


def _cmp_uv(a, b, what):
    _fclose(a.x, b.x, what + ".x")
    _fclose(a.y, b.y, what + ".y")
    _fclose(a.z, b.z, what + ".z")
    _fclose(a.offset, b.offset, what + ".offset")
    _fclose(a.scale, b.scale, what + ".scale")


def _cmp_side(a, b, what):
    check(a.id == b.id, what + ".id", a.id, b.id)
    check(a.mat == b.mat, what + ".mat", a.mat, b.mat)
    check(a.lightmap == b.lightmap, what + ".lightmap", a.lightmap, b.lightmap)
    check(a.smooth == b.smooth, what + ".smooth", a.smooth, b.smooth)
    _sig6(a.ham_rot, b.ham_rot, what + ".ham_rot")
    for i in range(3):
        _vclose(a.planes[i], b.planes[i], f"{what}.planes[{i}]")
    _cmp_uv(a.uaxis, b.uaxis, what + ".uaxis")
    _cmp_uv(a.vaxis, b.vaxis, what + ".vaxis")
    check((a.strata_points is None) == (b.strata_points is None), what + ".strata_points presence")
    if a.strata_points is not None:
        check(len(a.strata_points) == len(b.strata_points), what + ".strata_points length")
        for i, (x, y) in enumerate(zip(a.strata_points, b.strata_points)):
            _vclose(x, y, f"{what}.strata_points[{i}]")
    check(a.disp_power == b.disp_power, what + ".disp_power", a.disp_power, b.disp_power)
    if a.disp_power > 0:
        _cmp_disp(a, b, what, multiblend=_CMP["multiblend"])


def _cmp_solid(a, b, what="solid", in_entity=False):
    check(a.id == b.id, what + ".id", a.id, b.id)
    check(a.hidden == b.hidden, what + ".hidden", a.hidden, b.hidden)
    check(a.vis_shown == b.vis_shown, what + ".vis_shown", a.vis_shown, b.vis_shown)
    check(a.vis_auto_shown == b.vis_auto_shown, what + ".vis_auto_shown", a.vis_auto_shown, b.vis_auto_shown)
    check(a.is_cordon == b.is_cordon, what + ".is_cordon", a.is_cordon, b.is_cordon)
    _vclose(a.editor_color, b.editor_color, what + ".editor_color")
    if not in_entity:   # Solid.export(include_groups=False) is documented for brushes tied to an entity: the entity carries them
        check(a.group_id == b.group_id, what + ".group_id (group membership)", a.group_id, b.group_id)
        check(sorted(a.visgroup_ids) == sorted(b.visgroup_ids), what + ".visgroup_ids", sorted(a.visgroup_ids), sorted(b.visgroup_ids))
    check(len(a.sides) == len(b.sides), what + ": number of sides", len(a.sides), len(b.sides))
    for i, (x, y) in enumerate(zip(a.sides, b.sides)):
        _cmp_side(x, y, f"{what}.sides[{i}]")


def _rt_solid(s, what="solid", disp_multiblend=True):
    import srctools.vmf as vmf
    s1 = ChunkSink()
    s.export(s1, "\t", disp_multiblend)
    m2 = vmf.VMF(preserve_ids=True)
    root = _kv(s1.parts)
    if s.hidden:
        blk = _only_child(root, "hidden")
        kids = list(blk)
        check(len(kids) == 1 and kids[0].name == "solid", "hidden block holds one solid", [k.name for k in kids])
        p = vmf.Solid.parse(m2, kids[0], hidden=True)
    else:
        p = vmf.Solid.parse(m2, _only_child(root, "solid"))
    _cmp_solid(s, p, what)
    s2 = ChunkSink()
    p.export(s2, "\t", disp_multiblend)
    _same_text(s1.parts, s2.parts, what)
    return p


def h_solid_text(s: str, n: int, kind: str = "wedge") -> None:
    """Arbitrary 4-sided solid / prism with Strata point data; the material of a face is symbolic."""
    import srctools.vmf as vmf
    assume(len(s) == n)
    m = vmf.VMF()
    _rt_solid(_mk_solid(m, s, kind=kind))


def h_solid_text_w(s: str, n: int, kind: str = "wedge") -> None:
    h_solid_text(s, n, kind)
    raise Fail("reached")


GROUPS = [None, 1, 7, 2 ** 31]


def h_solid_ids(si: int, fi: int, gi: int, vi: int, li: int, mi: int, hidden: bool, vs: bool, vas: bool, cordon: bool,
                part: int = 0) -> None:
    """Solid ids / face ids / group / visgroups / lightmap / smoothing by symbolic index, symbolic bools.
    part 0: ids+group+visgroups+hidden; part 1: ints + the other bools (keeps the product of forks small)."""
    import srctools.vmf as vmf
    m = vmf.VMF()
    if part == 0:
        assume(li == 0 and mi == 0 and vs and vas and not cordon)
        s = _mk_solid(m, "a/b", sid=pick(IDS, si), fid0=pick(IDS, fi), hidden=hidden, group=pick(GROUPS, gi), vis=pick(IDSETS, vi))
    else:
        assume(si == 0 and fi == 0 and gi == 0 and vi == 0 and not hidden)
        s = _mk_solid(m, "a/b", lightmap=pick(INTS, li), smooth=pick(INTS, mi), vs=vs, vas=vas, cordon=cordon)
    _rt_solid(s)


# ------------------------------------------------------------------------------------------ displacement

TRI = [0, 1, 9]                   # TriangleTag values (STEEP, WALKABLE, BUILDABLE)
DFLAGS = [7, 0, 1, 5, 15, 8]      # DispFlag values: collision bits 1/2/4, SUBDIV 8
ALLOWED = [-1, 0, 1, 32767, -32768]     # CrossHair models array('i') with 16-bit items: stay inside (stated bound)


def _mk_disp(m, power, mb, ti=0, fl=0, al=0, default_verts=False):
    """A displacement face with every vertex field set to distinct concrete values."""
    import srctools.vmf as vmf
    from srctools.math import Vec
    side = vmf.Side(m, [Vec(0, 0, 0), Vec(128.125, 0, 0), Vec(0, 0.5, 0)], des_id=4, mat="nature/blend", disp_power=power)
    side.disp_pos = Vec(-64.25, 0.000001, 16384)
    side.disp_elevation = 0.5
    flags = vmf.DispFlag(DFLAGS[fl])
    side.disp_flags = flags
    a = ALLOWED[al]
    side.disp_allowed_vert = vmf.Array("i", [a, -1, 0, 1, 2, 3, -7, 32767, -32768, a])
    if default_verts:
        return side
    size = side.disp_size
    tt = TRI[ti]
    for k, v in enumerate(side._disp_verts):
        v.normal = _vec(k)
        v.distance = F6[(k + 2) % len(F6)]
        v.offset = _vec(k + 1)
        v.offset_norm = _vec(k + 2)
        v.alpha = F6[(k + 5) % len(F6)] if k % 3 else 255.0
        if v.x < size - 1 and v.y < size - 1:
            v.triangle_a = vmf.TriangleTag(tt if k % 2 else 9)
            v.triangle_b = vmf.TriangleTag(0 if k % 2 else tt)
        if mb:
            v.multi_blend = vmf.Vec4(G6[k % len(G6)], 0.5, 1.0, G6[(k + 4) % len(G6)])
            v.multi_alpha = vmf.Vec4(0.25, G6[(k + 1) % len(G6)], 0.0, 1.0)
            if mb == 1:
                v.multi_colors = [_vec(k + 3), Vec(1, 1, 1), _vec(k + 4), Vec(0.5, 0.25, 0)]
    return side


def _cmp_vec4(a, b, what):
    _sig6(a.x, b.x, what + ".x")
    _sig6(a.y, b.y, what + ".y")
    _sig6(a.z, b.z, what + ".z")
    _sig6(a.w, b.w, what + ".w")


def _cmp_disp(a, b, what, multiblend=True):
    from srctools.math import Vec
    _vclose(a.disp_pos, b.disp_pos, what + ".disp_pos")
    check(a.disp_elevation == b.disp_elevation, what + ".disp_elevation", a.disp_elevation, b.disp_elevation)
    check(a.disp_flags == b.disp_flags, what + ".disp_flags", a.disp_flags, b.disp_flags)
    check(list(a.disp_allowed_vert) == list(b.disp_allowed_vert), what + ".disp_allowed_vert", list(a.disp_allowed_vert), list(b.disp_allowed_vert))
    check(len(a._disp_verts) == len(b._disp_verts), what + ": vertex count")
    size = a.disp_size
    for k, (x, y) in enumerate(zip(a._disp_verts, b._disp_verts)):
        w = f"{what}.vert[{k}]"
        check(x.x == y.x and x.y == y.y, w + " grid position")
        _vclose(x.normal, y.normal, w + ".normal")
        check(x.distance == y.distance, w + ".distance", x.distance, y.distance)
        _vclose(x.offset, y.offset, w + ".offset")
        _vclose(x.offset_norm, y.offset_norm, w + ".offset_norm")
        check(x.alpha == y.alpha, w + ".alpha", x.alpha, y.alpha)
        if x.x < size - 1 and x.y < size - 1:   # the last row/column's triangles are documented as ignored
            check(x.triangle_a == y.triangle_a, w + ".triangle_a", x.triangle_a, y.triangle_a)
            check(x.triangle_b == y.triangle_b, w + ".triangle_b", x.triangle_b, y.triangle_b)
        if multiblend:
            _cmp_vec4(x.multi_blend, y.multi_blend, w + ".multi_blend")
            _cmp_vec4(x.multi_alpha, y.multi_alpha, w + ".multi_alpha")
            if x.multi_colors is not None:
                check(y.multi_colors is not None, w + ".multi_colors lost")
                for i in range(4):
                    _vclose(x.multi_colors[i], y.multi_colors[i], f"{w}.multi_colors[{i}]")
            elif y.multi_colors is not None:   # unset colours are written as white
                for i in range(4):
                    _vclose(Vec(1, 1, 1), y.multi_colors[i], f"{w}.multi_colors[{i}] default")


def h_disp(ti: int, fl: int, al: int, power: int, mb: int, export_mb: bool = True, default_verts: bool = False) -> None:
    """Displacement face: Side.export -> Side.parse; every vertex array, flags, allowed_verts, triangle tags, multiblend."""
    import srctools.vmf as vmf
    m = vmf.VMF()
    side = _mk_disp(m, power, mb, pick(list(range(len(TRI))), ti), pick(list(range(len(DFLAGS))), fl),
                    pick(list(range(len(ALLOWED))), al), default_verts)
    s1 = ChunkSink()
    side.export(s1, "\t", export_mb)
    m2 = vmf.VMF(preserve_ids=True)
    p = vmf.Side.parse(m2, _only_child(_kv(s1.parts), "side"))
    check(p.id == side.id and p.mat == side.mat, "side header")
    check(p.disp_power == side.disp_power, "disp_power", side.disp_power, p.disp_power)
    _cmp_disp(side, p, "disp", multiblend=export_mb)
    s2 = ChunkSink()
    p.export(s2, "\t", export_mb)
    _same_text(s1.parts, s2.parts, "displacement side")


def h_disp_w(ti: int, fl: int, al: int, power: int, mb: int, export_mb: bool = True, default_verts: bool = False) -> None:
    h_disp(ti, fl, al, power, mb, export_mb, default_verts)
    raise Fail("reached")


# ------------------------------------------------------------------------------------------ VisGroup / EntityGroup / Camera / Cordon


def _cmp_vis(a, b, what):
    check(a.name == b.name, what + ".name", a.name, b.name)
    check(a.id == b.id, what + ".id", a.id, b.id)
    _vclose(a.color, b.color, what + ".color")
    check(len(a.child_groups) == len(b.child_groups), what + ": number of children", len(a.child_groups), len(b.child_groups))
    for i, (x, y) in enumerate(zip(a.child_groups, b.child_groups)):
        _cmp_vis(x, y, f"{what}.child[{i}]")


def h_visgroup(s: str, i0: int, i1: int, ci: int, n: int, depth: int = 1, ids: bool = False) -> None:
    """Nested visgroups: symbolic name at `depth`, ids and colour by index."""
    import srctools.vmf as vmf
    from srctools.math import Vec
    assume(len(s) == n)
    if n >= 0 and depth >= 0 and not ids:      # text slices: ids fixed; id slices: name fixed
        assume(i0 == 0 and i1 == 1 and ci == 0)
    a, b = pick(IDS, i0), pick(IDS, i1)
    # both maps keep ids as given ("IDs preserved when asked"), so clashing ids (a == b) are a legal input and must survive
    m = vmf.VMF(preserve_ids=True)
    names = ["top \"q\"", "mid\\", "leaf"]
    names[depth] = s
    leaf = vmf.VisGroup(m, names[2], 55, Vec(1, 2, 3))
    mid = vmf.VisGroup(m, names[1], b, Vec(pick(COLORS, ci)), [leaf, vmf.VisGroup(m, "sib", 56)])
    top = vmf.VisGroup(m, names[0], a, Vec(0, 128, 255), [mid])
    check(top.id == a and mid.id == b and leaf.id == 55, "a preserve_ids map changed a requested visgroup id", (a, b), (top.id, mid.id, leaf.id))
    s1 = ChunkSink()
    top.export(s1, "\t")
    m2 = vmf.VMF(preserve_ids=True)
    p = vmf.VisGroup.parse(m2, _only_child(_kv(s1.parts), "visgroup"))
    _cmp_vis(top, p, "visgroup")
    s2 = ChunkSink()
    p.export(s2, "\t")
    _same_text(s1.parts, s2.parts, "visgroup")


def h_visgroup_w(s: str, i0: int, i1: int, ci: int, n: int, depth: int = 1, ids: bool = False) -> None:
    h_visgroup(s, i0, i1, ci, n, depth, ids)
    raise Fail("reached")


def h_group(gi: int, ci: int, shown: bool, auto: bool) -> None:
    import srctools.vmf as vmf
    from srctools.math import Vec
    m = vmf.VMF()
    g = vmf.EntityGroup(m, pick(IDS, gi), shown, auto, Vec(pick(COLORS, ci)))
    s1 = ChunkSink()
    g.export(s1, "\t")
    m2 = vmf.VMF(preserve_ids=True)
    p = vmf.EntityGroup.parse(m2, _only_child(_kv(s1.parts), "group"))
    check(p.id == g.id, "group.id", g.id, p.id)
    check(p.shown == g.shown, "group.shown", g.shown, p.shown)
    check(p.auto_shown == g.auto_shown, "group.auto_shown", g.auto_shown, p.auto_shown)
    _vclose(g.color, p.color, "group.color")
    s2 = ChunkSink()
    p.export(s2, "\t")
    _same_text(s1.parts, s2.parts, "group")


def h_cordon(s: str, active: bool, n: int, k: int = 0) -> None:
    import srctools.vmf as vmf
    assume(len(s) == n)
    m = vmf.VMF()
    c = vmf.Cordon(m, _vec(k), _vec(k + 1), active, s)
    s1 = ChunkSink()
    c.export(s1, "\t")
    m2 = vmf.VMF(preserve_ids=True)
    p = vmf.Cordon.parse(m2, _only_child(_kv(s1.parts), "cordon"))
    check(p.name == c.name, "cordon.name", c.name, p.name)
    check(p.active == c.active, "cordon.active", c.active, p.active)
    _vclose(c.bounds_min, p.bounds_min, "cordon.bounds_min")
    _vclose(c.bounds_max, p.bounds_max, "cordon.bounds_max")
    check(m2.cordons == [p], "cordon registered once")
    s2 = ChunkSink()
    p.export(s2, "\t")
    _same_text(s1.parts, s2.parts, "cordon")


def h_camera(k: int, j: int) -> None:
    """Cameras have only float fields: position/look by index over the constant table."""
    import srctools.vmf as vmf
    kk = pick(list(range(len(F6))), k)
    jj = pick(list(range(len(F6))), j)
    m = vmf.VMF()
    c = vmf.Camera(m, _vec(kk), _vec(jj))
    s1 = ChunkSink()
    c.export(s1, "\t")
    m2 = vmf.VMF(preserve_ids=True)
    p = vmf.Camera.parse(m2, _only_child(_kv(s1.parts), "camera"))
    _vclose(c.pos, p.pos, "camera.pos")
    _vclose(c.target, p.target, "camera.target")
    s2 = ChunkSink()
    p.export(s2, "\t")
    _same_text(s1.parts, s2.parts, "camera")


# ------------------------------------------------------------------------------------------ whole map

# (hammer_version, hammer_build, map_version, grid_spacing, active_cam, quickhide_count, instance-visibility index)
HDR = [(400, 8870, 0, 64, -1, 0, 0), (0, 0, 1, 1, 1, 3, 1), (1, 2 ** 31, 100, 512, 2, 0, 2), (2 ** 31, 1, 2 ** 31, 4096, 1, 2 ** 31, 0),
       (100, 400, 7, 2, 2, 1, 1)]


def _build_map(skel, hi, hb, mv, gs, bools, ac, qh, iv):
    """Three skeleton maps. Header ints by index, all header bools symbolic."""
    import srctools.vmf as vmf
    from srctools.math import Vec, Angle
    snap, grid, logic, g3d, prefab, cord_on = bools
    inst = [None, vmf.StrataInstanceVisibility.HIDDEN, vmf.StrataInstanceVisibility.NORMAL][iv]
    m = vmf.VMF(hammer_version=hi, hammer_build=hb, map_version=mv, grid_spacing=gs, snap_grid=snap, show_grid=grid,
                show_logic_grid=logic, show_3d_grid=g3d, is_prefab=prefab, cordon_enabled=cord_on, active_cam=ac,
                quickhide_count=qh, strata_inst_visibility=inst)
    m.spawn["skyname"] = "sky_day01_01"
    m.spawn["detailmaterial"] = 'detail/"x"'
    m.spawn.comments = 'world "c"\\n'        # every optional editor field of worldspawn is populated too
    if skel == 0:       # entities only: point, instance with fixups, hidden point entity; cameras; one cordon
        m.add_ent(_mk_entity(m, "default_logical", "", ks=0, ent_id=-1))
        m.add_ent(_mk_entity(m, "none", "", ks=1, ent_id=-1, hidden=True, outputs=False))
        m.create_ent("info_null", origin=Vec(1, 2, 3))
        vmf.Camera(m, _vec(1), _vec(2))
        vmf.Camera(m, _vec(3), _vec(4))
        vmf.Cordon(m, _vec(5), _vec(6), True, 'cord "1"')
    elif skel == 1:     # brushes: world prism, hidden world brush, grouped brushes, brush entity with hidden brush; visgroups; groups
        top = m.create_visgroup("outer", (10, 20, 30))
        inner = vmf.VisGroup(m, "inner", -1, Vec(1, 2, 3))
        top.child_groups.append(inner)
        g = vmf.EntityGroup(m, -1, True, False, Vec(9, 8, 7))
        m.groups[g.id] = g
        m.add_brush(_mk_solid(m, "a/b", kind="prism", sid=-1, fid0=-1))
        m.add_brush(_mk_solid(m, "a/c", sid=-1, fid0=-1, hidden=True, vs=False))
        m.add_brush(_mk_solid(m, "a/d", sid=-1, fid0=-1, group=g.id, vis=(inner.id,), color=(9, 8, 7)))
        b1 = _mk_solid(m, "a/e", sid=-1, fid0=-1)
        b2 = _mk_solid(m, "a/f", sid=-1, fid0=-1, hidden=True)
        m.add_ent(_mk_entity(m, "default_logical", "", ks=2, ent_id=-1, groups=(g.id,), vis=(top.id, inner.id), outputs=False, fixups=False,
                             solids=[b1, b2]))
        m.add_ent(_mk_entity(m, "default_logical", "", ks=0, ent_id=-1, hidden=True, vs=False, outputs=False, fixups=False))
        m.add_ent(_mk_entity(m, "default_logical", "", ks=0, ent_id=-1, outputs=False, fixups=False))
    else:               # displacement world brush, Strata viewports, two cordons, one camera
        s = _mk_solid(m, "a/b", sid=-1, fid0=-1)
        d = _mk_disp(m, 1, 1, ti=1, fl=2, al=1)
        s.sides.append(d)
        m.add_brush(s)
        m.strata_viewports = [vmf.Strata3DViewport(_vec(2), Angle(45.0, 90.5, 0.0)), vmf.Strata2DViewport("x", 0.5, -64.25, 0.25),
                              vmf.Strata2DViewport("y", 128.125, 1.0, 1.0), vmf.Strata2DViewport("z", -1.0, 0.015625, 16384.0)]
        vmf.Camera(m, _vec(1), _vec(2))
        vmf.Cordon(m, _vec(5), _vec(6), False, "a")
        vmf.Cordon(m, _vec(7), _vec(8), True, "b\\")
    return m


def _ids_of(m):
    out = {"ent": [m.spawn.id] + [e.id for e in m.entities], "solid": [], "side": [], "vis": [], "group": sorted(m.groups)}
    sols = list(m.brushes)
    for e in m.entities:
        sols += list(e.solids)
    for s in sols:
        out["solid"].append(s.id)
        out["side"] += [f.id for f in s.sides]

    def walk(vs):
        for g in vs:
            out["vis"].append(g.id)
            walk(g.child_groups)
    walk(m.vis_tree)
    return out


def _renumber(m, maps):
    """Apply old->new id maps to the ORIGINAL map's objects, so that its export can be compared with the re-parsed map's export."""
    for e in [m.spawn] + list(m.entities):
        e.id = maps["ent"].get(e.id, e.id)
        e.groups = {maps["group"].get(g, g) for g in e.groups}
        e.visgroup_ids = {maps["vis"].get(g, g) for g in e.visgroup_ids}
        for s in e.solids:
            pass
    sols = list(m.brushes)
    for e in m.entities:
        sols += list(e.solids)
    for s in sols:
        s.id = maps["solid"].get(s.id, s.id)
        if s.group_id is not None:
            s.group_id = maps["group"].get(s.group_id, s.group_id)
        s.visgroup_ids = {maps["vis"].get(g, g) for g in s.visgroup_ids}
        for f in s.sides:
            f.id = maps["side"].get(f.id, f.id)


HDR_ATTRS = ("format_ver", "hammer_ver", "hammer_build", "is_prefab", "map_ver")
HDR_ATTRS_FULL = ("show_grid", "show_3d_grid", "snap_grid", "show_logic_grid", "grid_spacing", "active_cam", "strata_instance_vis")


def _hdr_snapshot(m):
    """Header fields and camera activity as they are BEFORE export (export must not be what decides the expected value)."""
    snap = {a: getattr(m, a) for a in HDR_ATTRS + HDR_ATTRS_FULL}
    snap["cam_active"] = [c.is_active() for c in m.cameras]
    if not m.cameras:
        snap["active_cam"] = -1        # documented: a map without cameras has no active camera
    return snap


def _cmp_map(m, p, minimal, disp_mb, preserve, snap=None):
    snap = snap if snap is not None else _hdr_snapshot(m)
    for attr in HDR_ATTRS:
        check(snap[attr] == getattr(p, attr), "VMF." + attr, snap[attr], getattr(p, attr))
        check(snap[attr] == getattr(m, attr), "export changed the exported map's " + attr, snap[attr], getattr(m, attr))
    if not minimal:
        for attr in HDR_ATTRS_FULL:
            check(snap[attr] == getattr(p, attr), "VMF." + attr, snap[attr], getattr(p, attr))
            check(snap[attr] == getattr(m, attr), "export changed the exported map's " + attr, snap[attr], getattr(m, attr))
        check([c.is_active() for c in p.cameras] == snap["cam_active"], "which camera is active", snap["cam_active"], [c.is_active() for c in p.cameras])
        check(p.cordon_enabled == (m.cordon_enabled and len(m.cordons) > 0), "VMF.cordon_enabled", m.cordon_enabled, p.cordon_enabled)
        check(len(m.cameras) == len(p.cameras), "number of cameras", len(m.cameras), len(p.cameras))
        for i, (a, b) in enumerate(zip(m.cameras, p.cameras)):
            _vclose(a.pos, b.pos, f"cameras[{i}].pos")
            _vclose(a.target, b.target, f"cameras[{i}].target")
        check(len(m.cordons) == len(p.cordons), "number of cordons", len(m.cordons), len(p.cordons))
        for i, (a, b) in enumerate(zip(m.cordons, p.cordons)):
            check(a.name == b.name and a.active == b.active, f"cordons[{i}]", a.name, b.name)
            _vclose(a.bounds_min, b.bounds_min, f"cordons[{i}].min")
            _vclose(a.bounds_max, b.bounds_max, f"cordons[{i}].max")
        check((m.strata_viewports is None) == (p.strata_viewports is None), "strata_viewports presence")
        if m.strata_viewports is not None:
            check(len(m.strata_viewports) == len(p.strata_viewports), "viewport count")
            for i, (a, b) in enumerate(zip(m.strata_viewports, p.strata_viewports)):
                check(type(a) is type(b), f"viewport[{i}] kind", type(a).__name__, type(b).__name__)
                if hasattr(a, "axis"):
                    check(a.axis == b.axis, f"viewport[{i}].axis", a.axis, b.axis)
                    _fclose(a.u, b.u, f"viewport[{i}].u")
                    _fclose(a.v, b.v, f"viewport[{i}].v")
                    _fclose(a.zoom, b.zoom, f"viewport[{i}].zoom")
                else:
                    _vclose(a.position, b.position, f"viewport[{i}].position")
                    _fclose(a.angle.pitch, b.angle.pitch, f"viewport[{i}].pitch")
                    _fclose(a.angle.yaw, b.angle.yaw, f"viewport[{i}].yaw")
                    _fclose(a.angle.roll, b.angle.roll, f"viewport[{i}].roll")
    check(m.quickhide_count == p.quickhide_count or (m.quickhide_count <= 0 and p.quickhide_count == 0), "VMF.quickhide_count",
          m.quickhide_count, p.quickhide_count)
    check(len(m.vis_tree) == len(p.vis_tree), "number of visgroups", len(m.vis_tree), len(p.vis_tree))
    for i, (a, b) in enumerate(zip(m.vis_tree, p.vis_tree)):
        _cmp_vis(a, b, f"vis_tree[{i}]")
    check(sorted(m.groups) == sorted(p.groups), "group ids", sorted(m.groups), sorted(p.groups))
    for k in m.groups:
        a, b = m.groups[k], p.groups[k]
        check(a.shown == b.shown and a.auto_shown == b.auto_shown, f"groups[{k}] visibility", (a.shown, a.auto_shown), (b.shown, b.auto_shown))
        _vclose(a.color, b.color, f"groups[{k}].color")
    _cmp_entity(m.spawn, p.spawn, "worldspawn", world=True)
    check(p.brushes is p.spawn.solids, "brushes list shared with worldspawn")
    check(len(m.entities) == len(p.entities), "number of entities", len(m.entities), len(p.entities))
    # the entity list is compared as written: visible entities first, hidden ones afterwards is NOT accepted silently,
    # order is map content (output firing order, overlay lists).
    for i, (a, b) in enumerate(zip(m.entities, p.entities)):
        _cmp_entity(a, b, f"entities[{i}]")


def h_vmf(hx: int, b0: bool, b1: bool, b2: bool, skel: int, preserve: bool, minimal: bool = False, disp_mb: bool = True, part: int = 0) -> None:
    """VMF.export -> Keyvalues.parse -> VMF.parse(preserve_ids) -> VMF.export on a skeleton map.
    part 0: header bools symbolic (3 solver bools drive 6 fields as b/not b pairs; ints fixed); part 1: header ints by index (bools fixed)."""
    import srctools.vmf as vmf
    if part == 0:
        assume(hx == 0)
    else:
        assume(b0 and b1 and not b2)
    hv, hb, mv, gs, ac, qh, iv = pick(HDR, hx)
    m = _build_map(skel, hv, hb, mv, gs, (b0, not b0, b1, not b1, b2, not b2), ac, qh, iv)
    snap = _hdr_snapshot(m)
    s1 = ChunkSink()
    m.export(s1, inc_version=False, minimal=minimal, disp_multiblend=disp_mb)
    p = vmf.VMF.parse(_kv(s1.parts), preserve_ids=preserve)
    ids_m, ids_p = _ids_of(m), _ids_of(p)
    maps = {}
    for kind in ids_m:
        a, b = ids_m[kind], ids_p[kind]
        check(len(a) == len(b), f"number of {kind} objects", len(a), len(b))
        if preserve:
            check(sorted(a) == sorted(b), f"{kind} ids not preserved with preserve_ids=True", a, b)
            check(a == b, f"{kind} objects re-read in a different order (ids in document order)", a, b)
        check(len(set(b)) == len(b), f"renumbering of {kind} ids is not injective", a, b)
        maps[kind] = dict(zip(a, b))
    _renumber(m, maps)
    _CMP["multiblend"] = disp_mb
    _cmp_map(m, p, minimal, disp_mb, preserve, snap)
    s1b = ChunkSink()
    m.export(s1b, inc_version=False, minimal=minimal, disp_multiblend=disp_mb)
    s2 = ChunkSink()
    p.export(s2, inc_version=False, minimal=minimal, disp_multiblend=disp_mb)
    _same_text(s1b.parts, s2.parts, "whole map (after the consistent renumbering)")


def h_vmf_w(hx: int, b0: bool, b1: bool, b2: bool, skel: int, preserve: bool, minimal: bool = False, disp_mb: bool = True, part: int = 0) -> None:
    h_vmf(hx, b0, b1, b2, skel, preserve, minimal, disp_mb, part)
    raise Fail("reached")


# ------------------------------------------------------------------------------------------ obligations


def obligations(tier):
    q = tier == "quick"
    lens = (0, 1) if q else (0, 1, 2)
    B = 900 if q else 3600
    obls = []
    # Output: every slot x form; delay constants as concrete slices on the default slot
    sl = [{"n": n, "slot": s, "form": f, "tfix": (n + f) % len(TIMES)} for n in lens for s in OUT_SLOTS for f in range(len(OUT_FORMS))
          if not (s == "inst_out" and OUT_FORMS[f][1] is None) and not (s == "inst_in" and OUT_FORMS[f][2] is None)
          and not (n == 0 and s in ("inst_out", "inst_in"))]
    obls.append(Obl("output.text", MOD, "h_output", slices=sl, budget_s=B, per_path_s=40,
                    desc="Output export->parse: one symbolic field at a time, 5 separator/instance forms, times by index",
                    bound="exact length per slice, full Unicode"))
    obls.append(Obl("output.delay", MOD, "h_output", slices=[{"n": 0, "slot": "params", "form": f, "d": d} for f in (0, 1) for d in range(len(G6))],
                    budget_s=B, per_path_s=40, desc="delay constants re-read within six significant digits; times by symbolic index",
                    bound="10 delay constants x 5 times values"))
    obls.append(Obl("output.witness", MOD, "h_output_w", slices=[{"n": 1, "slot": "target", "form": 0, "tfix": 0}, {"n": 1, "slot": "inst_in", "form": 4, "tfix": 1}],
                    budget_s=120, per_path_s=40, witness=True))
    # Entity
    sl = [{"n": n, "slot": s, "ks": k} for n in lens for s in ENT_SLOTS for k in ((1,) if q else (0, 1, 2)) if not (s == "logical_pos" and n == 0)]
    obls.append(Obl("entity.text", MOD, "h_entity_text", slices=sl, budget_s=B, per_path_s=40,
                    desc="Entity export->parse->export with outputs and fixups: value / fixup value / comments / logical_pos symbolic",
                    bound="exact length per slice, full Unicode"))
    obls.append(Obl("entity.witness", MOD, "h_entity_text_w", slices=[{"n": 1, "slot": "fixup", "ks": 1}], budget_s=120, per_path_s=40, witness=True))
    obls.append(Obl("entity.ids", MOD, "h_entity_ids", slices=[{"brush": b, "part": pt} for b in (0, 1, 2) for pt in (0, 1)], budget_s=B * 2, per_path_s=60,
                    desc="entity id, groups, visgroups, colour by index; hidden/vis_shown/vis_auto_shown symbolic; point and brush entity "
                         "(with a hidden brush)", bound="lists IDS/IDSETS/COLORS"))
    obls.append(Obl("entity.default", MOD, "h_entity_default", budget_s=B, per_path_s=40, desc="all-default entity"))
    # Solid
    if not q:     # ~60 s per path (a face block is one long written piece): thorough tier only
        obls.append(Obl("solid.text", MOD, "h_solid_text", slices=[{"n": n, "kind": k} for n in ((0,) if q else (0, 1)) for k in ("wedge", "prism")],
                        budget_s=B if q else 4000, per_path_s=60 if q else 900, desc="Solid export->parse->export: symbolic face material; planes, UV axes, rotation, Strata point data concrete",
                        bound="exact length per slice, full Unicode"))
        obls.append(Obl("solid.witness", MOD, "h_solid_text_w", slices=[{"n": 0 if q else 1, "kind": "wedge"}], budget_s=120 if q else 900, per_path_s=60 if q else 300, witness=True))
    obls.append(Obl("solid.ids", MOD, "h_solid_ids", slices=[{"part": 0}, {"part": 1}], budget_s=B * 3, per_path_s=60,
                    desc="solid/face ids, group id, visgroup ids, lightmap scale, smoothing groups by index; hidden/vis/cordon bools symbolic"))
    # Displacement
    sl = [{"power": p, "mb": mb, "export_mb": True} for p in ((1,) if q else (1, 2)) for mb in (0, 1, 2)]
    sl += [{"power": 1, "mb": 1, "export_mb": False}, {"power": 1, "mb": 0, "export_mb": True, "default_verts": True}]
    obls.append(Obl("disp", MOD, "h_disp", slices=sl, budget_s=B * 3, per_path_s=90,
                    desc="displacement face: all vertex arrays, triangle tags / flags / allowed_verts by index, multiblend "
                         "(mb=1 with colours, mb=2 blend set but colours unset), disp_multiblend option",
                    bound="power per slice"))
    obls.append(Obl("disp.witness", MOD, "h_disp_w", slices=[{"power": 1, "mb": 0}], budget_s=200, per_path_s=90, witness=True))
    # small classes
    obls.append(Obl("visgroup", MOD, "h_visgroup", slices=[{"n": n, "depth": d} for n in lens for d in (0, 2)] + [{"n": 0, "depth": 1, "ids": True}], budget_s=B * 2, per_path_s=40,
                    desc="nested visgroups: symbolic name at the top / leaf level, ids and colour by index"))
    obls.append(Obl("visgroup.witness", MOD, "h_visgroup_w", slices=[{"n": 1, "depth": 2}], budget_s=120, per_path_s=40, witness=True))
    obls.append(Obl("group", MOD, "h_group", budget_s=B, per_path_s=40, desc="EntityGroup export->parse: id/colour by index, both visibility bools symbolic"))
    obls.append(Obl("cordon", MOD, "h_cordon", slices=[{"n": n, "k": k} for n in lens for k in ((0,) if q else (0, 4, 9))], budget_s=B, per_path_s=40,
                    desc="Cordon: symbolic name and active flag"))
    obls.append(Obl("camera", MOD, "h_camera", budget_s=B, per_path_s=40, desc="Camera position/look over the float constant table"))
    # whole map
    if q:
        sl = [{"skel": k, "preserve": pr, "part": 1} for k in (0, 1, 2) for pr in (True, False)]
        sl += [{"skel": 2, "preserve": True, "minimal": True, "part": 1}, {"skel": 2, "preserve": True, "disp_mb": False, "part": 1}]
    else:
        sl = [{"skel": k, "preserve": pr, "minimal": mn, "disp_mb": dm, "part": pt} for k in (0, 1, 2) for pr in (True, False)
              for mn in (False, True) for dm in ((True, False) if k == 2 else (True,)) for pt in (0, 1)]
    obls.append(Obl("vmf", MOD, "h_vmf", slices=sl, budget_s=900 if q else 3000, per_path_s=120,
                    desc="VMF.export->VMF.parse->VMF.export on 3 skeleton maps; preserve_ids on/off with the renumbering oracle; minimal; "
                         "disp_multiblend; header ints by index / header bools symbolic", bound="3 skeleton maps"))
    obls.append(Obl("vmf.witness", MOD, "h_vmf_w", slices=[{"skel": 0, "preserve": False, "part": 1}], budget_s=300, per_path_s=120, witness=True))
    return obls
