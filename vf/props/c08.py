"""C08 — IDs inside one VMF are unique per kind, positive, never reused while live.

(1) IDMan inductive step on exact mathematical integers (E2: SymZ/SymSet through the real get_id/discard/remove).
(2) Object-level histories through the public API (E1: operation codes and desired ids are solver-chosen indices).
(3) EntityFixup replaceNN indexes (E1).
"""
from __future__ import annotations

import gc
import json
import time

from vf.core import Obl
from vf.h import Fail, assume, check

MOD = "vf.props.c08"

META = {
    "level": "model_checking",
    "functions": ["srctools.vmf:IDMan.get_id", "srctools.vmf:IDMan.discard", "srctools.vmf:IDMan.remove", "srctools.vmf:IDMan.__contains__",
                  "srctools.vmf:VMF.remove_ent", "srctools.vmf:VMF.remove_brush", "srctools.vmf:VMF.add_ent", "srctools.vmf:VMF.create_ent",
                  "srctools.vmf:Entity.__init__", "srctools.vmf:Entity.copy", "srctools.vmf:Entity.__del__", "srctools.vmf:Solid.copy",
                  "srctools.vmf:Solid.__del__", "srctools.vmf:Side.copy", "srctools.vmf:Side.__del__", "srctools.vmf:VisGroup.copy",
                  "srctools.vmf:EntityGroup.copy", "srctools.vmf:EntityFixup.__init__", "srctools.vmf:EntityFixup.__setitem__",
                  "srctools.vmf:EntityFixup.__delitem__"],
    "bounds": "IDMan step: ALL integers (no value bound), |used| = N <= 3 (quick) / 6 (thorough), arbitrary search_pos/desired under the "
              "representation invariant; object level: histories of <= 4 (quick) / 5 (thorough) operations over 9 operation kinds with desired "
              "ids from [-5,-1,0,1,2,3,7]; fixups: 3 initial (var,id) pairs + 2 operations",
    "outside": "NullIDMan maps (exempt by definition); |used| > 6; longer histories; re-adding an entity after remove_ent",
    "stubs": ["IDMan._used -> SymSet (explicit member list; `in` is a disjunction of equalities) in the step obligations",
              "srctools.vmf.intern -> identity; srctools.vmf.frozenset -> real frozenset under NoTracing (CopySet.__iter__)"],
    "trusted_base": ["z3 (LIA + quantified invariant)", "vf/symx.py", "crosshair-tool 0.0.110", "vf/chx.py"],
    "assumptions": ["IDs passed to discard/remove were previously handed out (>= 1): every stored id comes from get_id",
                    "object-level: gc.collect() runs finalisers of unreachable objects (CPython refcounting)"],
    "explanation": "",
}


def setup(engine):
    if engine == "chx":
        from vf.stubs.common import stub_intern
        from vf.stubs.vmfstubs import stub_copyset
        stub_intern()
        stub_copyset()


# ---------------------------------------------------------------- (1) IDMan step, E2

def o_idman_step(n: int = 2, _concrete=None):
    """One inductive step of IDMan from an arbitrary valid state with |used| == n.

    Invariant Inv(used, sp): all u in used are >= 1, sp >= 1.  (The 'everything below search_pos is used' hint is a
    performance property, not needed for uniqueness, and is NOT assumed: the step is proved from the weaker invariant.)
    get_id(d): returns r >= 1, r not in used, used' == used + {r}, Inv'.   discard/remove(e), e >= 1: used' == used - {e}, Inv'.
    The search loop must terminate within n+1 iterations on every feasible path (unwinding assertion).
    """
    import z3
    from vf import symx
    import srctools.vmf as vmf
    t0 = time.perf_counter()
    items = []
    fail = None
    unknown = []

    def fresh_state():
        us = [z3.Int(f"u{i}") for i in range(n)]
        sp = z3.Int("search_pos")
        base = [u >= 1 for u in us] + [sp >= 1] + ([z3.Distinct(*us)] if n > 1 else [])
        return us, sp, base

    def mk(us, sp):
        man = vmf.IDMan.__new__(vmf.IDMan)
        man._used = symx.SymSet([symx.SymZ(u) for u in us])
        man.search_pos = symx.SymZ(sp)
        return man

    def members(man):
        return [symx._zv(m) for m in man._used.m]

    def set_eq(k, new_members, old_members, plus=None, minus=None):
        """forall k: k in new  <->  (k in old or k == plus) and k != minus"""
        in_new = z3.Or([k == m for m in new_members]) if new_members else z3.BoolVal(False)
        in_old = z3.Or([k == m for m in old_members]) if old_members else z3.BoolVal(False)
        rhs = in_old
        if plus is not None:
            rhs = z3.Or(rhs, k == plus)
        if minus is not None:
            rhs = z3.And(rhs, k != minus)
        return in_new == rhs

    us, sp, base = fresh_state()
    if symx.satisfiable(base) != "sat":
        return {"verdict": "vacuous", "queries": symx.STATS["queries"]}
    k = z3.Int("k")
    npaths = 0
    for opname in ("get_id", "discard", "remove"):
        arg = z3.Int("arg")
        extra = [] if opname == "get_id" else [arg >= 1]
        if opname == "remove":
            extra.append(z3.Or([arg == u for u in us]) if us else z3.BoolVal(False))   # remove() of a non-member raises KeyError: not a use case

        def run():
            man = mk(us, sp)
            iters = [0]
            if opname == "get_id":
                # count loop iterations through __contains__ calls on the manager
                orig = vmf.IDMan.__contains__
                ret = man.get_id(symx.SymZ(arg))
                return man, ret
            getattr(man, opname)(symx.SymZ(arg))
            return man, None
        if opname == "remove" and n == 0:
            continue
        try:
            for pc, (man, ret), unk in symx.explore(run, base + extra, timeout_ms=20000, max_paths=2000):
                npaths += 1
                cons = base + extra + pc
                new = members(man)
                goals = []
                if len(pc) > 2 * (n + 2) + 2:
                    fail = fail or {"query": f"{opname}: unwinding bound exceeded", "goal": f"{len(pc)} decisions", "model": {}}
                if opname == "get_id":
                    r = symx._zv(ret)
                    goals = [("result >= 1", r >= 1),
                             ("result not previously used", z3.And([r != u for u in us]) if us else z3.BoolVal(True)),
                             ("used' == used + {result}", z3.ForAll([k], set_eq(k, new, us, plus=r))),
                             ("members stay >= 1", z3.And([m >= 1 for m in new]) if new else z3.BoolVal(True)),
                             ("search_pos' >= 1", symx._zv(man.search_pos) >= 1),
                             ("members distinct", z3.Distinct(*new) if len(new) > 1 else z3.BoolVal(True))]
                else:
                    goals = [("used' == used - {e}", z3.ForAll([k], set_eq(k, new, us, minus=arg))),
                             ("search_pos' >= 1", symx._zv(man.search_pos) >= 1),
                             ("members distinct", z3.Distinct(*new) if len(new) > 1 else z3.BoolVal(True))]
                for label, g in goals:
                    res, model = symx.prove(cons, g, 30000)
                    items.append({"q": f"{opname} path{npaths}: {label}", "r": {"holds": "unsat", "cex": "sat"}.get(res, res)})
                    if res == "cex" and fail is None:
                        fail = {"query": f"{opname}: {label}", "goal": str(g)[:200],
                                "model": {str(d): symx.model_value(model, d()) for d in model.decls() if not str(d).startswith("k!")}}
                    elif res == "unknown":
                        unknown.append(f"{opname}: {label}")
        except RuntimeError as e:
            unknown.append(f"{opname}: {e}")
    st = symx.STATS
    verdict = "refuted" if fail else ("unknown" if unknown else "confirmed")
    cex = None
    if fail:
        cex = dict(fail["model"], _n=n, _query=fail["query"])
    return {"verdict": verdict, "queries": st["queries"], "solver_checks": st["queries"], "solver_s": round(st["seconds"], 3), "paths": npaths,
            "cex": cex, "failure": fail, "unknown_reasons": {u: 1 for u in unknown[:6]}, "samples": [items[:3]],
            "wall_s": round(time.perf_counter() - t0, 3)}


def replay_idman(**cex):
    """Replay an IDMan step model on the real class with real ints and a real set."""
    import srctools.vmf as vmf
    n = int(cex.get("_n", 0))
    q = cex.get("_query", "")
    used = {int(cex.get(f"u{i}", i + 1)) for i in range(n)}
    man = vmf.IDMan(used)
    man.search_pos = int(cex.get("search_pos", 1))
    arg = int(cex.get("arg", -1))
    before = set(man._used)
    if q.startswith("get_id"):
        r = man.get_id(arg)
        check(r >= 1, "get_id returned a non-positive id", r)
        check(r not in before, "get_id returned a used id", r, sorted(before))
        check(set(man._used) == before | {r}, "used set wrong after get_id", sorted(man._used))
    else:
        getattr(man, "discard" if q.startswith("discard") else "remove")(arg)
        check(set(man._used) == before - {arg}, "used set wrong", sorted(man._used))
    check(man.search_pos >= 1, "search_pos < 1", man.search_pos)
    check(all(u >= 1 for u in man._used), "non-positive member")


# ---------------------------------------------------------------- (2) object level, E1

IDS = [-5, -1, 0, 1, 2, 7]
OPS = ["ent", "brush", "brush_ent", "copy_ent", "copy_brush", "remove_ent", "remove_brush", "drop_refs", "copy_other_map", "visgroup", "group", "node", "set_nodeid", "bad_side", "copy_visgroup"]


def _live_ids(v):
    """ids per kind of every object reachable from the VMF."""
    out = {"ent": [], "solid": [], "side": [], "vis": [], "group": [], "node": []}
    for e in [v.spawn] + list(v.entities):
        out["ent"].append(e.id)
        if "nodeid" in e:
            out["node"].append(int(e["nodeid"]))
    solids = list(v.brushes)
    for e in v.entities:
        solids += list(e.solids)
    for s in solids:
        out["solid"].append(s.id)
        for f in s.sides:
            out["side"].append(f.id)

    def walk(vs):
        for g in vs:
            out["vis"].append(g.id)
            walk(g.child_groups)
    walk(v.vis_tree)
    for g in v.groups.values():
        out["group"].append(g.id)
    return out


def _check_unique(v, where):
    for kind, ids in _live_ids(v).items():
        for i in ids:
            check(isinstance(i, int) and i >= 1, f"{where}: non-positive {kind} id", ids)
        check(len(set(ids)) == len(ids), f"{where}: duplicate {kind} ids among live objects", ids)


def _apply(v, other, held, op, idx):
    """One public-API operation. `held` keeps user references to objects (as a caller would)."""
    import srctools.vmf as vmf
    from srctools.math import Vec
    want = IDS[idx % len(IDS)]
    if op == "ent":
        e = vmf.Entity(v, keys={"classname": "info_target"}, ent_id=want)
        v.add_ent(e)
        held.append(e)
    elif op == "brush":
        s = v.make_prism(Vec(0, 0, 0), Vec(16, 16, 16)).solid
        v.add_brush(s)
        held.append(s)
    elif op == "brush_ent":
        s = v.make_prism(Vec(0, 0, 0), Vec(16, 16, 16)).solid
        e = vmf.Entity(v, keys={"classname": "func_brush"}, solids=[s], ent_id=want)
        v.add_ent(e)
        held.append(e)
    elif op == "copy_ent":
        ents = [e for e in held if isinstance(e, vmf.Entity)]
        if ents:
            c = ents[idx % len(ents)].copy(des_id=want)
            v.add_ent(c)
            held.append(c)
    elif op == "copy_brush":
        sols = [s for s in held if isinstance(s, vmf.Solid)]
        if sols:
            c = sols[idx % len(sols)].copy(des_id=want)
            v.add_brush(c)
            held.append(c)
    elif op == "remove_ent":
        ents = [e for e in v.entities]
        if ents:
            ents[idx % len(ents)].remove()
    elif op == "remove_brush":
        if v.brushes:
            v.brushes[idx % len(v.brushes)].remove()
    elif op == "drop_refs":
        del held[:]
        gc.collect()
    elif op == "copy_other_map":
        ents = [e for e in other.entities]
        if ents:
            c = ents[idx % len(ents)].copy(vmf_file=v)
            v.add_ent(c)
            held.append(c)
    elif op == "node":
        e = vmf.Entity(v, keys={"classname": "info_node", "nodeid": str(want)})
        v.add_ent(e)
        held.append(e)
    elif op == "set_nodeid":
        nodes = [e for e in v.entities if "nodeid" in e]
        if nodes:
            nodes[idx % len(nodes)]["nodeid"] = str(want)
    elif op == "bad_side":
        # a creation that is rejected (wrong number of plane points) must not disturb the id managers
        try:
            vmf.Side(v, [Vec(0, 0, 0), Vec(1, 0, 0)])
        except ValueError:
            pass
        gc.collect()
    elif op == "visgroup":
        g = v.create_visgroup("g")
        held.append(g)
    elif op == "copy_visgroup":
        # a visgroup with a nested child, copied from the other map into this one (every level must get its id here)
        tops = list(other.vis_tree)
        if tops:
            c = tops[0].copy(v, {}, des_id=want)
            v.vis_tree.append(c)
            held.append(c)
    elif op == "group":
        g = vmf.EntityGroup(v, id=want)
        v.groups[g.id] = g
        held.append(g)


USES_ID = {"ent", "brush_ent", "copy_ent", "copy_brush", "group", "node", "set_nodeid", "copy_visgroup"}


def pick(lst, idx):
    """Concrete element chosen by a symbolic index (forks one path per element; keeps hashed values concrete)."""
    for k in range(len(lst)):
        if idx == k:
            return lst[k]
    assume(False)


def _recycle_probe(v, held):
    """Fixed suffix run after every symbolic prefix: allocate one of each kind, add every removed-but-held entity again,
    drop every user reference so that
    finalisers of removed-but-held objects run, then allocate twice more. Any id released while its owner is alive
    shows up here as a duplicate among live objects."""
    for rnd in range(3):
        for op in ("ent", "brush", "visgroup", "group", "node"):
            _apply(v, None, held, op, 1)      # desired id -1: automatic allocation
            _check_unique(v, f"recycle probe round {rnd} ({op})")
        if rnd == 0:
            # objects the caller removed but still holds may be put back ("the object still exists, so it can be reused")
            import srctools.vmf as vmf
            for e in list(held):
                if isinstance(e, vmf.Entity) and not any(e is x for x in v.entities):
                    v.add_ent(e)
                    _check_unique(v, "recycle probe: a removed entity added again")
            del held[:]
            gc.collect()
            _check_unique(v, "recycle probe after dropping references")


def h_history(o0: int, i0: int, o1: int, i1: int, o2: int, i2: int, nops: int, first: int = -1, second: int = -1) -> None:
    """<= nops arbitrary public operations from an empty map, then the fixed recycle probe; per-kind uniqueness and
    positivity of the ids of everything reachable from the map after every step."""
    import srctools.vmf as vmf
    raw = [(o0, i0), (o1, i1), (o2, i2)]
    if first >= 0:
        assume(o0 == first)     # slice on the first (and second) operation kind
    if second >= 0:
        assume(o1 == second)
    ops = []
    for k, (o, i) in enumerate(raw):
        if k >= nops:
            assume(o == 0 and i == 0)
            continue
        name = pick(OPS, o)
        if name in USES_ID:
            ops.append((name, pick(list(range(len(IDS))), i)))
        else:
            assume(i == 0)
            ops.append((name, 0))
    v = vmf.VMF()
    other = vmf.VMF()
    for k in (1, 2, 3):
        other.create_ent("info_other")     # the other map hands out ids 2..4: colliding ids arrive by cross-map copy
    otop = other.create_visgroup("outer")
    otop.child_groups.append(vmf.VisGroup(other, "inner"))
    held = []
    _check_unique(v, "fresh map")
    for step, (name, i) in enumerate(ops):
        _apply(v, other, held, name, i)
        _check_unique(v, f"after step {step} ({name})")
    _recycle_probe(v, held)


def h_history_w(o0: int, i0: int, o1: int, i1: int, o2: int, i2: int, nops: int) -> None:
    h_history(o0, i0, o1, i1, o2, i2, nops)
    raise Fail("reached")


def h_parse_ids(a: int, b: int, c: int, d: int) -> None:
    """Parsing a document whose id fields collide / are missing / non-positive still yields unique positive ids."""
    import srctools.vmf as vmf
    from srctools.keyvalues import Keyvalues
    a, b, c, d = (pick(IDS, x) for x in (a, b, c, d))
    def ent(i):
        return Keyvalues("entity", [Keyvalues("id", str(i)), Keyvalues("classname", "info_target")])
    tree = Keyvalues.root(ent(a), ent(b), ent(c), Keyvalues("entity", [Keyvalues("classname", "info_null")]), ent(d))
    v = vmf.VMF.parse(tree)
    _check_unique(v, "after parse")
    check(len(v.entities) == 5, "entity lost", len(v.entities))


# ---------------------------------------------------------------- (3) fixup indexes, E1

FIX_VARS = ["a", "b", "c"]
FIX_IDS = [1, 2, 0]


def h_fixup(v0: int, d0: int, v1: int, d1: int, v2: int, d2: int, op0: int, op1: int) -> None:
    import srctools.vmf as vmf
    fx = vmf.EntityFixup([vmf.FixupValue(pick(FIX_VARS, v), "val", pick(FIX_IDS, d)) for v, d in ((v0, d0), (v1, d1), (v2, d2))])

    def distinct(where, f):
        ids = [x.id for x in f._fixup.values()]
        check(len(set(ids)) == len(ids), f"{where}: duplicate replaceNN indexes", ids)
        sink = _Sink()
        f.export(sink, "")
        lines = [p for p in sink.parts if p.strip()]
        keys = [ln.split('"')[1] for ln in lines]
        check(len(set(keys)) == len(keys), f"{where}: duplicate replaceNN keys exported", keys)
    distinct("constructor", fx)
    for op in (op0, op1):
        if op == 0:
            fx["new"] = "1"
        elif op == 1:
            fx["other"] = "2"
        elif op == 2:
            del fx["a"]
        elif op == 3:
            fx = vmf.EntityFixup(fx.copy_values())
        else:
            fx["$b"] = "3"
        distinct(f"after op {op}", fx)
        # ids the class itself assigned are positive
    for x in fx._fixup.values():
        if x.var in ("new", "other"):
            check(x.id >= 1, "assigned index not positive", x.id)


class _Sink:
    def __init__(self):
        self.parts = []

    def write(self, s):
        self.parts.append(s)


def _hist_slices(tier):
    sl = [{"nops": 0}, {"nops": 1}] + [{"nops": 2, "first": a} for a in range(len(OPS))]
    if tier == "thorough":
        sl += [{"nops": 3, "first": a, "second": b} for a in range(len(OPS)) for b in range(len(OPS))]
    return sl


def obligations(tier):
    ns = [0, 1, 2, 3] if tier == "quick" else [0, 1, 2, 3, 4, 5, 6]
    nops = [0, 1, 2] if tier == "quick" else [0, 1, 2, 3]
    obls = [
        Obl("idman_step", MOD, "o_idman_step", engine="call", slices=[{"n": n} for n in ns], budget_s=900, replay="replay_idman",
            desc="IDMan.get_id/discard/remove from an arbitrary valid state: fresh positive id, exact set update, invariant kept, loop bound",
            bound="all integers; |used| per slice"),
        Obl("history", MOD, "h_history", slices=_hist_slices(tier), budget_s=900 if tier == "quick" else 3000, per_path_s=60,
            desc="public-API histories (create/copy/remove/gc/cross-map copy): per-kind unique positive ids after every step",
            bound="<= nops operations, ids by index"),
        Obl("history.witness", MOD, "h_history_w", slices=[{"nops": 1}], budget_s=120, per_path_s=60, witness=True),
        Obl("parse_ids", MOD, "h_parse_ids", budget_s=600, per_path_s=60, desc="VMF.parse with colliding/missing/non-positive ids"),
        Obl("fixup", MOD, "h_fixup", slices=[{"op0": a, "op1": b} for a in range(5) for b in range(5)], budget_s=900, per_path_s=60, desc="EntityFixup replaceNN indexes pairwise distinct through init/set/del/copy"),
    ]
    return obls
