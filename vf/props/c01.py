"""C01 — KeyValues1 serialise/parse round trip preserves the whole tree (E1, CrossHair).

Real code executed symbolically: Keyvalues.serialise/_serialise, escape_text, Keyvalues.parse, Tokenizer.
One string slot of a concrete tree skeleton is an unconstrained symbolic str (exact length per slice, every code point),
the serialise options (indent characters, indent_braces, start_indent characters) are symbolic as well; the remaining slots
hold fixed tricky constants.
"""
from __future__ import annotations

from vf.core import Obl
from vf.h import ChunkSink, Fail, assume, check

MOD = "vf.props.c01"

META = {
    "level": "model_checking",
    "functions": ["srctools.keyvalues:Keyvalues.serialise", "srctools.keyvalues:Keyvalues._serialise",
                  "srctools.keyvalues:Keyvalues.parse", "srctools.keyvalues:Keyvalues.__init__", "srctools.keyvalues:Keyvalues.root",
                  "srctools.tokenizer:escape_text", "srctools.tokenizer:_escape_matcher",
                  "srctools.tokenizer:Tokenizer._get_token", "srctools.tokenizer:Tokenizer._handle_string",
                  "srctools.tokenizer:Tokenizer._next_char", "srctools.tokenizer:BaseTokenizer.__call__",
                  "srctools.tokenizer:BaseTokenizer.push_back"],
    "bounds": "10 concrete tree skeletons (leaf; empty block; block{leaf}; block{block{leaf}}; two roots; duplicate names; leaf after "
              "block; block after leaf; 3-wide; empty blocks incl. empty name), depth <= 3, width <= 3; ONE string slot symbolic at a time "
              "with an exact length per slice: len 0/1 over every code point for every slot of every skeleton (non-ASCII names: on the "
              "small skeletons; quick 3, thorough 6), len 2 over every code point for values (names: ASCII; thorough: every code point on "
              "leaf), thorough len 3 (leaf value every code point, block name ASCII); pairs of slots at len 1 each (names ASCII); other "
              "slots hold fixed awkward constants; options: indent and start_indent are symbolic strings of spaces/TABs of 1 character "
              "(thorough also 0 and 2), indent_braces symbolic; root and non-root trees; delivery as written pieces, pieces re-cut at "
              "concrete positions 1..5, one joined str, a line-iterating file object, and serialise()'s returned str",
    "outside": "strings longer than the bound; >= 3 simultaneously symbolic slots; indent strings containing anything but space/TAB "
               "(not parseable back by design); names containing CR/LF (excluded by the property: newline_keys=False rejects them); the "
               "deprecated Keyvalues.export(); the Cython tokenizer (not buildable here); parse() options other than the defaults",
    "stubs": ["srctools.keyvalues.sys.intern -> identity", "srctools.tokenizer.BARE_DISALLOWED frozenset -> tuple",
              "CrossHair str.casefold fast path (native for concrete, arithmetic for symbolic ASCII; CrossHair's Unicode tables otherwise)",
              "file delivery: io.StringIO replaced by a line-splitting iterable while symbolic (native replay uses the real io.StringIO)"],
    "trusted_base": ["crosshair-tool 0.0.110 (symbolic str, regex, Unicode category tables, StringIO model)", "z3", "vf/chx.py driver"],
    "assumptions": ["CrossHair's Unicode tables (casefold/islower/splitlines masks) agree with this CPython's unicodedata (every model is replayed natively)",
                    "space and TAB are the only characters the indentation options may contain",
                    "a text file object hands the tokenizer the text split after each LF (io.StringIO semantics)"],
}

# ---------------------------------------------------------------------------------------------------------------------
# Skeletons.  A node is (name_slot, child); child is a value slot (int) or a list of nodes.  The slot table gives the
# constant each slot holds when it is not the symbolic one.  Block-name constants avoid '"' and '\\' (see the report: the
# unchanged tree does not escape block names), everything else is deliberately awkward.
# ---------------------------------------------------------------------------------------------------------------------
SKEL = {
    "leaf": ([(0, 1)], ['a"b\\', 'v\\"\t{']),
    "empty": ([(0, [])], ['Blo ck']),
    "block": ([(0, [(1, 2)])], ['{', "k'[x]", '']),
    "nest": ([(0, [(1, [(2, 3)])])], ['Outer', '}', '', '\\']),
    "tworoots": ([(0, [(1, 2)]), (3, [(4, 5)])], ['A', 'k', 'v"', 'a', '//k', 'x\ny']),
    "dup": ([(0, [(1, 2), (1, 3), (1, 2)])], ['Dup', 'Key', 'v1', 'V1']),
    "leaf_after_block": ([(0, [(1, [(2, 3)]), (4, 5)])], ['[a]', 'Inner', 'k', 'v', 'Tail\\', '"']),
    "block_after_leaf": ([(0, [(1, 2), (3, [(4, 5)])])], ['#b', '', '', 'In ner', 'k"', 'v\r']),
    "wide3": ([(0, 1), (2, 3), (4, 5)], ['One', '1', 'two', '{', 'THREE', '}']),
    "empties": ([(0, []), (1, [(2, [])]), (0, [])], ['E', 'e', '']),
}


def slot_kinds(skel):
    """{slot: kind} with kind in bname (block name), lname (leaf name), value."""
    nodes, consts = SKEL[skel]
    kinds = {}

    def walk(ns):
        for name, child in ns:
            if isinstance(child, list):
                kinds.setdefault(name, set()).add("bname")
                walk(child)
            else:
                kinds.setdefault(name, set()).add("lname")
                kinds.setdefault(child, set()).add("value")
    walk(nodes)
    out = {}
    for k, v in kinds.items():
        assert len(v) == 1, (skel, k, v)
        out[k] = next(iter(v))
    assert sorted(out) == list(range(len(consts))), skel
    return out


def setup(engine):
    if engine == "chx":
        from vf.stubs.common import text_stubs
        text_stubs()


def _build(nodes, vals, use_init):
    """Build the Keyvalues nodes for a skeleton. use_init: through the public constructor (calls casefold); otherwise exactly
    the way Keyvalues.parse() builds nodes (__new__ + slots)."""
    from srctools.keyvalues import Keyvalues
    out = []
    for name, child in nodes:
        value = _build(child, vals, use_init) if isinstance(child, list) else vals[child]
        if use_init:
            kv = Keyvalues(vals[name], value)
        else:
            kv = Keyvalues.__new__(Keyvalues)
            kv._real_name = vals[name]
            kv._folded_name = None
            kv._value = value
            kv.line_num = None
        out.append(kv)
    return out


def _snap(kv):
    v = kv._value
    return (kv, kv._real_name, [_snap(c) for c in v] if isinstance(v, list) else v, v if isinstance(v, list) else None)


def _same_snap(a, b):
    """Identity of node objects and child lists, equality of names/values."""
    if a[0] is not b[0] or a[3] is not b[3]:
        return False
    if (a[1] is None) != (b[1] is None) or (a[1] is not None and not (a[1] == b[1])):
        return False
    if isinstance(a[2], list) != isinstance(b[2], list):
        return False
    if isinstance(a[2], list):
        if len(a[2]) != len(b[2]):
            return False
        for x, y in zip(a[2], b[2]):
            if not _same_snap(x, y):
                return False
        return True
    return bool(a[2] == b[2])


def _compare(got, nodes, vals, where):
    """got: list of parsed Keyvalues; nodes: skeleton nodes."""
    check(isinstance(got, list), where + ": block became a leaf", got)
    check(len(got) == len(nodes), where + ": child count", len(got), len(nodes))
    for i, (g, (name, child)) in enumerate(zip(got, nodes)):
        w = f"{where}[{i}]"
        check(g._real_name == vals[name], w + ": real_name changed", g._real_name, vals[name])
        if isinstance(child, list):
            _compare(g._value, child, vals, w)
        else:
            check(isinstance(g._value, str), w + ": leaf became a block")
            check(g._value == vals[child], w + ": value changed", g._value, vals[child])


def either(a, b):
    """a or b as ONE solver term (Python's `or` / `|` would fork the path on a; the tokenizer treats space and TAB alike, so a
    whitespace character constrained this way never splits a path)."""
    try:
        from crosshair.tracers import NoTracing, is_tracing
    except ImportError:
        return a or b
    if not is_tracing():
        return a or b
    import z3
    from crosshair.libimpl.builtinslib import SymbolicBool
    with NoTracing():
        if not (isinstance(a, SymbolicBool) or isinstance(b, SymbolicBool)):
            return bool(a) or bool(b)
        va = a.var if isinstance(a, SymbolicBool) else z3.BoolVal(bool(a))
        vb = b.var if isinstance(b, SymbolicBool) else z3.BoolVal(bool(b))
        return SymbolicBool(z3.Or(va, vb))


def _ws(x, n):
    """x is a string of exactly n characters, each a space or a TAB."""
    assume(len(x) == n)
    for c in x:
        o = ord(c)
        assume(either(o == 32, o == 9))


FIRST_CLASSES = ["quote", "backslash", "ctl", "ascii", "high"]   # + "low" = the first four together


def _first_class(s, cls):
    c = s[0]
    if cls == "quote":
        assume(c == '"' or c == "'")
    elif cls == "backslash":
        assume(c == '\\')
    elif cls == "ctl":
        assume(c < ' ')
    elif cls == "ascii":
        assume(' ' <= c < '\x7f' and c != '"' and c != "'" and c != '\\')
    elif cls == "low":
        assume(c < '\x7f')
    else:
        assume(c >= '\x7f')


class _Lines:
    """A text file object as the tokenizer sees it: an iterable of lines (split after each LF, as io.StringIO iterates)."""
    def __init__(self, pieces):
        self.pieces = pieces

    def __iter__(self):
        cur = []
        for p in self.pieces:
            start = 0
            for i, ch in enumerate(p):
                if ch == '\n':
                    cur.append(p[start:i + 1])
                    yield ''.join(cur) if len(cur) > 1 else cur[0]
                    cur = []
                    start = i + 1
            if start < len(p):
                cur.append(p[start:])
        if cur:
            yield ''.join(cur) if len(cur) > 1 else cur[0]


def _concrete(*xs):
    """True when every argument is a real (non-symbolic) value; `type()` is patched while tracing, so look untraced."""
    try:
        from crosshair.tracers import NoTracing, is_tracing
    except ImportError:
        return True
    if not is_tracing():
        return True
    with NoTracing():
        for x in xs:
            if type(x) not in (str, int, bool):
                return False
    return True


DEFAULT_OPTS = ('\t', True, '')


def _slot_pre(s, n, kind, cls, low):
    assume(len(s) == n)
    if cls:
        _first_class(s, cls)
    if low:
        for c in s:
            assume(c < '\x80')
    if kind != "value":
        # the format cannot carry line breaks in names (documented: newline_keys=False)
        for c in s:
            assume(c != '\n' and c != '\r')


def _prep(s, ind, sind, n, skel, slot, kind, ni, nsi, rooted, init, cls, low, second=None):
    from srctools.keyvalues import Keyvalues
    nodes, consts = SKEL[skel]
    assert slot_kinds(skel)[slot] == kind, "slice table inconsistent"
    _slot_pre(s, n, kind, cls, low)
    _ws(ind, ni)
    _ws(sind, nsi)
    vals = list(consts)
    vals[slot] = s
    if second is not None:
        s2, n2, slot2, low2 = second
        assert slot2 != slot
        _slot_pre(s2, n2, slot_kinds(skel)[slot2], "", low2)
        vals[slot2] = s2
    top = _build(nodes, vals, init)
    if rooted:
        tree = Keyvalues.root(*top)
    else:
        assert len(top) == 1
        tree = top[0]
    return tree, nodes, vals


def _serialise(tree, ind, braces, sind, ret):
    before = _snap(tree)
    if ret:
        text = tree.serialise(indent=ind, indent_braces=braces, start_indent=sind)
        check(isinstance(text, str), "serialise() did not return text")
        pieces = [text]
    else:
        sink = ChunkSink()
        r = tree.serialise(sink, indent=ind, indent_braces=braces, start_indent=sind)
        check(r is None, "serialise(file) returned something")
        pieces = sink.parts
    check(_same_snap(before, _snap(tree)), "serialise() modified the tree")
    return pieces


def h_rt(s: str, ind: str, sind: str, braces: bool, n: int, skel: str, slot: int, kind: str, ni: int = 1, nsi: int = 0,
         deliv: str = "pieces", cut: int = 0, rooted: int = 1, init: int = 0, cls: str = "", low: int = 0) -> None:
    """parse(serialise(tree, options)) == tree; serialise leaves the tree untouched."""
    import io
    from srctools.keyvalues import Keyvalues
    tree, nodes, vals = _prep(s, ind, sind, n, skel, slot, kind, ni, nsi, rooted, init, cls, low)
    pieces = _serialise(tree, ind, braces, sind, deliv in ("ret", "ret_file"))

    if deliv == "pieces":
        src = pieces
    elif deliv == "recut":
        # every written piece longer than `cut` is cut in two at that (concrete) position
        src = []
        for p in pieces:
            if cut < len(p):
                src.append(p[:cut])
                src.append(p[cut:])
            else:
                src.append(p)
    elif deliv in ("str", "ret"):
        src = ''.join(pieces)
    elif deliv in ("file", "ret_file"):
        if _concrete(s, ind, sind):
            src = io.StringIO(''.join(pieces))
        else:
            src = _Lines(pieces)
    else:
        raise AssertionError(deliv)

    try:
        got = Keyvalues.parse(src)
    except Exception as e:
        raise Fail(f"parse of the serialised text failed: {type(e).__name__}: {e}")
    check(got._real_name is None and isinstance(got._value, list), "parse() result is not a root")
    _compare(got._value, nodes, vals, "root")


def h_rt_w(s: str, ind: str, sind: str, braces: bool, n: int, skel: str, slot: int, kind: str, ni: int = 1, nsi: int = 0,
           deliv: str = "pieces", cut: int = 0, rooted: int = 1, init: int = 0, cls: str = "", low: int = 0) -> None:
    h_rt(s, ind, sind, braces, n, skel, slot, kind, ni, nsi, deliv, cut, rooted, init, cls, low)
    raise Fail("reached")


def h_pair(s: str, s2: str, ind: str, sind: str, braces: bool, skel: str, slot: int, kind: str, slot2: int, n: int = 1, n2: int = 1,
           ni: int = 1, nsi: int = 1, rooted: int = 1, low: int = 0, low2: int = 0) -> None:
    """Two slots symbolic at once (interaction between neighbouring strings)."""
    from srctools.keyvalues import Keyvalues
    tree, nodes, vals = _prep(s, ind, sind, n, skel, slot, kind, ni, nsi, rooted, 0, "", low, (s2, n2, slot2, low2))
    pieces = _serialise(tree, ind, braces, sind, False)
    try:
        got = Keyvalues.parse(pieces)
    except Exception as e:
        raise Fail(f"parse of the serialised text failed: {type(e).__name__}: {e}")
    check(got._real_name is None and isinstance(got._value, list), "parse() result is not a root")
    _compare(got._value, nodes, vals, "root")


def _canon(pieces):
    """The characters of the text with spaces and TABs outside quoted strings removed."""
    out = []
    inq = False
    esc = False
    for p in pieces:
        for ch in p:
            if inq:
                out.append(ch)
                if esc:
                    esc = False
                elif ch == '\\':
                    esc = True
                elif ch == '"':
                    inq = False
            elif ch == '"':
                inq = True
                out.append(ch)
            else:
                o = ord(ch)
                if either(o == 32, o == 9):
                    continue
                out.append(ch)
    return out


def h_optind(s: str, ind: str, sind: str, braces: bool, n: int, skel: str, slot: int, kind: str, ni: int = 1, nsi: int = 0,
             rooted: int = 1, init: int = 0, cls: str = "", low: int = 0) -> None:
    """The text is independent of the indentation options apart from whitespace outside quoted strings."""
    tree, nodes, vals = _prep(s, ind, sind, n, skel, slot, kind, ni, nsi, rooted, init, cls, low)
    a = _canon(_serialise(tree, ind, braces, sind, False))
    b = _canon(_serialise(tree, *DEFAULT_OPTS, False))
    check(len(a) == len(b), "texts differ in more than whitespace (length)", len(a), len(b))
    for i in range(len(a)):
        check(a[i] == b[i], "texts differ in more than whitespace", i, a[i], b[i])


def h_optind_w(s: str, ind: str, sind: str, braces: bool, n: int, skel: str, slot: int, kind: str, ni: int = 1, nsi: int = 0,
               rooted: int = 1, init: int = 0, cls: str = "", low: int = 0) -> None:
    h_optind(s, ind, sind, braces, n, skel, slot, kind, ni, nsi, rooted, init, cls, low)
    raise Fail("reached")


SMALL = ["leaf", "empty", "block"]


def _slots(skel):
    return sorted(slot_kinds(skel).items())


def _single_top(skel):
    return len(SKEL[skel][0]) == 1


def _rt1_slices(tier):
    """One slot, length 0 and 1, every code point; options symbolic."""
    sl = []
    optsets = [(1, 1)]
    for skel in SKEL:
        high_ok = skel in SMALL or (tier == "thorough" and skel == "nest")
        roots = [1, 0] if (_single_top(skel) and (skel in SMALL or tier == "thorough")) else [1]
        for slot, kind in _slots(skel):
            for rooted in roots:
                for ni, nsi in optsets:
                    base = {"skel": skel, "slot": slot, "kind": kind, "ni": ni, "nsi": nsi, "rooted": rooted}
                    if rooted:
                        sl.append(dict(base, n=0, init=1))
                    if kind == "value":
                        sl.append(dict(base, n=1, init=1))
                    else:
                        sl.append(dict(base, n=1, init=1, cls="low"))
                        if high_ok:
                            sl.append(dict(base, n=1, init=0, cls="high"))
    if tier == "thorough":
        # other indentation lengths (0 and 2 characters of each) on the small skeletons
        for skel in SMALL:
            for slot, kind in _slots(skel):
                for rooted in [1, 0]:
                    for ni, nsi in [(0, 0), (2, 2)]:
                        base = {"skel": skel, "slot": slot, "kind": kind, "ni": ni, "nsi": nsi, "rooted": rooted}
                        if kind == "value":
                            sl.append(dict(base, n=1, init=1))
                        else:
                            sl.append(dict(base, n=1, init=1, cls="low"))
                            if (ni, nsi) == (2, 2) and skel == "block":
                                sl.append(dict(base, n=1, init=0, cls="high"))
    return sl


def _rt2_slices(tier):
    """One slot, length 2 (values: every code point; names: ASCII, and in the thorough tier every code point on two skeletons)."""
    sl = []
    skels = ["leaf", "block", "nest"] if tier == "quick" else ["leaf", "empty", "block", "nest", "tworoots"]
    for skel in skels:
        for slot, kind in _slots(skel):
            base = {"skel": skel, "slot": slot, "kind": kind, "ni": 1, "nsi": 1, "n": 2}
            if kind == "value":
                sl.append(dict(base))
            elif tier == "thorough" or skel in ("leaf", "block"):
                sl.append(dict(base, low=1, init=1))
    if tier == "thorough":
        for skel, slot, kind in (("leaf", 0, "lname"),):
            for cls in FIRST_CLASSES:
                sl.append({"skel": skel, "slot": slot, "kind": kind, "ni": 1, "nsi": 1, "n": 2, "cls": cls})
        for skel, slot, kind in (("leaf", 1, "value"), ("block", 2, "value")):
            sl.append({"skel": skel, "slot": slot, "kind": kind, "ni": 1, "nsi": 1, "n": 2, "rooted": 0})
    return sl


def _hi2(x):
    return x["n"] == 2 and x["kind"] != "value" and not x.get("low")


def _rt3_slices():
    sl = []
    for skel, slot, kind in (("leaf", 1, "value"),):
        for cls in FIRST_CLASSES:
            sl.append({"skel": skel, "slot": slot, "kind": kind, "ni": 1, "nsi": 1, "n": 3, "cls": cls})
    for cls in FIRST_CLASSES[:4]:
        sl.append({"skel": "empty", "slot": 0, "kind": "bname", "ni": 1, "nsi": 1, "n": 3, "cls": cls, "low": 1})
    return sl


def _deliv_slices(tier):
    sl = []
    targets = [("block", 2, "value", {}), ("leaf", 0, "lname", {"cls": "low"}), ("leaf", 0, "lname", {"cls": "high"})]
    if tier == "thorough":
        targets += [("block", 0, "bname", {"cls": "low"})]
    for skel, slot, kind, extra in targets:
        base = dict({"skel": skel, "slot": slot, "kind": kind, "ni": 1, "nsi": 1, "n": 1}, **extra)
        for d in ("str", "file", "ret", "ret_file"):
            sl.append(dict(base, deliv=d))
        for cut in ((1, 2, 3) if tier == "quick" else (1, 2, 3, 4, 5)):
            sl.append(dict(base, deliv="recut", cut=cut))
        if tier == "thorough" and not extra.get("cls") == "high":
            sl.append(dict(base, deliv="recut", cut=2, n=2, **({"low": 1} if kind != "value" else {})))
            sl.append(dict(base, deliv="ret", rooted=0))
    return sl


def _optind_slices(tier):
    sl = []
    skels = SMALL if tier == "quick" else SMALL + ["nest", "tworoots", "empties"]
    for skel in skels:
        for slot, kind in _slots(skel):
            for rooted in ([1, 0] if _single_top(skel) else [1]):
                base = {"skel": skel, "slot": slot, "kind": kind, "ni": 1, "nsi": 1, "n": 1, "rooted": rooted}
                if kind == "value":
                    sl.append(base)
                else:
                    sl.append(dict(base, cls="low"))
                    if tier == "thorough" and skel == "block" and rooted == 0:
                        sl.append(dict(base, cls="high"))
    if tier == "thorough":
        for skel, slot, kind in (("leaf", 1, "value"), ("block", 2, "value"), ("block", 1, "lname")):
            for ni, nsi in [(2, 2), (0, 0)]:
                sl.append(dict({"skel": skel, "slot": slot, "kind": kind, "ni": ni, "nsi": nsi, "n": 2, "rooted": 0},
                               **({"low": 1} if kind != "value" else {})))
    return sl


def _pair_slices(tier):
    """Two slots at once, one character each: values over every code point, names over ASCII."""
    sl = []
    pairs = [("leaf", 0, 1), ("block", 1, 2), ("block", 0, 1)]
    if tier == "thorough":
        pairs += [("nest", 0, 1), ("tworoots", 2, 3), ("tworoots", 2, 5), ("wide3", 1, 2), ("dup", 1, 2), ("leaf_after_block", 3, 4),
                  ("empties", 0, 1)]
    for skel, a, b in pairs:
        kinds = slot_kinds(skel)
        sl.append({"skel": skel, "slot": a, "kind": kinds[a], "slot2": b, "low": int(kinds[a] != "value"), "low2": int(kinds[b] != "value")})
    return sl


def obligations(tier):
    q = tier == "quick"
    big = 900 if q else 3000
    obls = [
        Obl("rt1", MOD, "h_rt", slices=[x for x in _rt1_slices(tier) if x.get("cls") != "high"], budget_s=big, per_path_s=90,
            desc="parse(serialise(t, opts)) == t (shape, order, real names, values) and t untouched; one slot symbolic, len 0/1, every "
                 "code point for values, code points < U+007F for names; indent / start_indent characters and indent_braces symbolic; "
                 "root and non-root trees",
            bound="len(s) in {0,1}; indent, start_indent of 1 character each (thorough: 0..2)"),
        Obl("rt1.hi", MOD, "h_rt", slices=[x for x in _rt1_slices(tier) if x.get("cls") == "high"], budget_s=big, per_path_s=90,
            desc="same for names of one code point >= U+007F (exact Unicode case folding through CrossHair's tables)",
            bound="len(s) == 1, small skeletons"),
        Obl("rt1.witness", MOD, "h_rt_w", budget_s=300, per_path_s=90, witness=True,
            slices=[{"skel": "leaf", "slot": 1, "kind": "value", "n": 1, "ni": 1, "nsi": 1},
                    {"skel": "block", "slot": 0, "kind": "bname", "n": 1, "ni": 1, "nsi": 1, "rooted": 0, "cls": "high"},
                    {"skel": "empties", "slot": 2, "kind": "bname", "n": 0, "ni": 1, "nsi": 1}],
            desc="reachability twin of rt1"),
        Obl("rt2", MOD, "h_rt", slices=[x for x in _rt2_slices(tier) if not _hi2(x)], budget_s=big, per_path_s=90,
            desc="same, len 2 (values: every code point; names: ASCII in quick, every code point on leaf/empty in thorough)",
            bound="len(s) == 2"),
        Obl("deliv", MOD, "h_rt", slices=_deliv_slices(tier), budget_s=big, per_path_s=90,
            desc="other ways of handing the text over: one joined str, a file object (lines), serialise() return value, and the "
                 "written pieces re-cut at concrete positions",
            bound="len(s) == 1 (thorough: also 2), smallest skeletons"),
        Obl("deliv.witness", MOD, "h_rt_w", budget_s=300, per_path_s=90, witness=True,
            slices=[{"skel": "block", "slot": 2, "kind": "value", "n": 1, "ni": 1, "nsi": 1, "deliv": d, "cut": 2} for d in ("file", "ret", "recut")],
            desc="reachability twin of deliv"),
        Obl("optind", MOD, "h_optind", slices=_optind_slices(tier), budget_s=big, per_path_s=90,
            desc="serialise(t, opts) and serialise(t, defaults) are the same character sequence once spaces/TABs outside quoted "
                 "strings are dropped",
            bound="len(s) == 1 (thorough: also 2)"),
        Obl("optind.witness", MOD, "h_optind_w", budget_s=300, per_path_s=90, witness=True,
            slices=[{"skel": "block", "slot": 2, "kind": "value", "n": 1, "ni": 1, "nsi": 1, "rooted": 0}], desc="reachability twin of optind"),
        Obl("pair", MOD, "h_pair", slices=_pair_slices(tier), budget_s=big, per_path_s=90,
            desc="two slots symbolic at once (1 character each; names ASCII, values every code point)", bound="len == 1 each"),
    ]
    if not q:
        # measured: the first-character class "high" slice needs ~2100 s on a loaded machine (two table-driven casefolds per path)
        obls.append(Obl("rt2.hi", MOD, "h_rt", slices=[x for x in _rt2_slices(tier) if _hi2(x)], budget_s=6400, per_path_s=120,
                        desc="leaf name of length 2 over every code point, sliced by first-character class", bound="len(s) == 2"))
        obls.append(Obl("rt3", MOD, "h_rt", slices=_rt3_slices(), budget_s=3000, per_path_s=90,
                        desc="len 3: values over every code point (leaf, block), names over ASCII (leaf, empty)", bound="len(s) == 3"))
    return obls
