"""C17 — instance collapse transforms contents exactly and leaves the template intact.

(1) Geometry over the REALS (E2): the real Vec/UVAxis/Side/Solid.localise and the real collapse_one run on symbolic reals
    (rotation = SDK AngleMatrix of trig symbols, s^2+c^2=1): p' = p.M + o, texture lock, displacement data, template
    unchanged after every collapse, repeated collapses differ only by placement.
(2) Names / $variables / outputs / nested fixups / template immutability under collapse histories (E1, CrossHair).
(3) Entity keyvalue geometry and brush entities with concrete floats x finite placement lists (E1, enumeration in solver clothing).
(4) collapse_all terminates on every inclusion graph over two files (E1, symbolic adjacency bits).
"""
from __future__ import annotations

import json
import math as _pm
import re as _re

from vf.core import Obl
from vf.h import ChunkSink, Fail, assume, check

MOD = "vf.props.c17"

META = {
    "level": "other",
    "functions": ["srctools.instancing:collapse_one", "srctools.instancing:collapse_all", "srctools.instancing:Instance.fixup_name",
                  "srctools.instancing:Instance.fixup_key", "srctools.instancing:Instance.from_entity", "srctools.instancing:InstanceFile.parse",
                  "srctools.vmf:Side.localise", "srctools.vmf:Side.translate", "srctools.vmf:Solid.localise", "srctools.vmf:UVAxis.localise",
                  "srctools.vmf:UVAxis.rotate", "srctools.math:Vec.localise", "srctools.vmf:Side.copy", "srctools.vmf:Solid.copy",
                  "srctools.vmf:Entity.copy", "srctools.vmf:EntityFixup.substitute", "srctools.vmf:EntityFixup.copy_values",
                  "srctools.vmf:EntityFixup.__setitem__", "srctools.vmf:Output.combine", "srctools.vmf:Output.copy"],
    "bounds": "geometry (E2): no value bound - plane points, u/v axes, offsets, scales (!= 0), displacement vectors, origin are arbitrary "
              "reals, the orientation is the SDK Euler matrix of three arbitrary (sin, cos) pairs; one brush of two faces (one power-1 "
              "displacement, 9 vertices), three collapses of one template at two placements. Names (E1): instance name, entity name, "
              "fixup value as symbolic str of exact length <= 2 (quick) / 3 (thorough) over all code points where the value is never "
              "hashed, and by symbolic index from finite lists where it is (targetnames); 3 fixup styles; a 6-entity template with io "
              "proxy, nested func_instance, hidden entity, plus a second template, collapsed in solver-chosen order. Entity keyvalue "
              "geometry: 7 rotations x 3 origins (enumeration by symbolic index, float arithmetic compared with tolerance 1e-3). "
              "Termination: all 16 inclusion graphs over 2 files x recur_limit 1..3 (4 in thorough).",
    "outside": "IEEE rounding in the E2 part (identities over the reals); that every rotation is an Euler rotation (standard fact, assumed); "
               "float<->text conversion; visgroup=True/VisGroup modes; instance INPUTS (outputs of the outer map aimed at instance:name;Input), "
               "$variables inside nested func_instance fixup values, the pitch/yaw special keyvalues beyond consistency with angles; "
               "Manifest; get_inst_locs; FGD database contents (trusted as data)",
    "stubs": ["srctools.math.math/float -> symx MathProxy/FloatShim (E2 only)",
              "srctools.instancing.EntityDef -> vf.stubs.inststubs.EntityDefProxy (native, memoised, self-tested) (E1 only)",
              "srctools.vmf.intern / keyvalues.sys.intern -> identity, BARE_DISALLOWED -> tuple, casefold fast path, "
              "srctools.vmf.frozenset -> real frozenset untraced (E1 only)",
              "collapse_all's FileSystem argument: an object whose read_kv1 returns an in-memory Keyvalues tree"],
    "trusted_base": ["z3 nlsat (QF_NRA)", "vf/symx.py", "crosshair-tool 0.0.110 (incl. its symbolic regex/str models)", "vf/chx.py",
                     "SDK AngleMatrix formula transcribed in c04._sdk_matrix as the reference rotation",
                     "the oracles _fn (naming rule) and _subst (documented $variable scanner) written in this module"],
    "assumptions": ["sin^2+cos^2=1 is the only fact about sin/cos used", "texture coordinate of a point x on a face is x.u/scale + offset (Source convention)",
                    "every proper rotation is from_angle of some Euler angles"],
    "explanation": "The geometry obligations run the real localise/collapse code on symbolic reals and ask z3 whether the negation of each "
                   "stated identity is satisfiable under the trigonometric side constraints (unsat = holds for all reals); a model is replayed "
                   "natively with floats. The naming/history/termination obligations are CrossHair path explorations of the real collapse_one / "
                   "collapse_all with symbolic strings, indices and order bits; every path's result is compared with independent oracles.",
}

_ENGINE = [""]
CLASSNAMES = ["logic_relay", "info_target", "func_instance", "func_instance_io_proxy", "info_null", "ambient_generic", "func_brush",
              "env_beam", "info_overlay", "light_spot", "_CBaseEntity_"]


def setup(engine):
    _ENGINE[0] = engine or ""
    if engine == "chx":
        from vf.stubs.common import text_stubs
        from vf.stubs.vmfstubs import stub_copyset
        from vf.stubs.inststubs import stub_engine_defs
        text_stubs()
        stub_copyset()
        stub_engine_defs(CLASSNAMES)
        import logging
        logging.getLogger("srctools").setLevel(logging.CRITICAL)   # log formatting of symbolic values is not the subject


def _untraced(fn, *a):
    if _ENGINE[0] == "chx":
        from crosshair.tracers import NoTracing
        with NoTracing():
            return fn(*a)
    return fn(*a)


def pick(lst, idx):
    """Concrete element chosen by a symbolic index; out-of-range indices are dropped by the caller's assume."""
    for k in range(len(lst) - 1):
        if idx == k:
            return lst[k]
    return lst[-1]


# =========================================================================================== (1) geometry over the reals, E2

def _c04():
    from vf.props import c04
    return c04


def _dflt(prefix, i):
    return float(((sum(map(ord, prefix)) * 7 + i * 13) % 64) - 32) + 0.5


def _real(fx, name, default):
    if fx.concrete is None:
        return fx.symx.SymReal(fx.z3.Real(name))
    return fx.val(name, default)


def _vec3(fx, prefix):
    return [_real(fx, f"{prefix}_{a}", _dflt(prefix, i)) for i, a in enumerate("xyz")]


def _dot(a, b):
    return a[0] * b[0] + a[1] * b[1] + a[2] * b[2]


class _P:
    """prove() with known-finding exclusion by label regex."""

    def __init__(self, rec, exclude):
        self.rec = rec
        self.ex = [_re.compile(r) for r in (exclude or [])]

    def __call__(self, label, cons, goals, conj=True, timeout_ms=120000):
        if any(r.search(label) for r in self.ex):
            self.rec.items.append({"q": label, "r": "excluded (open known finding)"})
            return
        self.rec.prove(label, cons, goals, timeout_ms=timeout_ms, conj=conj)


def _snap_side(s):
    d = {"planes": [[p.x, p.y, p.z] for p in s.planes],
         "u": [s.uaxis.x, s.uaxis.y, s.uaxis.z, s.uaxis.offset, s.uaxis.scale],
         "v": [s.vaxis.x, s.vaxis.y, s.vaxis.z, s.vaxis.offset, s.vaxis.scale],
         "disp_pos": None, "verts": []}
    if s.is_disp:
        d["disp_pos"] = [s.disp_pos.x, s.disp_pos.y, s.disp_pos.z]
        for v in s._disp_verts:
            d["verts"].append({"normal": [v.normal.x, v.normal.y, v.normal.z], "offset": [v.offset.x, v.offset.y, v.offset.z],
                               "offset_norm": [v.offset_norm.x, v.offset_norm.y, v.offset_norm.z], "distance": v.distance, "alpha": v.alpha})
    return d


def _flat(sn):
    out = [x for p in sn["planes"] for x in p] + list(sn["u"]) + list(sn["v"])
    if sn["disp_pos"] is not None:
        out += sn["disp_pos"]
        for v in sn["verts"]:
            out += v["normal"] + v["offset"] + v["offset_norm"] + [v["distance"], v["alpha"]]
    return out


def _same(P, c04, label, a, b, cons=()):
    fa, fb = _flat(a), _flat(b)
    P.rec.native(label + " (shape)", len(fa) == len(fb), f"{len(fa)} vs {len(fb)}")
    if len(fa) == len(fb):
        P(label, list(cons), [c04.Eq(x, y) for x, y in zip(fa, fb)])


def _nz(fx, v):
    return [] if fx.concrete is not None else [_c04()._e(v) != 0]


def _check_xf(P, fx, label, cons, orig, new, ref, o, x):
    """`new` is `orig` moved by v -> v.ref + o: plane points, axes, texture lock, displacement data."""
    c04 = _c04()
    Eq, vm = c04.Eq, c04._vm
    goals = []
    for p0, p1 in zip(orig["planes"], new["planes"]):
        want = [w + oo for w, oo in zip(vm(p0, ref), o)]
        goals += [Eq(g, w) for g, w in zip(p1, want)]
    P(f"{label}: plane points == p.M + o", cons, goals)
    xp = [w + oo for w, oo in zip(vm(x, ref), o)]
    for ax in "uv":
        a0, a1 = orig[ax], new[ax]
        want = vm(a0[:3], ref)
        P(f"{label}: {ax}axis direction == axis.M, scale kept", cons, [Eq(g, w) for g, w in zip(a1[:3], want)] + [Eq(a1[4], a0[4])])
        lhs = _dot(xp, a1[:3]) + a1[3] * a1[4]
        rhs = _dot(x, a0[:3]) + a0[3] * a0[4]
        P(f"{label}: {ax} texture lock (x'.u' + off'.s' == x.u + off.s for every point x)", cons + _nz(fx, a0[4]), [Eq(lhs, rhs)])
    P.rec.native(f"{label}: displacement kept", (orig["disp_pos"] is None) == (new["disp_pos"] is None) and len(orig["verts"]) == len(new["verts"]))
    if orig["disp_pos"] is not None and new["disp_pos"] is not None:
        want = [w + oo for w, oo in zip(vm(orig["disp_pos"], ref), o)]
        P(f"{label}: disp start position == p.M + o", cons, [Eq(g, w) for g, w in zip(new["disp_pos"], want)])
        goals = []
        for v0, v1 in zip(orig["verts"], new["verts"]):
            for k in ("normal", "offset", "offset_norm"):
                goals += [Eq(g, w) for g, w in zip(v1[k], vm(v0[k], ref))]
            goals += [Eq(v1["distance"], v0["distance"]), Eq(v1["alpha"], v0["alpha"])]
        P(f"{label}: disp normals/offsets rotated, distances/alphas kept", cons, goals)


def _mk_side(fx, vmf, pre, disp):
    import srctools.vmf as V
    sm = fx.sm
    s = V.Side(vmf, [sm.Py_Vec(*_vec3(fx, f"{pre}p{i}")) for i in range(3)],
               uaxis=V.UVAxis(*_vec3(fx, pre + "u"), _real(fx, pre + "uo", 3.0), _real(fx, pre + "us", 0.25)),
               vaxis=V.UVAxis(*_vec3(fx, pre + "v"), _real(fx, pre + "vo", -7.0), _real(fx, pre + "vs", 0.5)),
               disp_power=1 if disp else 0)
    if disp:
        s.disp_pos = sm.Py_Vec(*_vec3(fx, pre + "d"))
        for k, v in enumerate(s._disp_verts):
            v.normal = sm.Py_Vec(*_vec3(fx, f"{pre}n{k}"))
            v.offset = sm.Py_Vec(*_vec3(fx, f"{pre}f{k}"))
            v.offset_norm = sm.Py_Vec(*_vec3(fx, f"{pre}g{k}"))
            v.distance = _real(fx, f"{pre}dist{k}", 4.0 + k)
            v.alpha = _real(fx, f"{pre}al{k}", 10.0 * k)
    return s


def _placement(fx, rec, prefix):
    c04 = _c04()
    M, ref, rcons, lemmas = c04._rotation(fx, fx.sm.Py_Matrix, prefix)
    if fx.concrete is None:
        n0 = len(rec.items)
        rec.prove(f"lemma: {prefix} rows and columns orthonormal", fx.cons, lemmas, timeout_ms=120000)
        if all(it["r"] == "unsat" for it in rec.items[n0:]):
            fx.cons += lemmas
    o = _vec3(fx, prefix + "o")
    return M, ref, o


def o_localise(_concrete=None, _exclude=None):
    """Vec.localise, UVAxis.rotate/localise, Side.localise/translate, Solid.localise in every argument form (Matrix, Angle, None)."""
    import srctools.vmf as V
    c04 = _c04()
    fx = c04._fx(_concrete)
    sm = fx.sm
    rec = c04.Rec(fx)
    P = _P(rec, _exclude)
    M, ref, o = _placement(fx, rec, "M")
    tags = fx.angle("A")
    aref = c04._sdk_matrix(tags)
    ident = [[1.0, 0.0, 0.0], [0.0, 1.0, 0.0], [0.0, 0.0, 1.0]]
    x = _vec3(fx, "x")
    rec.satisfiable(fx.cons, "localise")
    forms = [("Matrix", lambda: M.copy(), ref, list(fx.cons)),
             ("Angle", lambda: fx.mk_angle(sm.Py_Angle, tags), aref, None),
             ("None", lambda: None, ident, list(fx.cons))]
    if fx.concrete is None:
        # orthonormality of the Angle form's matrix: proved once, then used
        rows = [[c04._e(v) for v in r] for r in aref]
        lem = [sum(rows[k][i] * rows[k][j] for k in range(3)) == (1 if i == j else 0) for i in range(3) for j in range(i, 3)]
        lem += [sum(rows[i][k] * rows[j][k] for k in range(3)) == (1 if i == j else 0) for i in range(3) for j in range(i, 3)]
        n0 = len(rec.items)
        rec.prove("lemma: A rows and columns orthonormal", fx.cons, lem)
        acons = fx.cons + (lem if all(it["r"] == "unsat" for it in rec.items[n0:]) else [])
    else:
        acons = []
    forms[1] = (forms[1][0], forms[1][1], forms[1][2], acons)
    vmf = V.VMF()
    for fname, mk, R, cons in forms:
        # Vec.localise
        p = _vec3(fx, "p")
        v = sm.Py_Vec(*p)
        keep = v
        v.localise(sm.Py_Vec(*o), mk()) if fname != "None" else v.localise(sm.Py_Vec(*o))
        want = [w + oo for w, oo in zip(c04._vm(p, R), o)]
        rec.native(f"Vec.localise({fname}) is in place", v is keep)
        P(f"Vec.localise({fname}) == p.M + o", cons, [c04.Eq(g, w) for g, w in zip([v.x, v.y, v.z], want)])
        # UVAxis
        if fname != "None":
            ax = V.UVAxis(*_vec3(fx, "q"), _real(fx, "qo", 5.0), _real(fx, "qs", 0.25))
            r = ax.rotate(mk())
            P(f"UVAxis.rotate({fname})", cons, [c04.Eq(g, w) for g, w in zip([r.x, r.y, r.z], c04._vm([ax.x, ax.y, ax.z], R))]
              + [c04.Eq(r.offset, ax.offset), c04.Eq(r.scale, ax.scale)])
            l = ax.localise(sm.Py_Vec(*o), mk())
            xp = [w + oo for w, oo in zip(c04._vm(x, R), o)]
            P(f"UVAxis.localise({fname}): direction, scale", cons, [c04.Eq(g, w) for g, w in zip([l.x, l.y, l.z], c04._vm([ax.x, ax.y, ax.z], R))]
              + [c04.Eq(l.scale, ax.scale)])
            P(f"UVAxis.localise({fname}): texture lock", cons + _nz(fx, ax.scale),
              [c04.Eq(_dot(xp, [l.x, l.y, l.z]) + l.offset * l.scale, _dot(x, [ax.x, ax.y, ax.z]) + ax.offset * ax.scale)])
            rec.native(f"UVAxis.localise({fname}) returns a new object", l is not ax and r is not ax)
        # Side.localise, Solid.localise
        for disp in (False, True):
            s = _mk_side(fx, vmf, "s", disp)
            before = _snap_side(s)
            s.localise(sm.Py_Vec(*o), mk()) if fname != "None" else s.localise(sm.Py_Vec(*o))
            _check_xf(P, fx, f"Side.localise({fname}, disp={disp})", cons, before, _snap_side(s), R, o, x)
        sol = V.Solid(vmf, -1, [_mk_side(fx, vmf, "a", False), _mk_side(fx, vmf, "b", True)])
        before = [_snap_side(s) for s in sol.sides]
        sol.localise(sm.Py_Vec(*o), mk()) if fname != "None" else sol.localise(sm.Py_Vec(*o))
        for k, s in enumerate(sol.sides):
            _check_xf(P, fx, f"Solid.localise({fname}) side {k}", cons, before[k], _snap_side(s), R, o, x)
    # translate == localise without rotation
    s = _mk_side(fx, vmf, "t", False)
    before = _snap_side(s)
    s.translate(sm.Py_Vec(*o))
    _check_xf(P, fx, "Side.translate", list(fx.cons), before, _snap_side(s), ident, o, x)
    return rec.result()


def o_collapse_geom(_concrete=None, _exclude=None):
    """The real collapse_one on a template brush of symbolic reals: three collapses (placements 1, 2, 1) into one map.
    Each copy == original moved by its placement; template identical to its original after every collapse; first and third copy equal;
    hidden brushes not copied; id maps recorded."""
    import srctools.vmf as V
    import srctools.instancing as I
    c04 = _c04()
    fx = c04._fx(_concrete)
    sm = fx.sm
    rec = c04.Rec(fx)
    P = _P(rec, _exclude)
    M1, ref1, o1 = _placement(fx, rec, "M")
    M2, ref2, o2 = _placement(fx, rec, "N")
    x = _vec3(fx, "x")
    rec.satisfiable(fx.cons, "collapse_geom")
    tmpl = V.VMF()
    sol = V.Solid(tmpl, -1, [_mk_side(fx, tmpl, "a", False), _mk_side(fx, tmpl, "b", True)])
    tmpl.add_brush(sol)
    hid = V.Solid(tmpl, -1, [_mk_side(fx, tmpl, "h", False)], hidden=True)
    tmpl.add_brush(hid)
    unshown = V.Solid(tmpl, -1, [_mk_side(fx, tmpl, "w", False)], vis_shown=False)
    tmpl.add_brush(unshown)
    file = I.InstanceFile(tmpl)
    orig = [_snap_side(s) for s in sol.sides]
    orig_ids = (sol.id, [s.id for s in sol.sides])
    dest = V.VMF()
    copies = []
    for n, (M, ref, o) in enumerate([(M1, ref1, o1), (M2, ref2, o2), (M1, ref1, o1)]):
        inst = I.Instance(f"i{n}", "t.vmf", sm.Py_Vec(*o), M.copy())
        nb = len(dest.brushes)
        I.collapse_one(dest, inst, file)
        rec.native(f"collapse {n}: exactly the visible brush copied", len(dest.brushes) == nb + 1, f"{len(dest.brushes) - nb}")
        if len(dest.brushes) <= nb:
            continue
        new = dest.brushes[nb]
        rec.native(f"collapse {n}: copy is a new object with its own sides", new is not sol and all(a is not b for a, b in zip(new.sides, sol.sides)))
        rec.native(f"collapse {n}: brush/face id maps", inst.brush_ids.get(sol.id) == new.id
                   and [inst.face_ids.get(s.id) for s in sol.sides] == [s.id for s in new.sides], f"{inst.brush_ids} {inst.face_ids}")
        snaps = [_snap_side(s) for s in new.sides]
        copies.append(snaps)
        for k in range(len(sol.sides)):
            _check_xf(P, fx, f"collapse {n} side {k}", list(fx.cons), orig[k], snaps[k], ref, o, x)
        # template untouched
        rec.native(f"after collapse {n}: template ids/brush list unchanged",
                   (sol.id, [s.id for s in sol.sides]) == orig_ids and list(tmpl.brushes) == [sol, hid, unshown])
        for k, s in enumerate(sol.sides):
            _same(P, c04, f"after collapse {n}: template side {k} unchanged", _snap_side(s), orig[k], fx.cons)
    if len(copies) == 3:
        for k in range(len(sol.sides)):
            _same(P, c04, f"collapse 0 and 2 (same placement) give equal side {k}", copies[2][k], copies[0][k], fx.cons)
    return rec.result()


def _mk_replay(name):
    def rp(**cex):
        r = globals()[name](_concrete={k: v for k, v in cex.items() if not k.startswith("_")})
        if r["verdict"] == "reproduced":
            raise Fail(r["detail"])
    rp.__name__ = "replay_" + name
    return rp


for _n in ("o_localise", "o_collapse_geom"):
    globals()["replay_" + _n] = _mk_replay(_n)


def o_validate_encoding():
    """Translator validation: both E2 obligations in concrete mode (floats through the real code, numeric comparison with the
    oracle) on a grid of rotations, incl. identity and axis-aligned ones."""
    n = 0
    bad = None
    grid = [(0.0, 0.0, 0.0), (0.0, 90.0, 0.0), (90.0, 0.0, 0.0), (0.0, 0.0, 90.0), (0.0, 180.0, 0.0), (30.0, 45.0, 60.0), (-12.5, 333.0, 200.5)]
    for i, (p_, y_, r_) in enumerate(grid):
        model = {}
        for pre, (a, b, c) in (("M", (p_, y_, r_)), ("N", grid[(i + 3) % len(grid)]), ("A", (y_, r_, p_))):
            for ax, v in zip("pyr", (a, b, c)):
                model[f"{pre}_s{ax}"] = _pm.sin(_pm.radians(v))
                model[f"{pre}_c{ax}"] = _pm.cos(_pm.radians(v))
        for f in (o_localise, o_collapse_geom):
            r = f(_concrete=model)
            n += r.get("checked", 0)
            if r["verdict"] == "reproduced" and bad is None:
                bad = {"obligation": f.__name__, "angles": (p_, y_, r_), "detail": r["detail"]}
    return {"verdict": "confirmed" if bad is None else "refuted", "cex": {"grid": True} if bad else None, "failure": bad,
            "paths": n, "queries": 0, "samples": [{"concrete checks": n}]}


def replay_o_validate_encoding(**cex):
    r = o_validate_encoding()
    if r["verdict"] != "confirmed":
        raise Fail(json.dumps(r["failure"])[:1500])


# =========================================================================================== (2) names, $variables, histories — E1

def _fn(name, iname, style):
    """The naming rule of the property statement: '', '@...' and '!...' are exempt; 0 prefix, 1 suffix, 2 none."""
    if len(name) == 0:
        return name
    c = name[0]
    if c == '@' or c == '!':
        return name
    if style == 2:
        return name
    if style == 0:
        return iname + '-' + name
    return name + '-' + iname


def _style(style):
    import srctools.instancing as I
    return [I.FixupStyle.PREFIX, I.FixupStyle.SUFFIX, I.FixupStyle.NONE][style]


def h_name_rules(name: str, iname: str, style: int, n: int, m: int) -> None:
    """Instance.fixup_name and fixup_key for every entity-name value type, on fully symbolic strings."""
    import srctools.instancing as I
    import srctools.vmf as V
    from srctools.fgd import ValueTypes as T
    from srctools.math import Vec, Matrix
    assume(len(name) == n)
    assume(len(iname) == m)
    assume(0 <= style <= 2)
    inst = I.Instance(iname, "f.vmf", Vec(), Matrix(), _style(style))
    want = _fn(name, iname, style)
    got = inst.fixup_name(name)
    check(got == want, "fixup_name", got, want)
    vmf = V.VMF()
    for t in (T.TARG_DEST, T.TARG_SOURCE, T.TARG_FILTER_NAME):
        got = inst.fixup_key(vmf, (), t, name)
        check(got == want, f"fixup_key {t.name}", got, want)
    # a name-or-classname value: a classname (any case) passes through, anything else is a name (concrete values: casefold + set lookup)
    for v in ("info_target", "Info_Target", "door", "@g", ""):
        got = inst.fixup_key(vmf, ("info_target",), T.TARG_DEST_CLASS, v)
        w2 = v if v.casefold() == "info_target" else _fn(v, iname, style)
        check(got == w2, "fixup_key TARG_DEST_CLASS", v, got, w2)
    for t in (T.STRING, T.INT, T.FLOAT, T.BOOL, T.STR_SOUND, T.STR_MATERIAL, T.STR_MODEL, T.COLOR_255):
        got = inst.fixup_key(vmf, (), t, name)
        check(got == name, f"fixup_key {t.name} must not change the value", got, name)


def h_name_rules_w(name: str, iname: str, style: int, n: int, m: int) -> None:
    h_name_rules(name, iname, style, n, m)
    raise Fail("reached")


# --- $variable substitution as collapse_one uses it (default '')

SUB_TEXTS = ["$t", "a$tb", "$T", "$tt", "$ttx", "$unknown", "!$t", "$", "$1", "no vars", "$t$t", "x$unknown.y", "$t_"]


def _subst(text, table, default=''):
    """Documented semantics, written independently: at each '$' take the LONGEST known variable name that follows
    (case-insensitively); else an identifier [a-z_][a-z0-9_]* is an unknown variable -> default; else the '$' is literal."""
    out = []
    i = 0
    names = sorted(table, key=len, reverse=True)
    ident0 = "abcdefghijklmnopqrstuvwxyz_"
    ident = ident0 + "0123456789"
    while i < len(text):
        ch = text[i]
        if ch != '$':
            out.append(ch)
            i += 1
            continue
        rest = text[i + 1:]
        hit = None
        for nm in names:
            if len(nm) > 0 and rest[:len(nm)].casefold() == nm:
                hit = nm
                break
        if hit is not None:
            out.append(table[hit])
            i += 1 + len(hit)
            continue
        j = 0
        if rest[:1].lower() in ident0 and rest[:1] != '':
            j = 1
            while j < len(rest) and rest[j].lower() in ident:
                j += 1
        if j:
            out.append(default)
            i += 1 + j
        else:
            out.append('$')
            i += 1
    return out


def _join_eq(got, pieces):
    """got == ''.join(pieces) without building the joined string from symbolic pieces more than once."""
    want = ''
    for p in pieces:
        want = want + p
    return got == want, want


def h_substitute(val: str, ti: int, n: int, table: int) -> None:
    """EntityFixup.substitute(text, '') for the concrete skeletons above with a symbolic value of $t.
    table 0: {} (no fixups at all), 1: {t}, 2: {t, tt}."""
    import srctools.vmf as V
    assume(len(val) == n)
    assume(0 <= ti < len(SUB_TEXTS))
    text = pick(SUB_TEXTS, ti)
    tab = {}
    fixups = []
    if table >= 1:
        tab["t"] = val
        fixups.append(V.FixupValue("t", val, 1))
    if table >= 2:
        tab["tt"] = "LONG"
        fixups.append(V.FixupValue("TT", "LONG", 2))
    fx = V.EntityFixup(fixups)
    got = fx.substitute(text, '')
    ok, want = _join_eq(got, _subst(text, tab))
    check(ok, "substitute", text, got, want)
    # the table itself is not changed by substituting
    check([(f.var, f.id) for f in fx.copy_values()] == [(f.var, f.id) for f in fixups], "table changed")


def h_substitute_w(val: str, ti: int, n: int, table: int) -> None:
    h_substitute(val, ti, n, table)
    raise Fail("reached")


# --- full collapse_one on a template with proxy, nested instance, outputs; histories

N1S = ["rl", "A", "@r"]
N2S = ["@g", "b", ""]
INAMES = ["i", "I", "a-b", "rl"]
VALS = ["door", "@exit", "!activator", "", "x y"]


def _build_t1(n1, n2, n3):
    import srctools.vmf as V
    t = V.VMF()
    rl = t.create_ent("ambient_generic", targetname=n1, origin="16 0 0", angles="0 0 0", parentname="$t", damagefilter="flt", message="x$ty",
                      sourceentityname="door")
    rl.add_out(V.Output("OnTrigger", "$t", "Open"), V.Output("OnTrigger", "door", "Lock"), V.Output("OnTrigger", "@glob", "Kill"),
               V.Output("OnTrigger", "!self", "Kill"), V.Output("OnTrigger", "", "X", "$t"), V.Output("OnSpawn", "proxy", "ProxyRelay"))
    tg = t.create_ent("info_target", targetname=n2, origin="0 32 0", parentname=n1)
    nest = t.create_ent("func_instance", targetname=n3, file="sub.vmf", origin="0 0 8", angles="0 0 0")
    nest.fixup["a"] = "door"
    nest.fixup["b"] = "@g"
    nest.fixup["c"] = "5"
    nest.fixup["d"] = "-x"
    nest.fixup["e"] = ""
    px = t.create_ent("func_instance_io_proxy", targetname="proxy", origin="4 4 4")
    px.add_out(V.Output("OnProxyRelay", n1, "Trigger"))
    hid = V.Entity(t, keys={"classname": "info_null", "targetname": "hid", "origin": "0 0 0"}, hidden=True)
    t.add_ent(hid)
    t.add_brush(t.make_prism(V.Vec(-8, -8, 0), V.Vec(8, 8, 16)).solid)
    return t, rl, tg, nest


def _build_t2():
    import srctools.vmf as V
    t = V.VMF()
    z = t.create_ent("info_target", targetname="z", origin="1 2 3", parentname="$t")
    z.add_out(V.Output("OnUser1", "z", "Kill"))
    return t, z


def _export(vmf):
    """Text of everything in the map (entities incl. hidden, fixups, outputs, brushes), as the list of written pieces."""
    sink = ChunkSink()
    for e in vmf.entities:
        e.export(sink, "")
    for b in vmf.brushes:
        b.export(sink, "")
    return sink.parts


def _outs(e):
    return [(o.output, o.target, o.input, o.params, o.inst_out, o.inst_in) for o in e.outputs]


def _collapse_body(iname, val, style, order, n1, n2, n3="nest"):
    import srctools.vmf as V
    import srctools.instancing as I
    from srctools.math import Vec, Matrix
    t1, rl, tg, nest = _untraced(_build_t1, n1, n2, n3)
    t2, z = _untraced(_build_t2)
    f1 = I.InstanceFile(t1)
    f2 = I.InstanceFile(t2)
    check(len(t1.entities) == 4, "proxy not removed from the template by InstanceFile", len(t1.entities))
    snap1, snap2 = _export(t1), _export(t2)
    dest = V.VMF()
    cache = {}
    runs = [("A", iname, style, val), ("C", "c", 0, "w"), ("B", "j", 1, "door")]
    if order:
        runs.reverse()
    for tag, nm, st, v in runs:
        file, tmpl = (f2, t2) if tag == "C" else (f1, t1)
        inst = I.Instance(nm, "f.vmf", Vec(64, 0, 0), Matrix.from_yaw(90), _style(st), fixup=[V.FixupValue("t", v, 1)],
                          outputs=[V.Output("OnSpawn", "outer", "Fire", inst_out=n1), V.Output("OnOther", "outer2", "Fire")])
        n_before = len(dest.entities)
        I.collapse_one(dest, inst, file, engine_cache=cache)
        # ---- template identical (text) to what it was before any collapse
        check(_export(t1) == snap1, f"template 1 modified by collapse {tag}", [p for p in _export(t1) if p not in snap1][:4])
        check(_export(t2) == snap2, f"template 2 modified by collapse {tag}", [p for p in _export(t2) if p not in snap2][:4])
        new = list(dest.entities)[n_before:]
        if tag == "C":
            check(len(new) == 1, "template 2: one entity expected", len(new))
            e = new[0]
            check(e["targetname"] == _fn("z", nm, st) and e["parentname"] == _fn(v, nm, st), "template 2 names", dict(e.items()))
            check(_outs(e) == [("OnUser1", _fn("z", nm, st), "Kill", "", None, None)], "template 2 outputs", _outs(e))
            continue
        check(len(new) == 3, "visible entities of template 1 (hidden one and proxy excluded)", [x["classname"] for x in new])
        by_old = {old.id: dest.entities[[x.id for x in dest.entities].index(inst.ent_ids[old.id])] for old in (rl, tg, nest)}
        e1, e2, e3 = by_old[rl.id], by_old[tg.id], by_old[nest.id]
        check(e1 is not rl and e2 is not tg and e3 is not nest, "copies must be new objects")
        # keyvalues
        check(e1["classname"] == "ambient_generic" and e2["classname"] == "info_target" and e3["classname"] == "func_instance", "classnames")
        check(e1["targetname"] == _fn(n1, nm, st), "name of entity 1", e1["targetname"], nm, st)
        check(e2["targetname"] == _fn(n2, nm, st), "name of entity 2", e2["targetname"], nm, st)
        check(e3["targetname"] == _fn(n3, nm, st), "name of nested instance", e3["targetname"])
        check(e1["parentname"] == _fn(v, nm, st), "parentname = fixup_name(substituted $t)", e1["parentname"], v, nm, st)
        check(e2["parentname"] == _fn(n1, nm, st), "parentname literal", e2["parentname"])
        check(e1["damagefilter"] == _fn("flt", nm, st), "filter name", e1["damagefilter"])
        check(e1["sourceentityname"] == _fn("door", nm, st), "target_destination keyvalue", e1["sourceentityname"])
        ok, want = _join_eq(e1["message"], ["x", v, "y"])
        check(ok, "$t inside a plain string keyvalue", e1["message"], want)
        check(e3["file"] == "sub.vmf", "nested file")
        # positions (concrete floats): (x, y, z) -> yaw 90 -> (-y, x, z) + (64, 0, 0)
        check(e1["origin"] == "64 16 0" and e2["origin"] == "32 0 0" and e3["origin"] == "64 0 8", "origins", e1["origin"], e2["origin"], e3["origin"])
        check(e1["angles"] == "0 90 0" and e3["angles"] == "0 90 0", "angles", e1["angles"], e3["angles"])
        # outputs: $variables substituted THEN named; the proxy output is replaced by the instance's own output
        want_outs = [("OnTrigger", _fn(v, nm, st), "Open", "", None, None), ("OnTrigger", _fn("door", nm, st), "Lock", "", None, None),
                     ("OnTrigger", "@glob", "Kill", "", None, None), ("OnTrigger", "!self", "Kill", "", None, None),
                     ("OnTrigger", "", "X", "$t", None, None), ("OnSpawn", "outer", "Fire", "", None, None)]
        got_outs = _outs(e1)
        check(len(got_outs) == len(want_outs), "output count", got_outs)
        for g, w in zip(got_outs, want_outs):
            check(g[0] == w[0] and g[1] == w[1] and g[2] == w[2] and g[4] == w[4] and g[5] == w[5], "output", g, w)
        check(_outs(e2) == [] and _outs(e3) == [], "no outputs expected on entities 2/3")
        # nested instance fixups: names renamed per style, '@', '!', '-', '.', digits and '' left alone; own table, not the template's
        fx = {k: e3.fixup[k] for k in ("a", "b", "c", "d", "e")}
        check(fx["a"] == _fn("door", nm, st) and fx["b"] == "@g" and fx["c"] == "5" and fx["d"] == "-x" and fx["e"] == "", "nested fixups", fx)
        check(getattr(e3, I.RECUR_COUNT_ATTR, None) == 1, "recursion counter on nested instance")
        # brush copied once, template brush untouched (text compare above)
    check(len(dest.brushes) == 2, "one brush per collapse of template 1", len(dest.brushes))


def h_collapse_sym(iname: str, val: str, style: int, order: bool, n: int, m: int) -> None:
    """Instance name and fixup value fully symbolic (exact lengths); template entity names exempt ('@r', '') so that no symbolic
    string is hashed by the VMF indexes. Names flow through parentname / filter / outputs / nested fixups."""
    assume(len(iname) == m)
    assume(len(val) == n)
    assume(0 <= style <= 2)
    assume(all([(ord(c) > 0) & (ord(c) < 128) for c in iname]))      # ASCII: two slots are symbolic at once (DESIGN rule 4)
    assume(all([(ord(c) > 0) & (ord(c) < 128) for c in val]))
    _collapse_body(iname, val, style, order, "@r", "", "@nest")


def h_collapse_pick(ii: int, vi: int, a: int, b: int, style: int, order: bool) -> None:
    """Same body; instance name, fixup value and both entity names by symbolic index from finite lists (hashed values)."""
    assume(0 <= ii < len(INAMES) and 0 <= vi < len(VALS) and 0 <= a < len(N1S) and 0 <= b < len(N2S) and 0 <= style <= 2)
    _collapse_body(pick(INAMES, ii), pick(VALS, vi), style, order, pick(N1S, a), pick(N2S, b))


def h_collapse_sym_w(iname: str, val: str, style: int, order: bool, n: int, m: int) -> None:
    h_collapse_sym(iname, val, style, order, n, m)
    raise Fail("reached")


# =========================================================================================== (3) entity keyvalue geometry — E1, finite lists

ROTS = [(0.0, 0.0, 0.0), (0.0, 90.0, 0.0), (90.0, 0.0, 0.0), (0.0, 0.0, 90.0), (0.0, 180.0, 0.0), (0.0, 270.0, 90.0), (30.0, 45.0, 60.0)]
ORGS = [(0.0, 0.0, 0.0), (64.0, -128.0, 32.0), (0.5, 1024.25, -3.125)]


def _mat(p, y, r):
    sp, cp = _pm.sin(_pm.radians(p)), _pm.cos(_pm.radians(p))
    sy, cy = _pm.sin(_pm.radians(y)), _pm.cos(_pm.radians(y))
    sr, cr = _pm.sin(_pm.radians(r)), _pm.cos(_pm.radians(r))
    return [[cp * cy, cp * sy, -sp], [sr * sp * cy - cr * sy, sr * sp * sy + cr * cy, sr * cp], [cr * sp * cy + sr * sy, cr * sp * sy - sr * cy, cr * cp]]


def _xfp(v, m, o):
    return [v[0] * m[0][j] + v[1] * m[1][j] + v[2] * m[2][j] + o[j] for j in range(3)]


def _near(a, b, tol=1e-3):
    return len(a) == len(b) and all(abs(float(x) - float(y)) <= tol * (1.0 + abs(float(y))) for x, y in zip(a, b))


def _vals(s):
    return [float(x) for x in s.replace(",", " ").split()]


def _build_t3():
    import srctools.vmf as V
    t = V.VMF()
    pr = t.make_prism(V.Vec(-64, -64, 0), V.Vec(64, 64, 16), mat="nature/blendgrass")
    top = pr.top
    disp = V.Side(t, [p.copy() for p in top.planes], mat=top.mat, uaxis=top.uaxis.copy(), vaxis=top.vaxis.copy(), disp_power=1)
    disp.disp_pos = V.Vec(-64, -64, 16)
    for y in range(3):
        for x in range(3):
            v = disp[x, y]
            v.normal = V.Vec(1, 0, 0) if (x + y) % 2 else V.Vec(0, 0, 1)
            v.distance = 4.0 * (x + 1)
            v.offset = V.Vec(8 * x, 2 * y, 1)
            v.offset_norm = V.Vec(0, 1, 0)
    pr.solid.sides[pr.solid.sides.index(top)] = disp
    t.add_brush(pr.solid)
    tg = t.create_ent("info_target", targetname="tg", origin="16 32 48", angles="10 20 30")
    beam = t.create_ent("env_beam", targetname="bm", origin="0 0 0", targetpoint="1 2 3")
    ov = t.create_ent("info_overlay", origin="8 8 16", basisorigin="8 8 16", basisu="1 0 0", basisv="0 1 0", basisnormal="0 0 1",
                      uv0="-4 -4 0", sides=f"{disp.id} 99999 x")
    fb = t.create_ent("func_brush", targetname="fb", origin="0 0 128")
    fb.solids.append(t.make_prism(V.Vec(0, 0, 120), V.Vec(16, 16, 136)).solid)
    return t, pr.solid, disp, tg, beam, ov, fb


def _solid_pts(sol):
    out = []
    for s in sol.sides:
        for p in s.planes:
            out.append([p.x, p.y, p.z])
    return out


def _geo_snapshot(t):
    parts = _export(t)
    return parts


def _geo_checks(dest, inst, tmpl_objs, rot, org, where):
    """Native (concrete) comparison of one collapsed copy with the oracle p.M + o."""
    import srctools.math as sm
    t, sol, disp, tg, beam, ov, fb = tmpl_objs
    m = _mat(*rot)
    ents = {e.id: e for e in dest.entities}
    brushes = {b.id: b for b in dest.brushes}
    nsol = brushes[inst.brush_ids[sol.id]]
    check(_near(sum(_solid_pts(nsol), []), sum([_xfp(p, m, org) for p in _solid_pts(sol)], [])), f"{where}: world brush points")
    nd = [s for s in nsol.sides if s.is_disp]
    check(len(nd) == 1, f"{where}: displacement face kept")
    nd = nd[0]
    check(nd.id == inst.face_ids[disp.id], f"{where}: face id map")
    check(_near(list(nd.disp_pos), _xfp(list(disp.disp_pos), m, org)), f"{where}: disp start position")
    for v0, v1 in zip(disp._disp_verts, nd._disp_verts):
        for k in ("normal", "offset", "offset_norm"):
            check(_near(list(getattr(v1, k)), _xfp(list(getattr(v0, k)), m, (0, 0, 0))), f"{where}: disp {k} rotated exactly once",
                  list(getattr(v1, k)), list(getattr(v0, k)))
        check(v1.distance == v0.distance and v1.alpha == v0.alpha, f"{where}: disp distance/alpha")
    # texture lock on the displacement face for a probe point
    x = [3.0, -5.0, 7.0]
    xp = _xfp(x, m, org)
    for ax in ("uaxis", "vaxis"):
        a0, a1 = getattr(disp, ax), getattr(nd, ax)
        t0 = (x[0] * a0.x + x[1] * a0.y + x[2] * a0.z) / a0.scale + a0.offset
        t1 = (xp[0] * a1.x + xp[1] * a1.y + xp[2] * a1.z) / a1.scale + a1.offset
        check(abs(t0 - t1) <= 1e-3 * (1 + abs(t0)), f"{where}: texture lock {ax}", t0, t1)
    e = ents[inst.ent_ids[tg.id]]
    check(_near(_vals(e["origin"]), _xfp([16, 32, 48], m, org)), f"{where}: entity origin", e["origin"])
    want = sm.Matrix.from_angle(10, 20, 30)
    got = sm.Matrix.from_angstr(e["angles"])
    ref = [[sum(want[i, k] * m[k][j] for k in range(3)) for j in range(3)] for i in range(3)]
    check(_near([got[i, j] for i in range(3) for j in range(3)], [ref[i][j] for i in range(3) for j in range(3)], 2e-3), f"{where}: angles composed", e["angles"])
    e = ents[inst.ent_ids[beam.id]]
    check(_near(_vals(e["targetpoint"]), _xfp([1, 2, 3], m, org)), f"{where}: vecline keyvalue", e["targetpoint"])
    e = ents[inst.ent_ids[ov.id]]
    check(_near(_vals(e["basisorigin"]), _xfp([8, 8, 16], m, org)), f"{where}: overlay basisorigin", e["basisorigin"])
    for k, v in (("basisu", [1, 0, 0]), ("basisv", [0, 1, 0]), ("basisnormal", [0, 0, 1])):
        check(_near(_vals(e[k]), _xfp(v, m, (0, 0, 0))), f"{where}: overlay {k} rotated only", e[k])
    check(_near(_vals(e["uv0"]), [-4, -4, 0]), f"{where}: overlay local uv unchanged", e["uv0"])
    check(e["sides"] == str(nd.id), f"{where}: overlay side list remapped to the copied face", e["sides"], nd.id)
    e = ents[inst.ent_ids[fb.id]]
    check(len(e.solids) == 1 and e.solids[0] is not fb.solids[0], f"{where}: brush entity solid copied")
    check(_near(sum(_solid_pts(e.solids[0]), []), sum([_xfp(p, m, org) for p in _solid_pts(fb.solids[0])], [])), f"{where}: brush entity points")
    check(inst.brush_ids[fb.solids[0].id] == e.solids[0].id, f"{where}: brush entity solid id map")


def h_place(r0: int, g0: int, r1: int, g1: int) -> None:
    """Two collapses of one template (brush with displacement, point entities, overlay, brush entity) at solver-chosen placements
    from finite lists, then the first placement again: each copy == oracle, template text unchanged, first == third."""
    import srctools.vmf as V
    import srctools.instancing as I
    from srctools.math import Vec, Matrix
    assume(0 <= r0 < len(ROTS) and 0 <= g0 < len(ORGS) and 0 <= r1 < len(ROTS) and 0 <= g1 < len(ORGS))
    pl = [(pick(ROTS, r0), pick(ORGS, g0)), (pick(ROTS, r1), pick(ORGS, g1))]
    pl.append(pl[0])
    objs = _untraced(_build_t3)
    t = objs[0]
    file = I.InstanceFile(t)
    snap = _untraced(_export, t)
    texts = []
    for k, (rot, org) in enumerate(pl):
        dest = V.VMF()
        inst = I.Instance("i", "t.vmf", Vec(*org), Matrix.from_angle(*rot))
        I.collapse_one(dest, inst, file, engine_cache={})
        _untraced(_geo_checks, dest, inst, objs, rot, org, f"collapse {k}")
        after = _untraced(_export, t)
        check(after == snap, f"template modified by collapse {k}", [p for p in after if p not in snap][:3])
        texts.append(_untraced(_export, dest))
    check(texts[0] == texts[2], "first and third collapse (same placement) differ", [p for p in texts[2] if p not in texts[0]][:3])


def h_place_w(r0: int, g0: int, r1: int, g1: int) -> None:
    h_place(r0, g0, r1, g1)
    raise Fail("reached")


# =========================================================================================== (4) termination — E1

class _MemFS:
    """collapse_all only calls fsys.read_kv1(filename)."""

    def __init__(self, graph):
        self.graph = graph
        self.reads = []

    def read_kv1(self, filename):
        from srctools.keyvalues import Keyvalues as K
        self.reads.append(filename)
        if filename not in self.graph:
            raise FileNotFoundError(filename)
        ents = [K("entity", [K("id", "1"), K("classname", "info_target"), K("targetname", "m"), K("origin", "0 0 0")])]
        for k, child in enumerate(self.graph[filename]):
            ents.append(K("entity", [K("id", str(2 + k)), K("classname", "func_instance"), K("targetname", ""), K("file", child),
                                     K("origin", "8 0 0"), K("angles", "0 0 0"), K("fixup_style", "0")]))
        return K.root(*ents)


def _levels(graph, root, cap):
    """Nesting depth below `root` (1 = no nested instances); cap+1 when a cycle is reachable or depth exceeds cap."""
    def depth(f, seen):
        if f in seen or len(seen) > cap:
            return cap + 1
        return min(cap + 1, 1 + max([depth(c, seen + [f]) for c in graph[f]] or [0]))
    return depth(root, [])


def _count(graph, root, rounds):
    """(info_targets, func_instances left) after `rounds` rounds starting with one instance of root."""
    frontier = [root]
    targets = 0
    for _ in range(rounds):
        nxt = []
        for f in frontier:
            targets += 1
            nxt += graph[f]
        frontier = nxt
    return targets, len(frontier)


def h_terminate(aa: bool, ab: bool, ba: bool, bb: bool, limit: int) -> None:
    """collapse_all on every inclusion graph over {a.vmf, b.vmf} (incl. self-loops): it returns (DAG shallower than the limit) or raises
    RecursionError (depth >= limit or a cycle), never loops; file read once each; entity count == the exact unfolding."""
    import srctools.vmf as V
    import srctools.instancing as I
    graph = {"a.vmf": (["a.vmf"] if aa else []) + (["b.vmf"] if ab else []),
             "b.vmf": (["a.vmf"] if ba else []) + (["b.vmf"] if bb else [])}
    fs = _MemFS(graph)
    vmf = V.VMF()
    vmf.create_ent("func_instance", targetname="top", file="a.vmf", origin="0 0 0", angles="0 0 0")
    levels = _untraced(_levels, graph, "a.vmf", limit + 1)
    raised = False
    try:
        I.collapse_all(vmf, fs, recur_limit=limit)
    except RecursionError:
        raised = True
    left = len(vmf.by_class["func_instance"])
    n_t = len(vmf.by_class["info_target"])
    if not raised:
        check(levels < limit + 1 and left == 0, "returned although instances remain / graph deeper than the limit", levels, left)
        want_t, want_left = _untraced(_count, graph, "a.vmf", levels)
        check(n_t == want_t and want_left == 0, "entity count differs from the unfolding", n_t, want_t)
    else:
        check(levels >= limit, "RecursionError although nesting depth is below the limit", levels, limit)
        want_t, want_left = _untraced(_count, graph, "a.vmf", limit)
        check(n_t == want_t and left == want_left, "after RecursionError: entity count differs from `limit` rounds of unfolding", n_t, want_t, left, want_left)
    check(len(fs.reads) == len(set(fs.reads)), "an instance file was parsed more than once (template cache)", fs.reads)
    names = [e["targetname"] for e in vmf.by_class["info_target"]]
    check(len(set(names)) >= 1 if names else True, "names")


def h_terminate_w(aa: bool, ab: bool, ba: bool, bb: bool, limit: int) -> None:
    h_terminate(aa, ab, ba, bb, limit)
    raise Fail("reached")


# =========================================================================================== obligations

def obligations(tier):
    q = tier == "quick"
    obls = [
        Obl("encoding_validation", MOD, "o_validate_encoding", engine="call", budget_s=300, replay="replay_o_validate_encoding",
            desc="translator validation: both E2 obligations in concrete mode on a grid of rotations agree with the real float code"),
        Obl("localise", MOD, "o_localise", engine="call", budget_s=900, replay="replay_o_localise",
            desc="Vec/UVAxis/Side/Solid.localise (+translate): p' = p.M + o, axes rotated, texture lock, displacement data; Matrix/Angle/None forms",
            bound="all reals"),
        Obl("collapse_geom", MOD, "o_collapse_geom", engine="call", budget_s=900, replay="replay_o_collapse_geom",
            desc="real collapse_one x3 on a symbolic brush (+displacement): copy == original moved by the placement, template unchanged after "
                 "every collapse, same placement => same copy, hidden brushes skipped, id maps", bound="all reals; 3 collapses, 2 placements"),
    ]
    nm = [(n, m) for n in range(0, 3 if q else 4) for m in range(0, 3 if q else 4)]
    obls.append(Obl("name_rules", MOD, "h_name_rules", slices=[{"n": n, "m": m} for n, m in nm], budget_s=600, per_path_s=60,
                    desc="fixup_name / fixup_key(name types) == naming rule on fully symbolic strings; non-name types unchanged",
                    bound="exact lengths per slice, all code points"))
    obls.append(Obl("name_rules.witness", MOD, "h_name_rules_w", slices=[{"n": 1, "m": 1}], budget_s=120, per_path_s=60, witness=True))
    ns = [0, 1, 2] if q else [0, 1, 2, 3]
    obls.append(Obl("substitute", MOD, "h_substitute", slices=[{"n": n, "table": t} for n in ns for t in (0, 1, 2)], budget_s=600, per_path_s=60,
                    desc="EntityFixup.substitute(text, '') == documented longest-match scanner on 13 skeletons, symbolic value of $t, "
                         "tables {}, {t}, {t,tt}", bound="value length exact per slice"))
    obls.append(Obl("substitute.witness", MOD, "h_substitute_w", slices=[{"n": 1, "table": 1}], budget_s=120, per_path_s=60, witness=True))
    sym = [(n, m) for n in ([0, 1] if q else [0, 1, 2]) for m in ([0, 1] if q else [0, 1, 2])]
    obls.append(Obl("collapse_sym", MOD, "h_collapse_sym",
                    slices=[{"n": n, "m": m, "style": st, "order": od} for n, m in sym for st in (0, 1, 2) for od in (False, True)],
                    budget_s=600 if q else 2400, per_path_s=120,
                    desc="collapse_one histories (A, other template, B; both orders): names/outputs/$vars/nested fixups per oracle, "
                         "templates' text unchanged after each collapse; instance name and fixup value symbolic (ASCII)",
                    bound="exact lengths per slice; style and order per slice"))
    obls.append(Obl("collapse_sym.witness", MOD, "h_collapse_sym_w", slices=[{"n": 1, "m": 1, "style": 0, "order": False}], budget_s=300, per_path_s=120, witness=True))
    obls.append(Obl("collapse_pick", MOD, "h_collapse_pick", slices=[{"a": a, "b": b} for a in range(len(N1S)) for b in range(len(N2S))],
                    budget_s=900 if q else 2400, per_path_s=120,
                    desc="same body with hashed names (targetnames, instance name) by symbolic index from finite lists",
                    bound=f"{len(INAMES)} instance names x {len(VALS)} values x 3x3 entity names x 3 styles x 2 orders (enumeration)"))
    pl = [{"r0": r} for r in range(len(ROTS))]
    obls.append(Obl("place", MOD, "h_place", slices=pl, budget_s=900 if q else 2400, per_path_s=120,
                    desc="entity origin/angles/vector keyvalues, overlay side list, brush entity and displacement geometry at placements from "
                         "finite lists; template unchanged; repeated placement gives the same text",
                    bound="7 rotations x 3 origins (enumeration), tolerance 1e-3"))
    obls.append(Obl("place.witness", MOD, "h_place_w", slices=[{"r0": 1, "g0": 1, "r1": 0, "g1": 0}], budget_s=300, per_path_s=120, witness=True))
    obls.append(Obl("terminate", MOD, "h_terminate", slices=[{"limit": k} for k in [1, 2, 3, 4]], budget_s=900 if q else 2400,
                    per_path_s=120, desc="collapse_all over all 16 inclusion graphs on two files: returns or RecursionError, exact entity count, "
                                         "each file parsed once", bound="2 files, recur_limit per slice"))
    obls.append(Obl("terminate.witness", MOD, "h_terminate_w", slices=[{"limit": 2}], budget_s=300, per_path_s=120, witness=True))
    return obls
