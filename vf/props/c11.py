"""C11 — every BSP lump writer is the inverse of its reader (E1, CrossHair over the real _lmp_write_*/_lmp_read_* pairs).

Method: a BSP object is obtained from a synthesised blank file through the real `BSP.read()` (so the version ->
layout selection is the real one), a lump value with SYMBOLIC integer fields / names / aliasing choices is assigned
through the real `ParsedLump.__set__`, the real `BSP.save()` rebuild loop runs (the file-writing half of `save()` is cut
off at `AtomicWriter.__enter__`: headers and lump tables are C10's subject), the rebuilt raw lumps are handed to a
second blank BSP and read back through the real `ParsedLump.__get__`.  Oracle: every field equals what was assigned, or
the save raised an explicit error (struct.error / ValueError / OverflowError / UnicodeError) - never a silent change.
"""
from __future__ import annotations

import io
import struct as _struct

from vf.core import Obl
from vf.h import Fail, assume, check

MOD = "vf.props.c11"

META = {
    "level": "model_checking",
    "functions": [
        "srctools.bsp:runlength_encode", "srctools.bsp:runlength_decode", "srctools.binformat:find_or_insert",
        "srctools.binformat:find_or_extend", "srctools.binformat:read_array", "srctools.binformat:write_array",
        "srctools.binformat:struct_read", "srctools.binformat:DeferredWrites.write",
        "srctools.bsp:BSP.save", "srctools.bsp:ParsedLump.__get__", "srctools.bsp:ParsedLump.__set__",
        "srctools.bsp:BSP._lmp_read_planes", "srctools.bsp:BSP._lmp_write_planes",
        "srctools.bsp:BSP._lmp_read_vertexes", "srctools.bsp:BSP._lmp_write_vertexes",
        "srctools.bsp:BSP._lmp_read_surfedges", "srctools.bsp:BSP._lmp_write_surfedges",
        "srctools.bsp:BSP._lmp_read_primitives", "srctools.bsp:BSP._lmp_write_primitives",
        "srctools.bsp:BSP._read_faces_common", "srctools.bsp:BSP._write_faces_common",
        "srctools.bsp:BSP._lmp_read_faces", "srctools.bsp:BSP._lmp_write_faces",
        "srctools.bsp:BSP._lmp_read_orig_faces", "srctools.bsp:BSP._lmp_write_orig_faces",
        "srctools.bsp:BSP._lmp_read_hdr_faces", "srctools.bsp:BSP._lmp_write_hdr_faces",
        "srctools.bsp:BSP._lmp_write_ents", "srctools.tokenizer:escape_text",
        "srctools.bsp:BSP._lmp_read_brushes", "srctools.bsp:BSP._lmp_write_brushes",
        "srctools.bsp:BSP._lmp_read_water_leaf_info", "srctools.bsp:BSP._lmp_write_water_leaf_info",
        "srctools.bsp:BSP._lmp_read_visleafs", "srctools.bsp:BSP._lmp_write_visleafs",
        "srctools.bsp:BSP._lmp_read_nodes", "srctools.bsp:BSP._lmp_write_nodes",
        "srctools.bsp:BSP._lmp_read_visibility", "srctools.bsp:BSP._lmp_write_visibility",
        "srctools.bsp:BSP._lmp_read_textures", "srctools.bsp:BSP._lmp_write_textures",
        "srctools.bsp:BSP._lmp_read_texinfo", "srctools.bsp:BSP._lmp_write_texinfo",
        "srctools.bsp:BSP._lmp_read_bmodels", "srctools.bsp:BSP._lmp_write_bmodels",
        "srctools.bsp:BSP._lmp_read_cubemaps", "srctools.bsp:BSP._lmp_write_cubemaps",
        "srctools.bsp:BSP._lmp_read_overlays", "srctools.bsp:BSP._lmp_write_overlays",
        "srctools.bsp:BSP._lmp_read_ents", "srctools.bsp:BSP.write_ent_data",
        "srctools.bsp:BSP._lmp_read_props", "srctools.bsp:BSP._lmp_write_props",
        "srctools.bsp:BSP._lmp_read_detail_props", "srctools.bsp:BSP._lmp_write_detail_props",
        "srctools.bsp:StaticPropFlags.value_prim", "srctools.bsp:StaticPropFlags.value_sec",
        "srctools.vmf:Output.parse", "srctools.vmf:Output.as_keyvalue",
    ],
    "bounds": "",
    "outside": "",
    "stubs": [],
    "trusted_base": ["crosshair-tool 0.0.110 (incl. its symbolic struct/bytes models)", "z3", "vf/chx.py", "vf/stubs/binmodel.py"],
    "assumptions": [],
    "validation_runs": 0,
}

ERRORS = (_struct.error, ValueError, OverflowError, TypeError)   # UnicodeError is a ValueError

SYMBOLIC = False      # True inside a CrossHair worker (pseudo-members for Flag values instead of the hashing lookup)
_FORMATS_SEEN = []


# ------------------------------------------------------------------------------------------------ stubs / setup

class _StopSave(Exception):
    """Raised from the AtomicWriter stub: the rebuild loop of BSP.save() has run, the file half is C10's subject."""


class _NoFile:
    def __init__(self, *a, **k):
        pass

    def __enter__(self):
        raise _StopSave()

    def __exit__(self, *a):
        return False


class _StructModule:
    """`struct` as seen by srctools.bsp: the module itself, with `Struct` replaced by the pure-Python model."""

    def __init__(self, model):
        from vf.stubs.binmodel import std_format
        self.Struct = model
        self._std = std_format

    def pack(self, fmt, *a):
        return _struct.pack(self._std(fmt), *a)

    def unpack(self, fmt, buf):
        return _struct.unpack(self._std(fmt), buf)

    def unpack_from(self, fmt, buffer, offset=0):
        fmt = self._std(fmt)
        return _struct.unpack(fmt, buffer[offset:offset + _struct.calcsize(fmt)])

    def iter_unpack(self, fmt, buf):
        from vf.stubs.binmodel import iter_unpack
        return iter_unpack(fmt, buf)

    def calcsize(self, fmt):
        return _struct.calcsize(self._std(fmt))

    def __getattr__(self, n):
        return getattr(_struct, n)


def _flag_proxy(cls):
    """Exact re-statement of enum.Flag's STRICT value lookup without hashing the value: range check + pseudo-member."""
    all_bits = cls._all_bits_
    mask = cls._flag_mask_

    class Proxy:
        _real = cls

        def __call__(self, value):
            if not (~all_bits <= value <= all_bits) or value & (all_bits ^ mask):
                raise ValueError(f'{value!r} is not a valid {cls.__name__}')
            if value < 0:
                value = all_bits + 1 + value
            return mkflag(cls, value)

        def __getattr__(self, n):
            return getattr(cls, n)

        def __instancecheck__(self, o):
            return isinstance(o, cls)
    return Proxy()


def mkflag(cls, value):
    """A Flag member with the given value. Natively the real lookup; under CrossHair a pseudo-member whose `_value_` is
    the (symbolic) int, exactly what Flag._missing_ builds for a combination, so the real properties run on it."""
    if not SYMBOLIC:
        return cls(value)
    obj = object.__new__(cls)
    obj._value_ = value
    obj._name_ = None
    return obj


_INSTALLED = False


def setup(engine):
    global SYMBOLIC, _INSTALLED
    import srctools.bsp as bm
    import srctools.binformat as bf
    from vf.stubs import binmodel
    if _INSTALLED:
        return
    _INSTALLED = True
    fmts = sorted({v.format for lay in (bm.LUMP_LAYOUT_STANDARD, bm.LUMP_LAYOUT_V19, bm.LUMP_LAYOUT_INFRA, bm.LUMP_LAYOUT_VITAMIN,
                                        bm.LUMP_LAYOUT_CHAOS) for v in lay.values() if hasattr(v, 'format')} |
                  {'<4s HH ii', 'fff', 'ii', '<8f', '<3f3fHH4BI5B3xB3xf', '<HHBBiff', '<IHH', '<?xxx', '<128s', '<iiii'})
    binmodel.selftest(fmts)
    bm.AtomicWriter = _NoFile
    bm.open = _open_blank
    if engine == "chx":
        SYMBOLIC = True
        MS = binmodel.ModelStruct
        for name in ("LUMP_LAYOUT_STANDARD", "LUMP_LAYOUT_V19", "LUMP_LAYOUT_INFRA", "LUMP_LAYOUT_VITAMIN", "LUMP_LAYOUT_CHAOS"):
            lay = getattr(bm, name)
            for k, v in list(lay.items()):
                if hasattr(v, 'format'):
                    lay[k] = MS(v.format)
        bm.GameLump.ST = MS(bm.GameLump.ST.format)
        bm.struct = _StructModule(MS)
        bm.BytesIO = binmodel.ModelBytesIO
        bf.Struct = MS
        bf._cached_struct = MS
        bf.ST_VEC = MS('fff')
        for nm in ("StaticPropFlags", "VisLeafFlags", "BrushContents", "SurfFlags"):
            real = getattr(bm, nm)
            px = _flag_proxy(real)
            for v in (0, 1, 5, 0x100, 0x7f, 0x80, 2**31, 2**32 - 1, 2**32, 2**40 - 1, 2**63, 2**64 - 1, 2**64, -1, -2, -2**31, -2**70):
                try:
                    a = real(v).value
                except ValueError:
                    a = 'ValueError'
                try:
                    b = px(v).value
                except ValueError:
                    b = 'ValueError'
                if a != b:
                    raise SystemExit(2)
            setattr(bm, nm, px)
        binmodel.or_disjoint_fastpath()
        from vf.stubs.common import stub_intern
        stub_intern()
        try:
            from vf.stubs.vmfstubs import stub_copyset
            stub_copyset()
        except Exception:  # noqa
            pass


# ------------------------------------------------------------------------------------------------ blank BSP files

CONFIGS = {
    # name: (magic, version number, L4D2 header order)
    "v19": (b'VBSP', 19, False),
    "v20": (b'VBSP', 20, False),
    "v21": (b'VBSP', 21, False),
    "l4d2": (b'VBSP', 21, True),
    "infra": (b'VBSP', 22, False),
    "chaos": (b'VBSP', 25, False),
    "vitamin": (b'FART', 43, False),
}
_BLANKS = {}
_CUR_BLANK = [b'']


def blank_bytes(cfg: str, sprp_version: int = 6, dprp_version: int = 4) -> bytes:
    key = (cfg, sprp_version, dprp_version)
    if key in _BLANKS:
        return _BLANKS[key]
    magic, ver, l4d2 = CONFIGS[cfg]
    header_size = 8 + 16 * 64 + 4
    sprp = _struct.pack('<iii', 0, 0, 0)
    dprp = _struct.pack('<iii', 0, 0, 0)
    gl_head = 4 + 2 * 16
    off1 = header_size + gl_head
    off2 = off1 + len(sprp) + 1
    game = (_struct.pack('<i', 2) + _struct.pack('<4sHHii', b'sprp'[::-1], 0, sprp_version, off1, len(sprp)) +
            _struct.pack('<4sHHii', b'dprp'[::-1], 0, dprp_version, off2, len(dprp)) + sprp + b'\0' + dprp)
    out = [_struct.pack('<4si', magic, ver)]
    for ind in range(64):
        if ind == 35:
            ent = (header_size, len(game), 0, 0)
        else:
            ent = (header_size, 0, 0, 0)     # a non-zero offset: BSP.read() takes a zero first word for the L4D2 order
        if l4d2:
            ent = (ent[2], ent[0], ent[1], ent[3])
        out.append(_struct.pack('<4i', *ent))
    out.append(_struct.pack('<i', 1))
    out.append(game)
    _BLANKS[key] = b''.join(out)
    return _BLANKS[key]


def _open_blank(filename, mode='rb', *a, **k):
    return io.BytesIO(_CUR_BLANK[0])


def new_bsp(cfg: str, sprp_version: int = 6):
    """A BSP with every lump empty, produced by the real BSP.read() on a synthesised concrete file."""
    import srctools.bsp as bm
    _CUR_BLANK[0] = blank_bytes(cfg, sprp_version)
    if SYMBOLIC:
        from crosshair.tracers import NoTracing
        with NoTracing():
            b = bm.BSP('blank.bsp')
    else:
        b = bm.BSP('blank.bsp')
    return b


def rebuild(bsp) -> None:
    """Run the real BSP.save() up to the point where the file would be opened."""
    try:
        bsp.save('out.bsp')
    except _StopSave:
        return
    raise Fail("save() did not reach the AtomicWriter stub")


def transfer(src, cfg: str, sprp_version: int = 6):
    """Second BSP object holding the raw lumps `src` rebuilt (what a re-read of the saved file would deliver; the
    header / lump-table transport is C10's subject)."""
    dst = new_bsp(cfg, sprp_version)
    for k, lump in src.lumps.items():
        dst.lumps[k].data = lump.data
    for k, gl in src.game_lumps.items():
        dst.game_lumps[k].data = gl.data
    return dst


def pick(lst, idx):
    """Concrete element chosen by a symbolic index (one path per element)."""
    for k in range(len(lst)):
        if idx == k:
            return lst[k]
    assume(False)


def cbool(b) -> bool:
    """Fork a symbolic bool into a concrete one."""
    if b:
        return True
    return False


def saved_or_rejected(bsp) -> bool:
    """True when the rebuild went through; False when the writer rejected the value with an explicit error."""
    try:
        rebuild(bsp)
    except ERRORS:
        return False
    return True


# ------------------------------------------------------------------------------------------------ kernels

def h_rle(d: bytes, n: int) -> None:
    """runlength_decode(runlength_encode(d)) == d, stand-alone and embedded at an offset with a cluster limit."""
    import srctools.bsp as bm
    assume(len(d) == n)
    enc = bm.runlength_encode(d)
    for i in range(0, len(enc), 1):
        if enc[i] == 0:
            check(i + 1 < len(enc) and enc[i + 1] != 0, "zero marker without a positive count", list(enc))
    dec = bm.runlength_decode(enc)
    check(bytes(dec) == bytes(d), "decode(encode(d)) != d", list(d), list(enc), list(dec))
    emb = b'\x07\x00' + bytes(enc) + b'\x05\x00\x03'
    dec2 = bm.runlength_decode(emb, 2, 8 * n)
    check(bytes(dec2) == bytes(d), "embedded decode differs", list(d), list(dec2))


def h_rle_w(d: bytes, n: int) -> None:
    h_rle(d, n)
    if n == 0 or d[0] == 0:
        raise Fail("reached")


def h_rle_long(a: bytes, b: bytes, na: int, nb: int, zi: int = 0) -> None:
    """Zero runs around the 255 split: d = a + bytes(nz) + b, nz chosen by symbolic index (enumeration)."""
    import srctools.bsp as bm
    assume(len(a) == na and len(b) == nb)
    nz = [254, 255, 256, 509, 510, 511, 765][zi]
    d = bytes(nz) if na == 0 and nb == 0 else bytes(a) + bytes(nz) + bytes(b)     # plain bytes when nothing is symbolic
    enc = bm.runlength_encode(d)
    dec = bm.runlength_decode(enc)
    check(len(dec) == len(d), "length changed", len(d), len(dec))
    check(bytes(dec) == d, "decode(encode(d)) != d", nz, list(a), list(b))


class _O:
    """Pool object for the index builders (default key is id())."""
    def __init__(self, n):
        self.n = n

    def __repr__(self):
        return f'o{self.n}'


def h_find_insert(l0: int, l1: int, l2: int, q0: int, q1: int, nl: int, nq: int, keyed: bool = False) -> None:
    """find_or_insert: returned index addresses the item; earlier entries never move; repeated items share an index."""
    import srctools.binformat as bf
    pool = [_O(0), _O(1), _O(2)]
    lst = [pick(pool, i) for i in (l0, l1, l2)[:nl]]
    qs = [pick(pool, i) for i in (q0, q1)[:nq]]
    before = list(lst)
    finder = bf.find_or_insert(lst, (lambda o: o.n)) if keyed else bf.find_or_insert(lst)
    for q in qs:
        i = finder(q)
        check(0 <= i < len(lst) and lst[i] is q, "index does not address the item", before, qs, i, lst)
        check(lst[:len(before)] == before, "existing entries changed", before, lst)
    check(len(lst) <= len(before) + len(set(map(id, qs))), "duplicate appended", before, qs, lst)


def h_find_extend(l0: int, l1: int, l2: int, q0: int, q1: int, q2: int, r0: int, r1: int, nl: int, nq: int, nr: int) -> None:
    """find_or_extend: lst[i:i+len(q)] is q (element-wise identical) after each call, and stays so after later calls."""
    import srctools.binformat as bf
    pool = [_O(0), _O(1), _O(2)]
    lst = [pick(pool, i) for i in (l0, l1, l2)[:nl]]
    q = [pick(pool, i) for i in (q0, q1, q2)[:nq]]
    r = [pick(pool, i) for i in (r0, r1)[:nr]]
    before = list(lst)
    finder = bf.find_or_extend(lst)
    i = finder(q)
    check(lst[:len(before)] == before, "existing entries changed", before, lst)
    check(0 <= i and i + len(q) <= len(lst) and all(a is b for a, b in zip(lst[i:i + len(q)], q)) and len(lst[i:i + len(q)]) == len(q),
          "returned position does not hold the sub-list", before, q, i, lst)
    j = finder(r)
    check(all(a is b for a, b in zip(lst[i:i + len(q)], q)) and len(lst[i:i + len(q)]) == len(q), "first sub-list moved", before, q, r, lst)
    check(j + len(r) <= len(lst) and all(a is b for a, b in zip(lst[j:j + len(r)], r)) and len(lst[j:j + len(r)]) == len(r),
          "second position does not hold the sub-list", before, q, r, j, lst)


def h_find_extend_w(l0: int, l1: int, l2: int, q0: int, q1: int, q2: int, r0: int, r1: int, nl: int, nq: int, nr: int) -> None:
    h_find_extend(l0, l1, l2, q0, q1, q2, r0, r1, nl, nq, nr)
    raise Fail("reached")


# ------------------------------------------------------------------------------------------------ simple lumps

def _vec(x, y, z):
    from srctools.math import Vec
    return Vec(x, y, z)


def h_cubemaps(s0: int, s1: int, n: int, cfg: str = "v20") -> None:
    import srctools.bsp as bm
    b = new_bsp(cfg)
    sizes = [s0, s1][:n]
    b.cubemaps = [bm.Cubemap(_vec(16.0 * k, -32.0, 48.0), sizes[k]) for k in range(n)]
    if not saved_or_rejected(b):
        return
    got = transfer(b, cfg).cubemaps
    check(len(got) == n, "cubemap count", n, len(got))
    for k in range(n):
        check(got[k].size == sizes[k], "cubemap size changed", sizes[k], got[k].size)
        check(got[k].origin == _vec(16.0 * k, -32.0, 48.0), "cubemap origin changed", got[k].origin)


def h_cubemaps_w(s0: int, s1: int, n: int, cfg: str = "v20") -> None:
    h_cubemaps(s0, s1, n, cfg)
    raise Fail("reached")



# ------------------------------------------------------------------------------------------------ static / detail props

def _leaf(bm, k):
    return bm.VisLeaf(mkflag(_real(bm.BrushContents), 0), k, 0, mkflag(_real(bm.VisLeafFlags), 0), _vec(-8.0, -8.0, -8.0), _vec(8.0, 8.0, 8.0 + k),
                      [], [], -1, bytes(24), 100 + k)


def _real(c):
    return getattr(c, '_real', c)


SPROP_VERSIONS = ["V4", "V5", "V6", "V7", "V8", "V9", "V10", "V11", "V_LIGHTMAP_v7", "V_LIGHTMAP_v10", "V_LIGHTMAP_MESA",
                  "V_CHAOS_V12", "V_CHAOS_V13"]
MODELS = ["models/props_c17/oildrum001.mdl", "models/props_junk/wood_crate001a.mdl", "models/a.mdl"]


def _sprop_support(ver):
    """Which StaticProp fields the on-disk structure of each version holds (StaticProp docstring / StaticPropVersion comments)."""
    vn = 7 if ver.is_lightmap else ver.version
    return {
        "fade_scale": vn >= 5, "dx": vn in (6, 7), "cpugpu": vn >= 8, "lightmap": ver.is_lightmap,
        "tint": vn >= 7 and not ver.is_sdk_2013, "xbox": vn >= 9 and not ver.is_lightmap,
        "scale3": ver.name == "V_CHAOS_V13", "scale1": vn >= 11 and ver.name != "V_CHAOS_V13",
    }


def _run_sprops(flags, solidity, skin, dxmin, dxmax, cpumin, cpumax, gpumin, gpumax, renderfx, lmx, lmy, xbox, m1, n, version, cfg):
    import srctools.bsp as bm
    from srctools.math import Angle
    SPV = bm.StaticPropVersion
    ver = SPV[version]
    sup = _sprop_support(ver)
    b = new_bsp(cfg, ver.version)
    leafs = [_leaf(bm, 0), _leaf(bm, 1), _leaf(bm, 2)]
    b.visleafs = leafs
    b.static_prop_version = ver
    SPF = _real(bm.StaticPropFlags)
    assume(0 <= flags)
    if not SYMBOLIC:
        try:
            SPF(flags)
        except ValueError:
            assume(False)
    else:
        assume(flags < 2 ** 64)
    xbox = cbool(xbox)
    props = []
    if n >= 1:
        props.append(bm.StaticProp(
            MODELS[0], _vec(64.0, -128.0, 16.5), Angle(0.0, 90.0, 22.5), _vec(1.5, 1.5, 1.5) if not sup["scale3"] else _vec(1.5, 0.5, 2.0),
            {leafs[2], leafs[0]}, solidity, mkflag(SPF, flags), skin, 128.0, 512.0, _vec(1.0, 2.0, 3.0), 0.75,
            dxmin, dxmax, cpumin, cpumax, gpumin, gpumax, _vec(10.0, 20.0, 30.0), renderfx, xbox, lmx, lmy))
    if n >= 2:
        props.append(bm.StaticProp(pick(MODELS, m1), _vec(0.0, 0.0, 0.0), visleafs={leafs[1]}))
    b.props = props
    if not saved_or_rejected(b):
        return False
    b2 = transfer(b, cfg, ver.version)
    if version == "V_LIGHTMAP_MESA" or n == 0:
        b2.static_prop_version = ver      # Mesa cannot be told from V11 by size; nothing to detect with no props
    got = b2.props
    check(len(got) == n, "prop count", n, len(got))
    if n:
        check(b2.static_prop_version is ver, "static prop version detected differently", version, b2.static_prop_version.name)
    leafs2 = b2.visleafs
    for k in range(n):
        w, g = props[k], got[k]
        check(g.model == w.model, "model", w.model, g.model)
        check(g.origin == w.origin and g.angles == w.angles and g.lighting == w.lighting, "placement", k)
        check(sorted(leafs2.index(x) for x in g.visleafs) == sorted(leafs.index(x) for x in w.visleafs), "visleaf set", k)
        check(g.solidity == w.solidity, "solidity", w.solidity, g.solidity)
        check(g.skin == w.skin, "skin", w.skin, g.skin)
        check(g.flags.value == w.flags.value, "flags silently changed", version, w.flags.value, g.flags.value)
        check(g.min_fade == w.min_fade and g.max_fade == w.max_fade, "fades")
        if sup["fade_scale"]:
            check(g.fade_scale == w.fade_scale, "fade_scale", w.fade_scale, g.fade_scale)
        if sup["dx"]:
            check(g.min_dx_level == w.min_dx_level and g.max_dx_level == w.max_dx_level, "dx levels", g.min_dx_level, g.max_dx_level)
        if sup["cpugpu"]:
            check((g.min_cpu_level, g.max_cpu_level, g.min_gpu_level, g.max_gpu_level) ==
                  (w.min_cpu_level, w.max_cpu_level, w.min_gpu_level, w.max_gpu_level), "cpu/gpu levels")
        if sup["lightmap"]:
            check(g.lightmap_x == w.lightmap_x and g.lightmap_y == w.lightmap_y, "lightmap size", g.lightmap_x, g.lightmap_y)
        if sup["tint"]:
            check(g.tint == w.tint and g.renderfx == w.renderfx, "tint/renderfx", g.tint, g.renderfx)
        if sup["xbox"]:
            check(g.disable_on_xbox == w.disable_on_xbox, "disable_on_xbox")
        if sup["scale3"]:
            check(g.scaling == w.scaling, "scaling", g.scaling)
        elif sup["scale1"]:
            check(g.scaling.x == w.scaling.x, "scaling", g.scaling)
    return True


def h_sprops(flags: int, solidity: int, skin: int, dxmin: int, dxmax: int, cpumin: int, cpumax: int, gpumin: int, gpumax: int,
             renderfx: int, lmx: int, lmy: int, xbox: bool, m1: int, n: int, version: str, cfg: str = "v21") -> None:
    _run_sprops(flags, solidity, skin, dxmin, dxmax, cpumin, cpumax, gpumin, gpumax, renderfx, lmx, lmy, xbox, m1, n, version, cfg)


def h_sprops_w(flags: int, solidity: int, skin: int, dxmin: int, dxmax: int, cpumin: int, cpumax: int, gpumin: int, gpumax: int,
               renderfx: int, lmx: int, lmy: int, xbox: bool, m1: int, n: int, version: str, cfg: str = "v21") -> None:
    if _run_sprops(flags, solidity, skin, dxmin, dxmax, cpumin, cpumax, gpumin, gpumax, renderfx, lmx, lmy, xbox, m1, n, version, cfg):
        if n == 0 or skin > 255:
            raise Fail("reached")



def _run_names(tail, k, nt, lump):
    """Model-name dictionary entries are fixed char[128] slots: a name of k + nt characters either comes back whole or is rejected."""
    import srctools.bsp as bm
    from srctools.math import Angle
    assume(len(tail) == nt)
    for ch in tail:
        assume(ch == 'a' or ch == 'b')          # struct's 's' code realises the bytes: two letters (enumeration)
    name = 'm' * k + tail
    b = new_bsp("v21", 9)
    if lump == "sprp":
        b.static_prop_version = bm.StaticPropVersion.V9
        b.visleafs = [_leaf(bm, 0)]
        b.props = [bm.StaticProp(name, _vec(1.0, 2.0, 3.0))]
    else:
        b.detail_props = [bm.DetailPropModel(_vec(1.0, 2.0, 3.5), Angle(0.0, 45.0, 0.0), bm.DetailPropOrientation.NORMAL, 1, (1, 2, 3, 4), (0, 0), 0, name)]
    if not saved_or_rejected(b):
        return False
    b2 = transfer(b, "v21", 9)
    got = b2.props[0].model if lump == "sprp" else b2.detail_props[0].model
    check(got == name, "model name silently changed", len(name), len(got))
    return True


def h_names(tail: str, k: int, nt: int, lump: str) -> None:
    _run_names(tail, k, nt, lump)


def h_names_w(tail: str, k: int, nt: int, lump: str) -> None:
    if _run_names(tail, k, nt, lump):
        raise Fail("reached")


# ------------------------------------------------------------------------------------------------ texture names

def _run_textures(t0, t1, t2, n0, n1, n2, n):
    names = [t0, t1, t2][:n]
    lens = [n0, n1, n2][:n]
    for nm, ln in zip(names, lens):
        assume(len(nm) == ln)
        for ch in nm:
            # str.encode / bytearray.find are C code (the name is realised there), so the alphabet is kept small:
            # two letters (prefix / suffix / substring relations), one surrogate-escaped byte (0xff), one non-ASCII
            # character (must be rejected by the writer).  NUL cannot occur in a C string: not a well-formed name.
            assume(ch == 'a' or ch == 'b' or ch == '\udcff' or ch == '\xe9')
    b = new_bsp("v20")
    b.textures = list(names)
    if not saved_or_rejected(b):
        return False
    got = transfer(b, "v20").textures
    check(len(got) == n, "texture count", n, len(got))
    for k in range(n):
        check(got[k] == names[k], "texture name re-read differently", k, names, got)
    return True


def h_textures(t0: str, t1: str, t2: str, n0: int, n1: int, n2: int, n: int) -> None:
    _run_textures(t0, t1, t2, n0, n1, n2, n)


def h_textures_w(t0: str, t1: str, t2: str, n0: int, n1: int, n2: int, n: int) -> None:
    if _run_textures(t0, t1, t2, n0, n1, n2, n) and n >= 2 and n1 >= 1 and t0.endswith(t1):
        raise Fail("reached")



# ------------------------------------------------------------------------------------------------ detail props

DKINDS = ["model", "sprite", "shape_tri", "shape_cross"]
SPR_A = ((-4.0, 8.0), (4.0, 0.0), (0.0, 0.0), (0.5, 1.0))
SPR_B = ((-2.0, 2.0), (2.0, 0.0), (0.5, 0.0), (1.0, 0.5))


def _mk_detail(bm, kind, orient_i, leaf, lr, styles, style_count, sway, shape_ang, shape_size, spr, mdl):
    from srctools.math import Angle
    orient = pick(list(bm.DetailPropOrientation), orient_i)
    base = (_vec(1.0, 2.0, 3.5), Angle(0.0, 45.0, 0.0), orient, leaf, (lr, 20, 30, 40), (styles, style_count), sway)
    if kind == "model":
        return bm.DetailPropModel(*base, mdl)
    if kind == "sprite":
        return bm.DetailPropSprite(*base, 1.5, *spr)
    return bm.DetailPropShape(*base, 1.5, *spr, kind == "shape_cross", shape_ang, shape_size)


def _run_detail(k0, k1, orient_i, leaf, lr, styles, style_count, sway, shape_ang, shape_size, same, n):
    import srctools.bsp as bm
    same = cbool(same)
    kinds = [pick(DKINDS, k0), pick(DKINDS, k1)][:n]
    props = []
    if n >= 1:
        props.append(_mk_detail(bm, kinds[0], orient_i, leaf, lr, styles, style_count, sway, shape_ang, shape_size, SPR_A, MODELS[0]))
    if n >= 2:
        props.append(_mk_detail(bm, kinds[1], 0, 3, 1, 2, 1, 0, 7, 9, SPR_A if same else SPR_B, MODELS[0] if same else MODELS[1]))
    b = new_bsp("v20")
    b.detail_props = props
    if not saved_or_rejected(b):
        return False
    got = transfer(b, "v20").detail_props
    check(len(got) == n, "detail prop count", n, len(got))
    for k in range(n):
        w, g = props[k], got[k]
        check(type(g) is type(w), "detail prop kind changed", kinds[k], type(g).__name__)
        check(g.origin == w.origin and g.angles == w.angles and g.orientation is w.orientation, "placement")
        check(g.leaf == w.leaf and tuple(g.lighting) == tuple(w.lighting) and tuple(g._light_styles) == tuple(w._light_styles) and
              g.sway_amount == w.sway_amount, "integer fields", k)
        if kinds[k] == "model":
            check(g.model == w.model, "model", g.model)
        else:
            check(g.sprite_scale == w.sprite_scale and tuple(g.dims_upper_left) == tuple(w.dims_upper_left) and
                  tuple(g.dims_lower_right) == tuple(w.dims_lower_right) and tuple(g.texcoord_upper_left) == tuple(w.texcoord_upper_left) and
                  tuple(g.texcoord_lower_right) == tuple(w.texcoord_lower_right), "sprite data", k)
        if kinds[k].startswith("shape"):
            check(g.is_cross == w.is_cross and g.shape_angle == w.shape_angle and g.shape_size == w.shape_size, "shape data",
                  (w.is_cross, w.shape_angle, w.shape_size), (g.is_cross, g.shape_angle, g.shape_size))
    return True


def h_detail(k0: int, k1: int, orient_i: int, leaf: int, lr: int, styles: int, style_count: int, sway: int, shape_ang: int,
             shape_size: int, same: bool, n: int) -> None:
    _run_detail(k0, k1, orient_i, leaf, lr, styles, style_count, sway, shape_ang, shape_size, same, n)


def h_detail_w(k0: int, k1: int, orient_i: int, leaf: int, lr: int, styles: int, style_count: int, sway: int, shape_ang: int,
               shape_size: int, same: bool, n: int) -> None:
    if _run_detail(k0, k1, orient_i, leaf, lr, styles, style_count, sway, shape_ang, shape_size, same, n) and k0 == 1:
        raise Fail("reached")


# ------------------------------------------------------------------------------------------------ texinfo / overlays / planes / primitives

MATS = ["TOOLS/TOOLSNODRAW", "concrete/floor01", "tools/toolsnodraw2"]


def _texinfo(bm, flags, w, h, mat, tdat=None):
    SF = _real(bm.SurfFlags)
    if tdat is None:
        tdat = bm.TexData(mat, _vec(0.25, 0.5, 0.75), w, h)
    return bm.TexInfo(_vec(1.0, 0.0, 0.0), 16.0, _vec(0.0, -1.0, 0.0), 32.0, _vec(0.0625, 0.0, 0.0), 0.5, _vec(0.0, 0.0625, 0.0), 1.5,
                      mkflag(SF, flags), tdat)


def _valid_flag(cls, v, bits):
    assume(0 <= v)
    if SYMBOLIC:
        assume(v < 2 ** bits)
    else:
        try:
            cls(v)
        except ValueError:
            assume(False)


def _cmp_texinfo(g, w, what):
    check(g.s_off == w.s_off and g.s_shift == w.s_shift and g.t_off == w.t_off and g.t_shift == w.t_shift and
          g.lightmap_s_off == w.lightmap_s_off and g.lightmap_s_shift == w.lightmap_s_shift and
          g.lightmap_t_off == w.lightmap_t_off and g.lightmap_t_shift == w.lightmap_t_shift, what + ": texture axes")
    check(g.flags.value == w.flags.value, what + ": surface flags", w.flags.value, g.flags.value)
    check(g.mat == w.mat and g._info.width == w._info.width and g._info.height == w._info.height and
          g._info.reflectivity == w._info.reflectivity, what + ": texdata", (w.mat, w._info.width, w._info.height), (g.mat, g._info.width, g._info.height))


def _run_texinfo(f0, f1, w0, h0, w1, h1, m1, share, n, cfg):
    import srctools.bsp as bm
    share = cbool(share)
    SF = _real(bm.SurfFlags)
    infos = []
    if n >= 1:
        _valid_flag(SF, f0, 32)
        infos.append(_texinfo(bm, f0, w0, h0, MATS[0]))
    if n >= 2:
        _valid_flag(SF, f1, 32)
        infos.append(_texinfo(bm, f1, w1, h1, pick(MATS, m1), infos[0]._info if share else None))
    b = new_bsp(cfg)
    b.textures = [MATS[1]]
    b.texinfo = infos
    if not saved_or_rejected(b):
        return False
    b2 = transfer(b, cfg)
    got = b2.texinfo
    check(len(got) == n, "texinfo count", n, len(got))
    for k in range(n):
        _cmp_texinfo(got[k], infos[k], f"texinfo {k}")
    if n >= 2:
        check((got[0]._info is got[1]._info) == (infos[0]._info is infos[1]._info), "texdata sharing changed")
    check(b2.textures[0] == MATS[1], "existing texture name moved", b2.textures)
    return True


def h_texinfo(f0: int, f1: int, w0: int, h0: int, w1: int, h1: int, m1: int, share: bool, n: int, cfg: str = "v20") -> None:
    _run_texinfo(f0, f1, w0, h0, w1, h1, m1, share, n, cfg)


def h_texinfo_w(f0: int, f1: int, w0: int, h0: int, w1: int, h1: int, m1: int, share: bool, n: int, cfg: str = "v20") -> None:
    if _run_texinfo(f0, f1, w0, h0, w1, h1, m1, share, n, cfg) and n == 2 and m1 == 0 and not share:
        raise Fail("reached")


def _run_overlay(oid, ro, fa, fb, cpu0, cpu1, gpu0, gpu1, nf, n, cfg):
    import srctools.bsp as bm
    b = new_bsp(cfg)
    ti = _texinfo(bm, 0x80, 64, 128, MATS[0])
    ti2 = _texinfo(bm, 0x0, 32, 32, MATS[1])
    b.texinfo = [ti2]
    faces = [fa, fb][:nf]
    overs = []
    # attrs' in_(range(..)) validators realise their argument (C range.__contains__): these four are chosen by index
    ro = pick([0, 1, 2, 3, 4, -1], ro)
    cpu0 = pick([0, 1, 254, 255, -1], cpu0)
    cpu1, gpu0, gpu1 = 254, 7, 200
    try:
        if n >= 1:
            overs.append(bm.Overlay(oid, _vec(1.0, 2.0, 3.0), _vec(0.0, 0.0, 1.0), ti, nf, list(faces), ro, 0.0, 1.0, 0.25, 0.75,
                                    fade_min_sq=-1.0, fade_max_sq=4096.0, min_cpu=cpu0, max_cpu=cpu1, min_gpu=gpu0, max_gpu=gpu1))
        if n >= 2:
            overs.append(bm.Overlay(7, _vec(0.0, 0.0, 0.0), _vec(1.0, 0.0, 0.0), ti2, 1, [5]))
    except ERRORS:
        return False          # attrs validators reject the value at construction: explicit
    b.overlays = overs
    if not saved_or_rejected(b):
        return False
    b2 = transfer(b, cfg)
    got = b2.overlays
    check(len(got) == n, "overlay count", n, len(got))
    for k in range(n):
        w, g = overs[k], got[k]
        check(g.id == w.id and g.render_order == w.render_order and list(g.faces) == list(w.faces) and g.face_count == len(w.faces),
              "overlay ints", (w.id, w.render_order, w.faces), (g.id, g.render_order, g.faces))
        check((g.min_cpu, g.max_cpu, g.min_gpu, g.max_gpu) == (w.min_cpu, w.max_cpu, w.min_gpu, w.max_gpu), "system levels")
        check((g.u_min, g.u_max, g.v_min, g.v_max, g.fade_min_sq, g.fade_max_sq) == (w.u_min, w.u_max, w.v_min, w.v_max, w.fade_min_sq, w.fade_max_sq), "floats")
        check(g.origin == w.origin and g.normal == w.normal and g.uv1 == w.uv1 and g.uv2 == w.uv2 and g.uv3 == w.uv3 and g.uv4 == w.uv4, "vectors")
        _cmp_texinfo(g.texture, w.texture, f"overlay {k} texture")
    _cmp_texinfo(b2.texinfo[0], ti2, "pre-existing texinfo")
    return True


def h_overlay(oid: int, ro: int, fa: int, fb: int, cpu0: int, cpu1: int, gpu0: int, gpu1: int, nf: int, n: int, cfg: str = "v20") -> None:
    _run_overlay(oid, ro, fa, fb, cpu0, cpu1, gpu0, gpu1, nf, n, cfg)


def h_overlay_w(oid: int, ro: int, fa: int, fb: int, cpu0: int, cpu1: int, gpu0: int, gpu1: int, nf: int, n: int, cfg: str = "v20") -> None:
    if _run_overlay(oid, ro, fa, fb, cpu0, cpu1, gpu0, gpu1, nf, n, cfg) and ro == 3:
        raise Fail("reached")


def _run_geom(pt0, pt1, strip, i0, i1, i2, ni, cfg):
    """planes (explicit type member by index), vertexes, primitives (index list of symbolic ints)."""
    import srctools.bsp as bm
    b = new_bsp(cfg)
    types = list(bm.PlaneType)
    planes = [bm.Plane(_vec(0.0, 0.0, 1.0), 64.0, pick(types, pt0)), bm.Plane(_vec(0.6, 0.0, 0.8), -12.5, pick(types, pt1))]
    verts = [_vec(0.0, 0.0, 0.0), _vec(1.5, -2.25, 1024.0), _vec(-16384.0, 0.125, 3.0)]
    strip = cbool(strip)
    prims = [bm.Primitive(strip, [i0, i1, i2][:ni], [verts[1].copy(), verts[2].copy()]), bm.Primitive(False, [], [])]
    b.planes = planes
    b.vertexes = verts
    b.primitives = prims
    if not saved_or_rejected(b):
        return False
    b2 = transfer(b, cfg)
    gp = b2.planes
    check(len(gp) == 2 and all(g.normal == w.normal and g.dist == w.dist and g.type is w.type for g, w in zip(gp, planes)), "planes", gp)
    check(b2.vertexes == verts, "vertexes", b2.vertexes)
    gq = b2.primitives
    if cfg == "vitamin":
        check(gq == [], "vitamin has no primitives")
        return True
    check(len(gq) == 2, "primitive count", len(gq))
    check(bool(gq[0].is_tristrip) == strip and list(gq[0].indexed_verts) == [i0, i1, i2][:ni] and gq[0].verts == prims[0].verts, "primitive 0",
          gq[0])
    check(not gq[1].is_tristrip and gq[1].indexed_verts == [] and gq[1].verts == [], "primitive 1", gq[1])
    return True


def h_geom(pt0: int, pt1: int, strip: bool, i0: int, i1: int, i2: int, ni: int, cfg: str = "v20") -> None:
    _run_geom(pt0, pt1, strip, i0, i1, i2, ni, cfg)


def h_geom_w(pt0: int, pt1: int, strip: bool, i0: int, i1: int, i2: int, ni: int, cfg: str = "v20") -> None:
    if _run_geom(pt0, pt1, strip, i0, i1, i2, ni, cfg) and pt0 == 5:
        raise Fail("reached")


# ------------------------------------------------------------------------------------------------ brushes, leafs, nodes

def _run_tree(a0, l0, a1, l1, contents, disp, cluster, area, lflags, water, wdist, area_ind, ch, cfg):
    """Two brushes whose side lists are windows [a:a+l] of one pool of 3 BrushSide objects (shared / overlapping /
    nested sub-lists), two leafs referencing them, a two-node tree.  Everything is compared through indices into the pools."""
    import srctools.bsp as bm
    BC, VF = _real(bm.BrushContents), _real(bm.VisLeafFlags)
    _valid_flag(BC, contents, 32)
    _valid_flag(VF, lflags, 7)
    assume(0 <= a0 and 0 <= l0 and a0 + l0 <= 3 and 0 <= a1 and 0 <= l1 and a1 + l1 <= 3)
    a0, l0, a1, l1 = pick([0, 1, 2, 3], a0), pick([0, 1, 2, 3], l0), pick([0, 1, 2, 3], a1), pick([0, 1, 2, 3], l1)
    b = new_bsp(cfg)
    planes = [bm.Plane(_vec(0.0, 0.0, 1.0), 64.0), bm.Plane(_vec(1.0, 0.0, 0.0), 8.0), bm.Plane(_vec(0.0, 1.0, 0.0), -8.0)]
    ti = _texinfo(bm, 0, 64, 64, MATS[0])
    pool = [bm.BrushSide(planes[k], ti, disp if k == 0 else 0, k == 1, 0) for k in range(3)]
    brushes = [bm.Brush(mkflag(BC, contents), pool[a0:a0 + l0]), bm.Brush(mkflag(BC, 1), pool[a1:a1 + l1])]
    lo = _vec(1.0, 2.0, 3.0) if cfg == "vitamin" else _vec(-8.0, -16.0, -24.0)     # VitaminSource stores leaf bounds unsigned
    leafs = [bm.VisLeaf(mkflag(BC, 1), cluster, area, mkflag(VF, lflags), lo, _vec(8.0, 16.0, 24.0), [], [brushes[1], brushes[0]],
                        water, bytes(range(24)), wdist),
             bm.VisLeaf(mkflag(BC, 0), 2, 1, mkflag(VF, 1), _vec(0.0, 0.0, 0.0), _vec(32.0, 32.0, 32.0), [], [brushes[0]], -1, bytes(24), 65535)]
    n0 = bm.VisTree(planes[0], _vec(-64.0, -64.0, -64.0), _vec(64.0, 64.0, 64.0), [], area_ind)
    n1 = bm.VisTree(planes[1], _vec(-32.0, -32.0, -32.0), _vec(32.0, 32.0, 32.0), [], 0)
    ch = pick([0, 1, 2], ch)
    n0.child_neg = n1
    n0.child_pos = leafs[0] if ch != 2 else leafs[1]
    n1.child_neg = leafs[1] if ch != 1 else leafs[0]
    n1.child_pos = leafs[0]
    b.planes = planes
    b.texinfo = [ti]
    b.brushes = brushes
    b.visleafs = leafs
    b.nodes = [n0] if ch == 0 else [n0, n1]      # ch == 0: the child node is not in the list yet (add_node appends it)
    if not saved_or_rejected(b):
        return False
    b2 = transfer(b, cfg)
    gb, gl, gn, gp = b2.brushes, b2.visleafs, b2.nodes, b2.planes
    check(len(gb) == 2 and len(gl) == 2 and len(gn) == 2, "counts", len(gb), len(gl), len(gn))
    want_sides = [pool[a0:a0 + l0], pool[a1:a1 + l1]]
    for k in range(2):
        check(gb[k].contents.value == brushes[k].contents.value, "brush contents", k, gb[k].contents.value)
        check(len(gb[k].sides) == len(want_sides[k]), "brush side count changed", k, (a0, l0, a1, l1), len(gb[k].sides))
        for g, w in zip(gb[k].sides, want_sides[k]):
            check(gp.index(g.plane) == planes.index(w.plane) and g._dispinfo == w._dispinfo and bool(g.is_bevel_plane) == w.is_bevel_plane and
                  g._unknown_bevel_bits == w._unknown_bevel_bits, "brush side changed", k, (a0, l0, a1, l1))
            _cmp_texinfo(g.texinfo, w.texinfo, "side texinfo")
    for k in range(2):
        w, g = leafs[k], gl[k]
        check(g.contents.value == w.contents.value and g.cluster_id == w.cluster_id and g.area == w.area and g.flags.value == w.flags.value and
              g.water_id == w.water_id and g.min_water_dist == w.min_water_dist, "leaf ints", k,
              (w.cluster_id, w.area, w.flags.value, w.water_id, w.min_water_dist), (g.cluster_id, g.area, g.flags.value, g.water_id, g.min_water_dist))
        check(g.mins == w.mins and g.maxes == w.maxes, "leaf bounds", k)
        check([gb.index(x) for x in g.brushes] == [brushes.index(x) for x in w.brushes] and g.faces == [], "leaf brush refs", k)
        if cfg == "v19":
            check(g._ambient == w._ambient, "ambient block", k)
    nodes = [n0, n1]

    def ref(x, ns, ls):
        return ("leaf", ls.index(x)) if isinstance(x, bm.VisLeaf) else ("node", ns.index(x))
    for k in range(2):
        w, g = nodes[k], gn[k]
        check(gp.index(g.plane) == planes.index(w.plane) and g.mins == w.mins and g.maxes == w.maxes and g.area_ind == w.area_ind and g.faces == [],
              "node fields", k, g.area_ind)
        check(ref(g.child_neg, gn, gl) == ref(w.child_neg, nodes, leafs) and ref(g.child_pos, gn, gl) == ref(w.child_pos, nodes, leafs),
              "node children", k)
    return True


def h_tree(a0: int, l0: int, a1: int, l1: int, contents: int, disp: int, cluster: int, area: int, lflags: int, water: int, wdist: int,
           area_ind: int, ch: int, cfg: str = "v20") -> None:
    _run_tree(a0, l0, a1, l1, contents, disp, cluster, area, lflags, water, wdist, area_ind, ch, cfg)


def h_tree_w(a0: int, l0: int, a1: int, l1: int, contents: int, disp: int, cluster: int, area: int, lflags: int, water: int, wdist: int,
             area_ind: int, ch: int, cfg: str = "v20") -> None:
    if _run_tree(a0, l0, a1, l1, contents, disp, cluster, area, lflags, water, wdist, area_ind, ch, cfg) and l0 == 2 and l1 == 1:
        raise Fail("reached")


# ------------------------------------------------------------------------------------------------ visibility

def _run_vis(v0: bytes, a0: bytes, v1: bytes, a1: bytes, n):
    import srctools.bsp as bm
    pv, pa = [v0, v1][:n], [a0, a1][:n]
    for x in pv + pa:
        assume(len(x) == 1)          # ceil(n / 8) bytes per cluster row for n <= 8
    b = new_bsp("v20")
    b.visibility = bm.Visibility([bytearray(x) for x in pv], [bytearray(x) for x in pa]) if n >= 0 else None
    if not saved_or_rejected(b):
        return False
    got = transfer(b, "v20").visibility
    check(got is not None and len(got.potentially_visible) == n and len(got.potentially_audible) == n, "cluster count")
    for k in range(n):
        check(bytes(got.potentially_visible[k]) == bytes(pv[k]), "PVS row changed", k, list(pv[k]), list(got.potentially_visible[k]))
        check(bytes(got.potentially_audible[k]) == bytes(pa[k]), "PAS row changed", k, list(pa[k]), list(got.potentially_audible[k]))
    return True


def h_vis(v0: bytes, a0: bytes, v1: bytes, a1: bytes, n: int) -> None:
    _run_vis(v0, a0, v1, a1, n)


def h_vis_w(v0: bytes, a0: bytes, v1: bytes, a1: bytes, n: int) -> None:
    if _run_vis(v0, a0, v1, a1, n) and n >= 1 and v0[0] == 0:
        raise Fail("reached")



# ------------------------------------------------------------------------------------------------ entity lump

KEY_ALPHA = ('a', 'B', ' ', ',', '\n', '\t', '/', '\udc80', '\xe9')


def _run_ents(key, val, par, nk, nv, npar, times, comma, n_out):
    """worldspawn + one entity carrying a symbolic key/value pair and one output (either separator) with a symbolic
    parameter.  Key, value and parameter characters come from KEY_ALPHA (Entity hashes keys; str.encode is C code).
    Quote / backslash in a KEY are not escaped by the writer and 0x1b in a value is the output separator: both are
    outside the well-formed values of this obligation (see report)."""
    import srctools.bsp as bm
    from srctools.vmf import VMF, Entity, Output
    assume(len(key) == nk and len(val) == nv and len(par) == npar)
    for txt in (key, val, par):
        for chx_ in txt:
            ok = False
            for a in KEY_ALPHA:
                if chx_ == a:
                    ok = True
            assume(ok)
    comma = cbool(comma)
    if comma:
        for chx_ in par:
            assume(chx_ != ',')              # the old format cannot carry commas in a parameter (documented in Output.parse)
    vmf = VMF()
    vmf.spawn['classname'] = 'worldspawn'
    vmf.spawn['mapversion'] = '17'
    ent = Entity(vmf, {'classname': 'func_door', 'origin': '1 2 3'})
    if nk:
        assume(key.casefold() != 'classname' and key.casefold() != 'origin')
        ent[key] = val
    if n_out:
        ent.add_out(Output('OnOpen', 'tgt_1', 'Trigger', par, 1.5, times=times, comma_sep=comma))
    vmf.add_ent(ent)
    b = new_bsp("v21")
    b.out_comma_sep = comma if n_out else None
    b.ents = vmf
    if not saved_or_rejected(b):
        return False
    try:
        got = transfer(b, "v21").ents
    except UnicodeError:
        raise
    check(got.spawn['classname'] == 'worldspawn' and got.spawn['mapversion'] == '17' and got.map_ver == 17, "worldspawn")
    ents = list(got.entities)
    check(len(ents) == 1, "entity count", len(ents))
    g = ents[0]
    want = {'classname': 'func_door', 'origin': '1 2 3'}
    if nk:
        want[key] = val
    gd = {k: v for k, v in g.items()}
    check(gd == want, "keyvalues changed", want, gd)
    check(len(g.outputs) == n_out, "output count", len(g.outputs))
    if n_out:
        o = g.outputs[0]
        check((o.output, o.target, o.input, o.params, o.delay, o.times, o.comma_sep, o.inst_in, o.inst_out) ==
              ('OnOpen', 'tgt_1', 'Trigger', par, 1.5, times, comma, None, None), "output changed",
              (o.output, o.target, o.input, o.params, o.delay, o.times, o.comma_sep))
    return True


def h_ents(key: str, val: str, par: str, nk: int, nv: int, npar: int, times: int, comma: bool, n_out: int) -> None:
    _run_ents(key, val, par, nk, nv, npar, times, comma, n_out)


def h_ents_w(key: str, val: str, par: str, nk: int, nv: int, npar: int, times: int, comma: bool, n_out: int) -> None:
    if _run_ents(key, val, par, nk, nv, npar, times, comma, n_out) and (not n_out or comma):
        raise Fail("reached")


# ================================================================================================ extension
# faces / original faces / HDR faces (+ surfedges, edges, FACEIDS), brush models (+ physics), water-leaf info, entity lump

WIN3 = [(a, l) for a in range(4) for l in range(4) if a + l <= 3]      # the 10 windows [a:a+l] of a 3-element pool
WIN2 = [(a, l) for a in range(3) for l in range(3) if a + l <= 2]      # the 6 windows of a 2-element pool
LSTYLES = [b'\x00\xff\xff\xff', b'\x01\x02\x03\x04']                     # char[4]: exactly four bytes (well-formed)
FACE_INTS = {"disp": -1, "fog": 3, "lmoff": 1024, "lmx": -3, "lmy": 4, "lsx": 8, "lsy": 9, "smooth": 5, "hid": 1234, "vflags": 1,
             "side": True, "onnode": False, "dyn": True}
FACE_SHAPE = {"w1": 4, "og": 0, "tn": False, "pre": True, "p0": 1, "p1": 0, "ls": 0}


def _ekey(e):
    a, b = e.a, e.b
    return (a.x, a.y, a.z, b.x, b.y, b.z)


def _same_edge_structure(want, got, what):
    """Edge references compared by value AND by aliasing: the same Edge object twice, and an edge next to its own
    reversed twin (RevEdge), must come back as the same relations."""
    check(len(want) == len(got), what + ": number of edge references", len(want), len(got))
    for i in range(len(want)):
        check(_ekey(want[i]) == _ekey(got[i]), what + ": edge end points changed", i, _ekey(want[i]), _ekey(got[i]))
    for i in range(len(want)):
        for j in range(len(want)):
            check((want[i] is want[j]) == (got[i] is got[j]), what + ": edge sharing changed", i, j)
            check((want[i].opposite is want[j]) == (got[i].opposite is got[j]), what + ": edge / reversed-edge pairing changed", i, j)


def _run_faces(disp, fog, lmoff, lmx, lmy, lsx, lsy, smooth, hid, vflags, side, onnode, dyn,
               w1, og, tn, pre, p0, p1, ls, w0, n, hdr, cfg):
    """faces [F0, F1][:n] (+ a parallel HDR list when `hdr`) over one orig-face list [O0]; the edge lists are windows of one
    surfedge pool [E0, E1, rev(E0)], the primitive lists windows of a pool of two.  F0 carries the symbolic integer / bool
    fields, F1 the symbolic aliasing choices: its window `w1`, the original faces `og` (0: O0 shared by F0 and F1, 1: F1
    has an original face that is not in the orig list yet, 2: F1 has none, 3: F0 has none), `tn` (F1 without texinfo),
    `pre` (surfedges assigned beforehand or built by the writer)."""
    import srctools.bsp as bm
    side, onnode, dyn, tn, pre = cbool(side), cbool(onnode), cbool(dyn), cbool(tn), cbool(pre)
    vit = cfg == "vitamin"
    (a0, l0), (a1, l1) = WIN3[w0], pick(WIN3, w1)
    (pa0, pl0), (pa1, pl1) = pick(WIN2, p0), pick(WIN2, p1)
    og = pick([0, 1, 2, 3], og)
    styles = pick(LSTYLES, ls)
    b = new_bsp(cfg)
    planes = [bm.Plane(_vec(0.0, 0.0, 1.0), 64.0), bm.Plane(_vec(1.0, 0.0, 0.0), 8.0)]
    verts = [_vec(0.0, 0.0, 0.0), _vec(0.0, 0.0, 64.0), _vec(128.0, 0.0, 64.0), _vec(128.0, 128.0, 64.0)]
    e0, e1 = bm.Edge(verts[1], verts[2]), bm.Edge(verts[2], verts[3])
    epool = [e0, e1, e0.opposite]
    ppool = [bm.Primitive(False, [1, 2, 3], [_vec(64.0, 64.0, 64.0)]), bm.Primitive(True, [], [])]
    ti, ti2 = _texinfo(bm, 0x80, 64, 128, MATS[0]), _texinfo(bm, 0, 32, 32, MATS[1])
    b.planes = planes
    b.vertexes = list(verts)
    b.texinfo = [ti2, ti]
    if not vit:
        b.primitives = list(ppool)
    if pre:
        b.surfedges = list(epool)

    def face(plane, edges, tex, orig, prims, ints, bools, sty, hammer):
        return bm.Face(plane, bools[0], bools[1], edges, tex, ints[0], ints[1], sty, ints[2], 16384.0, (ints[3], ints[4]), (ints[5], ints[6]),
                       orig, prims, bools[2], ints[7], hammer, ints[8])
    ints0 = (disp, fog, lmoff, lmx, lmy, lsx, lsy, smooth, vflags)
    ints1 = (-1, 0, 2048, 0, 1, 2, 3, 0xffffffff, 255)
    o0 = face(planes[0], epool[0:2], ti2, None, [], (-1, 0, 0, 0, 0, 4, 4, 0, 0), (True, False, True), LSTYLES[0], None)
    o1 = face(planes[1], epool[1:3], ti2, None, [], (7, 0, 0, 0, 0, 2, 2, 0, 0), (False, False, True), LSTYLES[0], None)
    origs = [o0]

    def build():
        fs = []
        if n >= 1:
            fs.append(face(planes[0], epool[a0:a0 + l0], ti, None if vit or og == 3 else o0, [] if vit else ppool[pa0:pa0 + pl0], ints0,
                           (side, onnode, dyn), styles, hid))
        if n >= 2:
            fs.append(face(planes[1], epool[a1:a1 + l1], None if tn else ti2, None if vit else (o0, o1, None, o0)[og],
                           [] if vit else ppool[pa1:pa1 + pl1], ints1, (False, True, False), LSTYLES[1], 77))
        return fs
    faces = build()
    hfaces = build() if hdr and not vit else []
    b.faces = list(faces)
    if not vit:
        b.orig_faces = list(origs)
        if hdr:
            b.hdr_faces = list(hfaces)
    if not saved_or_rejected(b):
        return False
    b2 = transfer(b, cfg)
    gf = b2.faces
    gh, go = b2.hdr_faces, b2.orig_faces
    check(isinstance(gf, list) and isinstance(gh, list) and isinstance(go, list), "a face view is not a list", type(gh).__name__, type(go).__name__)
    gp, gt, gq, gs = b2.planes, b2.texinfo, b2.primitives, b2.surfedges
    check(len(gf) == n and len(gh) == len(hfaces), "face count", n, len(gf), len(gh))
    want_origs = [] if vit else (origs + [o1] if n >= 2 and og == 1 else origs)
    check(len(go) == len(want_origs), "original face count", len(want_origs), len(go))
    for lst_w, lst_g, what in ((faces, gf, "faces"), (hfaces, gh, "hdr_faces")):
        for k in range(len(lst_w)):
            w, g = lst_w[k], lst_g[k]
            check(gp.index(g.plane) == planes.index(w.plane), what + ": plane", k)
            check(len(g.edges) == len(w.edges), what + ": edge count", k, len(w.edges), len(g.edges))
            check((g._dispinfo_ind, tuple(g.lightmap_mins), tuple(g.lightmap_size)) == (w._dispinfo_ind, tuple(w.lightmap_mins), tuple(w.lightmap_size)),
                  what + ": displacement index / lightmap rectangle", k, (g._dispinfo_ind, g.lightmap_mins, g.lightmap_size))
            if w.texinfo is None:
                check(g.texinfo is None, what + ": a face without texinfo got one", k)
            else:
                check(g.texinfo is not None, what + ": texinfo lost", k)
                _cmp_texinfo(g.texinfo, w.texinfo, f"{what}[{k}] texinfo")
            if vit:
                check(g.vitamin_flags == w.vitamin_flags, what + ": vitamin flags", w.vitamin_flags, g.vitamin_flags)
                continue
            check((bool(g.same_dir_as_plane), bool(g.on_node), bool(g.dynamic_shadows)) == (w.same_dir_as_plane, w.on_node, w.dynamic_shadows),
                  what + ": bool fields", k, (g.same_dir_as_plane, g.on_node, g.dynamic_shadows))
            check((g.surf_fog_volume_id, g._lightmap_off, g.smoothing_groups) == (w.surf_fog_volume_id, w._lightmap_off, w.smoothing_groups),
                  what + ": fog volume / light offset / smoothing groups", k, (g.surf_fog_volume_id, g._lightmap_off, g.smoothing_groups))
            check(bytes(g.light_styles) == w.light_styles and g.area == w.area, what + ": light styles / area", k, g.light_styles)
            check(len(g.primitives) == len(w.primitives) and all(gq.index(x) == ppool.index(y) for x, y in zip(g.primitives, w.primitives)),
                  what + ": primitive list", k, len(g.primitives))
            if w.orig_face is None:
                check(g.orig_face is None, what + ": a face without original face got one", k)
            else:
                check(g.orig_face is not None and go.index(g.orig_face) == want_origs.index(w.orig_face), what + ": original face reference", k)
                check((g.hammer_id or 0) == (w.hammer_id or 0), what + ": hammer id", k, w.hammer_id, g.hammer_id)
    for k in range(len(want_origs)):
        w, g = want_origs[k], go[k]
        check(gp.index(g.plane) == planes.index(w.plane) and g._dispinfo_ind == w._dispinfo_ind and tuple(g.lightmap_size) == tuple(w.lightmap_size) and
              bool(g.same_dir_as_plane) == w.same_dir_as_plane and g.orig_face is None, "original face fields", k)
    flat_w = [e for lst in (faces, hfaces, want_origs) for f in lst for e in f.edges]
    flat_g = [e for lst in (gf, gh, go) for f in lst for e in f.edges]
    if pre:
        check(len(gs) >= 3, "assigned surfedges lost", len(gs))
        flat_w, flat_g = flat_w + epool, flat_g + list(gs[:3])
    _same_edge_structure(flat_w, flat_g, "edges")
    check(len(b2.vertexes) >= 4 and b2.vertexes[:4] == verts, "vertexes moved", b2.vertexes)
    _cmp_texinfo(gt[0], ti2, "pre-existing texinfo 0")
    _cmp_texinfo(gt[1], ti, "pre-existing texinfo 1")
    return True


def h_faces(disp: int, fog: int, lmoff: int, lmx: int, lmy: int, lsx: int, lsy: int, smooth: int, hid: int, vflags: int,
            side: bool, onnode: bool, dyn: bool, w1: int, og: int, tn: bool, pre: bool, p0: int, p1: int, ls: int,
            w0: int = 3, n: int = 2, hdr: bool = False, cfg: str = "v20") -> None:
    _run_faces(disp, fog, lmoff, lmx, lmy, lsx, lsy, smooth, hid, vflags, side, onnode, dyn, w1, og, tn, pre, p0, p1, ls, w0, n, hdr, cfg)


def h_faces_w(disp: int, fog: int, lmoff: int, lmx: int, lmy: int, lsx: int, lsy: int, smooth: int, hid: int, vflags: int,
              side: bool, onnode: bool, dyn: bool, w1: int, og: int, tn: bool, pre: bool, p0: int, p1: int, ls: int,
              w0: int = 3, n: int = 2, hdr: bool = False, cfg: str = "v20") -> None:
    if _run_faces(disp, fog, lmoff, lmx, lmy, lsx, lsy, smooth, hid, vflags, side, onnode, dyn, w1, og, tn, pre, p0, p1, ls, w0, n, hdr, cfg):
        raise Fail("reached")


# ------------------------------------------------------------------------------------------------ water-leaf info

def _run_water(t0, t1, f1, w1, h1, n, cfg):
    """LEAFWATERDATA entries whose surface texinfo is chosen by symbolic index: 0 = a texinfo that is already in the
    texinfo list, 1 = a new one (appended by the writer, with symbolic flags / size), 2 = another new one."""
    import srctools.bsp as bm
    SF = _real(bm.SurfFlags)
    _valid_flag(SF, f1, 32)
    b = new_bsp(cfg)
    tis = [_texinfo(bm, 0x80, 64, 128, MATS[0]), _texinfo(bm, f1, w1, h1, MATS[1]), _texinfo(bm, 0x10, 16, 16, MATS[2])]
    b.texinfo = [tis[0]]
    ch = [pick([0, 1, 2], t0), pick([0, 1, 2], t1)][:n]
    infos = [bm.LeafWaterInfo(64.0 + 8.0 * k, -32.5, tis[ch[k]]) for k in range(n)]
    b.water_leaf_info = list(infos)
    if not saved_or_rejected(b):
        return False
    b2 = transfer(b, cfg)
    got = b2.water_leaf_info
    gt = b2.texinfo
    check(isinstance(got, list) and len(got) == n, "water info count", n)
    order = []                   # expected texinfo table: the assigned one, then first uses in order
    for c in [0] + ch:
        if c not in order:
            order.append(c)
    check(len(gt) == len(order), "texinfo count", len(order), len(gt))
    for k in range(n):
        w, g = infos[k], got[k]
        check(g.surface_z == w.surface_z and g.min_z == w.min_z, "water heights", k, g.surface_z, g.min_z)
        check(gt.index(g.surface_texinfo) == order.index(ch[k]), "surface texinfo reference", k, ch)
        _cmp_texinfo(g.surface_texinfo, w.surface_texinfo, f"water info {k} texinfo")
    if n == 2:
        check((got[0].surface_texinfo is got[1].surface_texinfo) == (ch[0] == ch[1]), "texinfo sharing changed", ch)
    _cmp_texinfo(gt[0], tis[0], "pre-existing texinfo")
    return True


def h_water(t0: int, t1: int, f1: int, w1: int, h1: int, n: int, cfg: str = "v20") -> None:
    _run_water(t0, t1, f1, w1, h1, n, cfg)


def h_water_w(t0: int, t1: int, f1: int, w1: int, h1: int, n: int, cfg: str = "v20") -> None:
    if _run_water(t0, t1, f1, w1, h1, n, cfg) and (n == 0 or t0 == 1):
        raise Fail("reached")


# ------------------------------------------------------------------------------------------------ brush models + physics

def _phys_kvs(k):
    from srctools.keyvalues import Keyvalues
    if k == 0:
        return None
    if k == 1:
        return Keyvalues.root()
    return Keyvalues.root(Keyvalues('solid', [Keyvalues('index', '0'), Keyvalues('mass', '5.5'), Keyvalues('surfaceprop', 'metal grate')]),
                          Keyvalues('materialtable', [Keyvalues('default', '1')]))


def _kv_text(kv):
    return '' if kv is None else ''.join(kv.serialise())


def _run_bmodels(s0: bytes, s1: bytes, n0, n1, ns, kvi, fw, nd, share, swap, n):
    """worldspawn model M0 (physics: `ns` solids of n0 / n1 symbolic bytes, key-values block by index) and n brush
    entities; M1's face list is the window `fw` of a pool of 3 faces (2 of them in the face list, the third appended by the
    writer), its head node `nd` is the world's / another listed node / a node the writer has to append; the second entity
    shares M1 or has its own model; `swap` reverses the insertion order of the entities in the mapping."""
    import srctools.bsp as bm
    from weakref import WeakKeyDictionary
    from srctools.vmf import VMF, Entity
    assume(len(s0) == n0 and len(s1) == n1)
    share, swap = cbool(share), cbool(swap)
    kvi = pick([0, 1, 2], kvi)
    fa, fl = pick(WIN3, fw)
    nd = pick([0, 1, 2], nd)
    b = new_bsp("v20")
    planes = [bm.Plane(_vec(0.0, 0.0, 1.0), 64.0), bm.Plane(_vec(1.0, 0.0, 0.0), 8.0)]
    BC, VF = _real(bm.BrushContents), _real(bm.VisLeafFlags)
    leafs = [bm.VisLeaf(mkflag(BC, 1), -1, 0, mkflag(VF, 0), _vec(-8.0, -8.0, 0.0), _vec(136.0, 136.0, 64.0), [], [], -1, bytes(24), 65535),
             bm.VisLeaf(mkflag(BC, 0), 0, 1, mkflag(VF, 2), _vec(-8.0, -8.0, 64.0), _vec(136.0, 136.0, 72.0), [], [], -1, bytes(24), 3)]
    nodes = [bm.VisTree(planes[0], _vec(-8.0, -8.0, 0.0), _vec(136.0, 136.0, 72.0), [], 0),
             bm.VisTree(planes[1], _vec(-4.0, -4.0, 0.0), _vec(4.0, 4.0, 8.0), [], 0),
             bm.VisTree(planes[1], _vec(-2.0, -2.0, 0.0), _vec(2.0, 2.0, 8.0), [], 0)]
    for k, nod in enumerate(nodes):
        nod.child_neg, nod.child_pos = leafs[k % 2], leafs[(k + 1) % 2]
    ti = _texinfo(bm, 0, 64, 64, MATS[0])
    orig = bm.Face(planes[0], True, False, [], ti, -1, 0, LSTYLES[0], 0, 512.0, (0, 0), (9, 9), None, [], True, 0, None, 0)
    fpool = [bm.Face(planes[k % 2], True, False, [], ti, -1, 0, LSTYLES[0], 0, 32.0 * (k + 1), (0, 0), (k, k), orig, [], True, 0, 40 + k, 0) for k in range(3)]
    vmf = VMF()
    vmf.spawn['classname'] = 'worldspawn'
    ents = [Entity(vmf, {'classname': 'func_brush', 'targetname': f'br{k}'}) for k in range(n)]
    for e in ents:
        vmf.add_ent(e)
    solids = [s0, s1][:ns]
    m0 = bm.BModel(_vec(-8.0, -8.0, 0.0), _vec(136.0, 136.0, 72.0), _vec(0.0, 0.0, 0.0), nodes[0], fpool[0:1], _phys_kvs(kvi), list(solids))
    m1 = bm.BModel(_vec(-4.0, -4.0, 0.0), _vec(4.0, 4.0, 8.0), _vec(1.0, 2.0, 3.0), nodes[nd], fpool[fa:fa + fl])
    m2 = bm.BModel(_vec(-2.0, -2.0, 0.0), _vec(2.0, 2.0, 8.0), _vec(0.0, 0.0, 0.5), nodes[1], fpool[1:2], _phys_kvs(2), [b'\x01\x02\x03'])
    models = [m1, m1 if share else m2][:n]
    mapping = WeakKeyDictionary()
    mapping[vmf.spawn] = m0
    for k in (reversed(range(n)) if swap else range(n)):
        mapping[ents[k]] = models[k]
    b.planes = planes
    b.texinfo = [ti]
    b.visleafs = list(leafs)
    b.nodes = nodes[:2]
    b.faces = fpool[:2]
    b.orig_faces = [orig]
    b.ents = vmf
    b.bmodels = mapping
    if not saved_or_rejected(b):
        return False
    b2 = transfer(b, "v20")
    got = b2.bmodels
    gents = list(b2.ents.entities)
    gn, gfaces = b2.nodes, b2.faces
    check(len(gents) == n and len(got) == 1 + len(gents), "entity / model mapping size", n, len(gents), len(got))
    want = [m0] + models
    gl = [got[b2.ents.spawn]] + [got[e] for e in gents]
    for k, e in enumerate(gents):
        check(e['targetname'] == f'br{k}' and e['classname'] == 'func_brush' and 'model' not in e, "entity keyvalues", k)
    want_nodes = nodes[:2] + ([nodes[2]] if n >= 1 and nd == 2 else [])
    check(len(gn) == len(want_nodes), "node count", len(want_nodes), len(gn))
    for k in range(len(want)):
        w, g = want[k], gl[k]
        check(g.mins == w.mins and g.maxes == w.maxes and g.origin == w.origin, "model bounds / origin", k)
        check(gn.index(g.node) == want_nodes.index(w.node), "head node reference", k, nd)
        # by value: a window that only partly overlaps the tail of the face list is appended whole (contiguous ranges), so
        # the same face may be stored twice
        check(len(g.faces) == len(w.faces) and all(x in gfaces and x.area == y.area and tuple(x.lightmap_size) == tuple(y.lightmap_size) and
                                                   x.hammer_id == y.hammer_id for x, y in zip(g.faces, w.faces)), "model face list", k,
              (fa, fl), len(g.faces))
        check(len(g._phys_solids) == len(w._phys_solids), "physics solid count", k, len(w._phys_solids), len(g._phys_solids))
        for x, y in zip(g._phys_solids, w._phys_solids):
            check(bytes(x) == bytes(y), "physics solid bytes changed", k, list(y), list(x))
        check(_kv_text(g.phys_keyvalues) == _kv_text(w.phys_keyvalues), "physics key-values changed", k, _kv_text(g.phys_keyvalues))
        if w.phys_keyvalues is None and not w._phys_solids:
            check(g.phys_keyvalues is None, "a model without physics got a key-values block", k)
    if n == 2:
        check((gl[1] is gl[2]) == share, "model sharing between entities changed", share)
    return True


def h_bmodels(s0: bytes, s1: bytes, kvi: int, fw: int, nd: int, share: bool, swap: bool, n0: int, n1: int, ns: int, n: int) -> None:
    _run_bmodels(s0, s1, n0, n1, ns, kvi, fw, nd, share, swap, n)


def h_bmodels_w(s0: bytes, s1: bytes, kvi: int, fw: int, nd: int, share: bool, swap: bool, n0: int, n1: int, ns: int, n: int) -> None:
    if _run_bmodels(s0, s1, n0, n1, ns, kvi, fw, nd, share, swap, n) and (ns == 0 or n0 == 0 or s0[0] == 0):
        raise Fail("reached")


# ------------------------------------------------------------------------------------------------ entity lump (piece-wise)

class _PieceBytes:
    """The bytes value b''.join(parts) kept as its written pieces (binary ChunkSink, DESIGN section 1 rule (i)): the
    entity lump travels from write_ent_data's BytesIO to _lmp_read_ents' `.decode()` -> Tokenizer as the list of
    pieces, decoded piece by piece (concrete byte runs by the real codec, a symbolic byte by the codec's definition:
    ascii, and surrogateescape for 0x80..0xff).  Chunk boundaries are immaterial to the tokenizer (C03)."""

    def __init__(self, parts):
        self.parts = parts

    @property
    def __class__(self):
        return bytes

    def __ch_pytype__(self):         # CrossHair's isinstance()/type() ask this (save() checks isinstance(result, bytes))
        return bytes

    def __len__(self):
        n = 0
        for p in self.parts:
            n = n + len(p)
        return n

    def decode(self, encoding='utf-8', errors='strict'):
        if encoding != 'ascii' or errors != 'surrogateescape':
            raise SystemExit(2)
        from crosshair.tracers import NoTracing
        out = []
        for p in self.parts:
            with NoTracing():
                conc = type(p) in (bytes, bytearray)
            if conc:
                with NoTracing():
                    out.append(bytes(p).decode('ascii', 'surrogateescape'))
                continue
            run = []
            for i in range(len(p)):
                c = p[i]
                with NoTracing():
                    is_int = type(c) is int
                if is_int:
                    run.append(c)
                    continue
                if run:
                    with NoTracing():
                        out.append(bytes(run).decode('ascii', 'surrogateescape'))
                    run = []
                out.append(chr(c) if c < 0x80 else chr(0xDC00 + c))
            if run:
                with NoTracing():
                    out.append(bytes(run).decode('ascii', 'surrogateescape'))
        return out


class _PieceBytesIO:
    """BytesIO as used by write_ent_data (write + getvalue only); anything else is a harness error."""

    def __init__(self, initial=b''):
        if len(initial):
            raise SystemExit(2)
        self.parts = []

    def write(self, data):
        self.parts.append(data)
        return len(data)

    def getvalue(self):
        return _PieceBytes(list(self.parts))


ENT_KEYS = ['speed', 'Key With,Commas', 'spawn\udcffflags', 'a/b;c']          # hashed by Entity: chosen by index
ENT_CTX = [('', ''), ('a\\', 'n'), ('x"', '"y'), ('1 2', '\t'), ('\n', ' ')]           # constant text around the symbolic slot
ENT_KEY_CHARS = ['', 'A', ' ', '"', '\\', '\r', '\n', '\t', ',', '/', ';', '=', '[', '{', '}', '\x1b', '\udc80', '\xe9']
ENT_TIMES = [-1, 1, 0, 7, 2 ** 31, -2 ** 40]
ENT_SLOTS = ("val", "par", "tgt", "inp", "out", "key")


_ENT_STUBS = []


def _ent_stubs():
    """Text stubs of C01/C06 (intern -> identity, BARE_DISALLOWED -> tuple, casefold fast path, exact float()/int() on
    de-proxied text), installed in the entity-lump workers only."""
    if _ENT_STUBS:
        return
    from vf.stubs.common import text_stubs
    from vf.stubs.floatstub import stub_float, stub_int
    _ENT_STUBS.extend(text_stubs() + stub_float() + stub_int() or ["done"])


def _slot_char_ok(c):
    # every ASCII code point except NUL (the lump is a C string; a lone NUL token is its terminator); the two ends of the
    # surrogate-escaped byte range; one character the lump cannot hold
    return 0 < ord(c) < 0x80 or c == '\udc80' or c == '\udcff' or c == '\xe9'


def _run_entlump(s, ki, ti, comma, comma2, force, inst, ns, slot, ctx):
    """worldspawn + one entity with a key/value pair and two outputs; ONE text slot (value, output parameter, target,
    input name, output name or key) is `pre + s + post` with s symbolic of exact length ns, everything else constant."""
    import srctools.bsp as bm
    from srctools.vmf import VMF, Entity, Output
    assume(len(s) == ns)
    for c in s:
        assume(_slot_char_ok(c))
    comma, comma2, force, inst = cbool(comma), cbool(comma2), cbool(force), cbool(inst)
    if force:
        comma2 = comma          # a forced separator overrides every output's own: one case, not two
    pre, post = ENT_CTX[ctx]
    f = {"key": pick(ENT_KEYS, ki) if slot != "key" else "", "val": "v 1", "out": "OnOpen", "tgt": "door_1", "inp": "Trigger", "par": "p"}
    if slot == "key":
        # Entity hashes its keys (any symbolic key is realised value by value): the slot character is chosen by symbolic
        # index from ENT_KEY_CHARS instead (enumeration).  'k' in front: never one of the constant keys.
        assume(ns == 0)
        f["key"] = 'k' + pre + pick(ENT_KEY_CHARS, ki) + post
    else:
        f[slot] = pre + s + post
    if comma and slot in ("par", "tgt", "inp"):
        for c in s:
            assume(c != ',')        # the comma format cannot carry a comma in these fields (Output.parse docstring)
    times = pick(ENT_TIMES, ti)
    if SYMBOLIC:
        bm.BytesIO = _PieceBytesIO
        _ent_stubs()
    vmf = VMF()
    vmf.spawn['classname'] = 'worldspawn'
    vmf.spawn['mapversion'] = '17'
    ent = Entity(vmf, {'classname': 'func_door', 'origin': '1 2 3'})
    ent[f["key"]] = f["val"]
    ent.add_out(Output(f["out"], f["tgt"], f["inp"], f["par"], 1.5, times=times, comma_sep=comma,
                       inst_out='inst_a' if inst else None, inst_in='rl-b' if inst else None))
    ent.add_out(Output('OnClose', 'relay', 'Kill', '', 0.0, times=-1, comma_sep=comma2))     # may differ from the first output's: a mixed lump
    vmf.add_ent(ent)
    b = new_bsp("v21")
    b.out_comma_sep = comma if force else None
    b.ents = vmf
    if not saved_or_rejected(b):
        return False
    b2 = transfer(b, "v21")
    try:
        got = b2.ents
    except ValueError:
        # 0x1b is the output separator of the format: a text containing it cannot be represented, the reader says so
        check('\x1b' in s, "the written entity lump cannot be read back", slot)
        return False
    check(got.spawn['classname'] == 'worldspawn' and got.spawn['mapversion'] == '17' and got.map_ver == 17, "worldspawn")
    ents = list(got.entities)
    check(len(ents) == 1, "entity count", len(ents))
    g = ents[0]
    check(len(g) == 3, "number of keyvalues", len(g), [k for k in g.keys()])
    check(g['classname'] == 'func_door' and g['origin'] == '1 2 3', "constant keyvalues")
    check(f["key"] in g and g[f["key"]] == f["val"], "keyvalue changed", f["key"], f["val"], [(k, v) for k, v in g.items()])
    check(len(g.outputs) == 2, "output count", len(g.outputs))
    o = g.outputs[0]
    check((o.output, o.target, o.input, o.params) == (f["out"], f["tgt"], f["inp"], f["par"]), "output text fields changed",
          (f["out"], f["tgt"], f["inp"], f["par"]), (o.output, o.target, o.input, o.params))
    check((o.delay, o.times, o.comma_sep, o.inst_out, o.inst_in) == (1.5, times, comma, 'inst_a' if inst else None, 'rl-b' if inst else None),
          "output delay / times / separator / instance names", (o.delay, o.times, o.comma_sep, o.inst_out, o.inst_in))
    o = g.outputs[1]
    check((o.output, o.target, o.input, o.params, o.delay, o.times, o.comma_sep, o.inst_out, o.inst_in) ==
          ('OnClose', 'relay', 'Kill', '', 0.0, -1, comma2, None, None), "second output changed")
    check(b2.out_comma_sep is comma, "separator detected differently", b2.out_comma_sep)
    return True


def h_entlump(s: str, ki: int, ti: int, comma: bool, comma2: bool, force: bool, inst: bool, ns: int, slot: str, ctx: int = 0) -> None:
    _run_entlump(s, ki, ti, comma, comma2, force, inst, ns, slot, ctx)


def h_entlump_w(s: str, ki: int, ti: int, comma: bool, comma2: bool, force: bool, inst: bool, ns: int, slot: str, ctx: int = 0) -> None:
    if _run_entlump(s, ki, ti, comma, comma2, force, inst, ns, slot, ctx) and (ns == 0 or s[0] == '"' or s[0] == '\udcff'):
        raise Fail("reached")


def obligations(tier):
    quick = tier == "quick"
    B = 300 if quick else 1800
    obls = []

    def add(name, func, slices, desc, bound, budget=B, pp=30):
        obls.append(Obl(name, MOD, func, slices=slices, budget_s=budget, per_path_s=pp, desc=desc, bound=bound))

    def wit(name, func, slices):
        obls.append(Obl(name + ".witness", MOD, func, slices=slices, budget_s=120, per_path_s=30, witness=True,
                        desc="reachability twin: the full write -> read -> compare path is taken"))

    # ---- kernels
    add("rle", "h_rle", [{"n": n} for n in (range(0, 5) if quick else range(0, 7))],
        "runlength_decode(runlength_encode(d)) == d stand-alone and embedded at an offset with a cluster limit; every zero marker carries a positive count",
        "symbolic bytes, exact length n per slice")
    wit("rle", "h_rle_w", [{"n": 2}])
    if not quick:
        add("rle_long", "h_rle_long", [{"na": 1, "nb": 1, "zi": zi} for zi in (1, 2)] + [{"na": 0, "nb": 0, "zi": zi} for zi in range(7)],
            "zero runs of 254..765 bytes (the >255 splitting), for 255/256 between two symbolic bytes", "run length by concrete slice (enumeration)",
            budget=1200, pp=400)
    add("find_insert", "h_find_insert", [{"nl": nl, "nq": nq, "keyed": kd} for nl in range(0, 4) for nq in (1, 2) for kd in (False, True)],
        "find_or_insert: index addresses the item, earlier entries never move, no duplicate appended", "pool of 3 objects, list <= 3, 2 queries")
    add("find_extend", "h_find_extend", [{"nl": nl, "nq": nq, "nr": nr} for nl in range(0, 4) for nq in (range(0, 3) if quick else range(0, 4))
                                         for nr in (range(0, 2) if quick else range(0, 3))],
        "find_or_extend: lst[i:i+len(q)] is q element-wise (full length) after the call and after a later call", "pool of 3 objects, list <= 3, sub-lists <= 3 and <= 2")
    wit("find_extend", "h_find_extend_w", [{"nl": 2, "nq": 2, "nr": 1}])
    # ---- lumps
    add("cubemaps", "h_cubemaps", [{"n": n} for n in (0, 1, 2)], "cubemap size field (symbolic int) round trips or is rejected", "n <= 2")
    wit("cubemaps", "h_cubemaps_w", [{"n": 1}])
    cfgs = ["v20", "chaos", "infra", "vitamin"] if quick else list(CONFIGS)
    add("geom", "h_geom", [{"ni": ni, "cfg": c} for c in cfgs for ni in ((0, 2) if quick else (0, 1, 2, 3))],
        "planes (every PlaneType member, also one not matching the normal), vertexes, primitives with a symbolic index list and both tristrip values",
        "2 planes, 3 vertexes, 2 primitives, index list length by slice")
    wit("geom", "h_geom_w", [{"ni": 2}])
    add("textures", "h_textures",
        [{"n": 0, "n0": 0, "n1": 0, "n2": 0}] + [{"n": 1, "n0": k, "n1": 0, "n2": 0} for k in (0, 1, 2)] +
        [{"n": 2, "n0": a, "n1": b, "n2": 0} for a, b in ((1, 0), (0, 1), (1, 1), (2, 1), (1, 2))] +
        ([] if quick else [{"n": 2, "n0": 2, "n1": 2, "n2": 0}] + [{"n": 3, "n0": a, "n1": b, "n2": c} for a, b, c in ((1, 1, 1), (2, 1, 0), (2, 1, 1), (1, 2, 1), (0, 2, 1))]),
        "texture name table: every name re-read identically (string-data dedup must respect the NUL terminator), non-ASCII rejected",
        "names over {a, b, surrogate-escaped 0xff, e-acute}, exact lengths per slice (realised by str.encode: enumeration)")
    wit("textures", "h_textures_w", [{"n": 2, "n0": 2, "n1": 1, "n2": 0}])
    add("texinfo", "h_texinfo", [{"n": n, "cfg": c} for n in (0, 1, 2) for c in (("v20", "vitamin") if quick else CONFIGS)],
        "texinfo + texdata + texture-name insertion: 32 symbolic surface-flag bits, symbolic width/height, shared vs separate texdata, material by index",
        "<= 2 texinfos")
    wit("texinfo", "h_texinfo_w", [{"n": 2}])
    add("overlays", "h_overlay", [{"n": n, "nf": nf, "cfg": "v20"} for n in (0, 1, 2) for nf in ((0, 2) if quick else (0, 1, 2))],
        "overlays + fades + system levels + their texinfo: symbolic id and face numbers, render order and CPU level by index incl. out-of-range",
        "<= 2 overlays, <= 2 faces")
    wit("overlays", "h_overlay_w", [{"n": 1, "nf": 1}])
    wins = [(a, l) for a in range(4) for l in range(4) if a + l <= 3]
    INTS = {"contents": 0x2001, "disp": 3, "cluster": 5, "area": 2, "lflags": 5, "water": -1, "wdist": 77, "area_ind": 4}
    # "shape" slices: the second brush's window and the tree shape are symbolic, integer fields concrete;
    # "ints" slices: every integer field symbolic, windows concrete (overlapping tail: sides [0,1] and [1,2]).
    tsl = [dict(INTS, cfg="v20", a0=a, l0=l, ch=ch) for (a, l) in wins for ch in ((1,) if quick and l == 0 else (0, 1, 2))]
    for c in (("v20", "v19", "chaos", "vitamin", "l4d2") if quick else list(CONFIGS)):
        # two groups keep the solver queries small (the area<<k|flags packing proof is the expensive one, esp. k=17 for Chaos)
        tsl.append({"cfg": c, "a0": 0, "l0": 2, "a1": 1, "l1": 2, "ch": 1, "area": 2, "lflags": 5})
        tsl.append({"cfg": c, "a0": 0, "l0": 2, "a1": 1, "l1": 2, "ch": 1, "contents": 0x2001, "disp": 3, "cluster": 5, "water": -1, "wdist": 77, "area_ind": 4})
        if not quick:
            tsl += [dict(INTS, cfg=c, a0=a, l0=l, ch=1) for (a, l) in wins if c != "v20"]
    add("tree", "h_tree", tsl,
        "brushes whose side lists are windows of one shared pool (find_or_extend in the real writer), leafs (area/flags packing per layout, "
        "ambient block in v19), two-node tree with leaf / node children and a child node appended by the writer",
        "2 brushes over 3 sides, 2 leafs, 2 nodes; slices with symbolic windows/tree shape (ints concrete) and slices with all integer fields of brush 0 / leaf 0 / node 0 symbolic (windows concrete)")
    wit("tree", "h_tree_w", [dict(INTS, cfg="v20", a0=0, l0=2, ch=0), {"cfg": "v19", "a0": 0, "l0": 2, "a1": 2, "l1": 1, "ch": 1}])
    add("visibility", "h_vis", [{"n": n} for n in (0, 1, 2)], "PVS/PAS rows survive the run-length coded lump with its offset table", "<= 2 clusters, 1 symbolic byte per row")
    wit("visibility", "h_vis_w", [{"n": 1}])
    add("detail", "h_detail", [{"n": n} for n in (0, 1, 2)],
        "detail props: kind (model / sprite / triangle shape / cross shape) preserved, integer fields symbolic, sprite table shared or not", "<= 2 props")
    wit("detail", "h_detail_w", [{"n": 1}])
    sl = []
    for v in SPROP_VERSIONS:
        for n in ((1,) if quick else (0, 1, 2)):
            sl.append({"n": n, "version": v, "cfg": "chaos" if "CHAOS" in v else "v21"})
    if not quick:
        sl += [{"n": 1, "version": v, "cfg": "chaos"} for v in ("V6", "V10", "V11")] + [{"n": 2, "version": "V10", "cfg": "l4d2"}]
    sl += [{"n": 2, "version": "V11", "cfg": "v21"}, {"n": 0, "version": "V9", "cfg": "v21"}] if quick else []
    add("sprops", "h_sprops", sl,
        "static props in every format version: ALL flag values (symbolic 64-bit word), solidity, skin, DX/CPU/GPU levels, renderfx, lightmap "
        "size, xbox flag, model table sharing, leaf table; version auto-detection; fields the version has no slot for are not compared",
        "<= 2 props; prop 0 fully symbolic")
    add("names", "h_names", [{"k": k, "nt": nt, "lump": lp} for lp in ("sprp", "dprp") for k, nt in ((0, 1), (125, 2), (126, 2), (127, 2), (200, 1))],
        "model names in the static/detail prop dictionaries (char[128] slots): exact round trip or rejection around the 128 limit",
        "name = 'm'*k + 1..2 symbolic letters over {a, b}")
    wit("names", "h_names_w", [{"k": 0, "nt": 1, "lump": "sprp"}, {"k": 0, "nt": 1, "lump": "dprp"}])
    wit("sprops", "h_sprops_w", [{"n": 1, "version": "V10"}, {"n": 1, "version": "V_LIGHTMAP_v10"}, {"n": 1, "version": "V5"}])

    # ---- extension: faces / bmodels / water-leaf info / entity lump
    FI, FS = FACE_INTS, FACE_SHAPE

    def without(d, *keys):
        return {k: v for k, v in d.items() if k not in keys}
    fsl = []
    # aliasing slices: F1's edge window, original-face choice, missing texinfo, pre-assigned surfedges symbolic (ints concrete)
    for w0 in ((1, 3, 6, 9) if quick else range(10)):
        for hdr in (False, True):
            fsl.append(dict(FI, **without(FS, "w1", "og", "tn", "pre"), w0=w0, n=2, hdr=hdr, cfg="v20"))
    # primitive windows + light styles symbolic
    fsl += [dict(FI, **without(FS, "p0", "p1", "ls"), w0=3, n=2, hdr=h, cfg=c) for h, c in ((False, "v20"), (True, "chaos"))]
    # integer / bool fields of F0 symbolic, three groups (the product of all thirteen does not exhaust)
    groups = (("disp", "fog", "lmoff", "side", "onnode", "dyn"), ("lmx", "lmy", "lsx", "lsy"), ("smooth", "hid", "vflags"))
    for c in (("v20", "chaos", "vitamin") if quick else ("v20", "v19", "v21", "l4d2", "infra", "chaos", "vitamin")):
        for g in groups:
            fsl.append(dict(without(FI, *g), **FS, w0=3, n=2, hdr=(c == "v20"), cfg=c))
        fsl.append(dict(FI, **without(FS, "w1", "og", "tn", "pre"), w0=3, n=2, hdr=False, cfg=c))
    fsl += [dict(without(FI, *groups[2]), **FS, w0=3, n=n, hdr=True, cfg="v20") for n in (0, 1)]
    add("faces", "h_faces", fsl,
        "faces / HDR faces / original faces with their surfedges, edges, primitives, texinfo, planes and FACEIDS: every integer and bool field of a "
        "face symbolic, edge and primitive lists as windows of shared pools (shared edges, an edge and its reversed twin), original face shared / "
        "appended by the writer / absent, texinfo absent, surfedges assigned beforehand or built by the writer; VitaminSource layout",
        "<= 2 faces (+ parallel HDR list) over 1-2 original faces, pool of 3 surfedges and 2 primitives; symbolic ints in three groups")
    wit("faces", "h_faces_w", [dict(without(FI, *groups[0]), **FS, w0=3, n=2, hdr=True, cfg="v20"),
                               dict(FI, **without(FS, "w1", "og", "tn", "pre"), w0=6, n=2, hdr=False, cfg="chaos"),
                               dict(without(FI, *groups[2]), **FS, w0=3, n=2, hdr=False, cfg="vitamin")])
    add("water", "h_water", [{"n": n, "cfg": c} for n in (0, 1, 2) for c in (("v20", "chaos") if quick else CONFIGS)],
        "water-leaf info: heights, surface texinfo chosen by symbolic index among an existing / a new (symbolic flags, size) / another new texinfo, "
        "sharing between entries, the texinfo table the writer extends", "<= 2 entries, 3 texinfos")
    wit("water", "h_water_w", [{"n": 1, "cfg": "v20"}, {"n": 2, "cfg": "chaos"}])
    PH = {"fw": 1, "nd": 0, "share": False, "swap": False}
    bsl = [dict(PH, n=1, ns=ns, n0=a, n1=b_) for ns, a, b_ in ((0, 0, 0), (1, 0, 0), (1, 2, 0), (2, 1, 1), (2, 0, 2))]
    bsl += [dict(PH, n=0, ns=1, n0=1, n1=0), {"n": 1, "ns": 1, "n0": 1, "n1": 0, "share": False, "swap": False},
            {"n": 2, "ns": 1, "n0": 1, "n1": 0, "kvi": 2, "fw": 4}, {"n": 2, "ns": 0, "n0": 0, "n1": 0, "kvi": 0, "nd": 2, "share": False}]
    if not quick:
        bsl += [{"n": 2, "ns": 2, "n0": 1, "n1": 1}, {"n": 1, "ns": 2, "n0": 2, "n1": 3}, dict(PH, n=1, ns=2, n0=4, n1=0)]
    add("bmodels", "h_bmodels", bsl,
        "brush models: entity -> model mapping through the '*N' model key, models shared by two entities, head node shared / listed / appended by "
        "the writer, face list as a window of a face pool, physics block (symbolic solid bytes, 0..2 solids, key-values block absent / empty / "
        "filled) through PHYSCOLLIDE", "worldspawn + <= 2 brush entities, <= 2 solids of <= 2 symbolic bytes (thorough <= 4)", budget=B, pp=60)
    wit("bmodels", "h_bmodels_w", [dict(PH, n=1, ns=1, n0=1, n1=0), {"n": 2, "ns": 0, "n0": 0, "n1": 0, "kvi": 0, "nd": 2, "share": False}])
    # (the key with a surrogate-escaped byte, ki == 2, only where no symbolic text shares its piece: CrossHair's codec model realises
    # the whole piece when it meets a concrete non-ASCII character)
    CC = [{"ki": 1, "ti": 0, "force": True, "inst": False}, {"ki": 0, "ti": 1, "force": False, "inst": True}, {"ki": 1, "ti": 4, "force": True, "inst": True},
          {"ki": 3, "ti": 5, "force": False, "inst": False}, {"ki": 1, "ti": 3, "force": True, "inst": False}]
    esl = [{"ns": 0, "slot": "val", "ctx": 0}]
    for slot in ("val", "par"):
        esl += [dict(CC[ctx], ns=1, slot=slot, ctx=ctx) for ctx in range(len(ENT_CTX))]
    for slot in ("tgt", "inp", "out"):          # contexts 1 and 2 (backslash / quotes around the slot) are solver-heavy here: thorough tier
        esl += [dict(CC[ctx], ns=1, slot=slot, ctx=ctx) for ctx in ((0, 3, 4) if quick else range(len(ENT_CTX)))]
    esl += [dict(without(CC[ctx], "ki"), ns=0, slot="key", ctx=ctx) for ctx in range(len(ENT_CTX))]
    if not quick:
        # two symbolic characters: 1 700+ paths each; (par, context 1) needed 1 650 s of solver-heavy work and is left out
        esl += [dict(CC[ctx], ns=2, slot=slot, ctx=ctx) for slot, ctx in (("val", 0), ("val", 1), ("par", 0))]
    add("entlump", "h_entlump", esl,
        "entity lump (write_ent_data / _lmp_read_ents): keys, values, outputs in both separator formats, forced or per-output separator, instance "
        "in/out names, times by index; one text slot (value / parameter / target / input / output name) carries a symbolic string over ALL ASCII "
        "code points + surrogate-escaped bytes + one unencodable character inside 5 constant contexts; keys by symbolic index (hashed); the lump "
        "travels as its written pieces (ChunkSink) through the real codec calls into the real Tokenizer",
        "1 entity + worldspawn, 1 keyvalue + 2 outputs; one slot of exact length 0..1 (thorough 2) at a time", budget=B if quick else 3600, pp=60)
    wit("entlump", "h_entlump_w", [dict(CC[0], ns=1, slot="val", ctx=0), dict(CC[1], ns=1, slot="par", ctx=2), {"ns": 0, "slot": "val", "ctx": 0},
                                  dict(without(CC[0], "ki"), ns=0, slot="key", ctx=1)])
    return obls


META["bounds"] = ("lists of length 0..2 (3 for index lists / find_or_extend), every integer field of the first element an UNBOUNDED symbolic int "
                  "(so both the in-range round trip and the out-of-range rejection are covered), flag words fully symbolic (64/32/7 bits), "
                  "enum members and aliasing choices by symbolic index, floats concrete float32-exact constants; 7 BSP layouts; 13 static prop versions; "
                  "RLE rows of 0..6 symbolic bytes (+ zero runs 254..765 in the thorough tier); texture names of length <= 2 over a 4-letter alphabet; "
                  "EXTENSION: <= 2 faces (+ parallel HDR list) over 1-2 original faces, 13 symbolic int/bool face fields in three groups, edge / primitive "
                  "lists as windows of pools of 3 / 2 (aliasing by symbolic index: enumeration), 3 layouts quick / 7 thorough; <= 2 water-leaf entries "
                  "over 3 texinfos; worldspawn + <= 2 brush entities, <= 2 physics solids of <= 2 (thorough 4) symbolic bytes, key-values block by index; "
                  "entity lump: 1 entity + worldspawn with 1 keyvalue and 2 outputs, ONE text slot (value / parameter / target / input / output name) "
                  "= constant context + symbolic string of exact length 0..1 (thorough 2) over all ASCII code points except NUL + U+DC80, U+DCFF, "
                  "U+00E9, 5 contexts (3 for target / input / output name in the quick tier); keys, key characters, `times`, separator mode by "
                  "symbolic index (hashed or formatted by C code: enumeration)")
META["outside"] = ("floats as symbols (concrete float32-exact constants only); lists longer than the bounds; LZMA-compressed lumps and the file header / "
                   "lump table (C10); pakfile; version-absent StaticProp fields (documented per version) are not compared; faces referenced from "
                   "leafs / nodes (LEAFFACES, node face ranges: those lists are empty in `tree`), displacement info, lighting data; Face.light_styles of a "
                   "length other than 4 (char[4] is padded / cut by struct); HDR face lists that are not parallel to the face list (one FACEIDS lump "
                   "serves both); symbolic text in more than one entity-lump slot at a time, slot strings longer than 2, symbolic entity KEYS (hashed: "
                   "18 characters by index instead), `times` / delay as symbols, commas inside target / input / parameter in the comma format and "
                   "values that look like an output (exactly four commas) - the format itself cannot tell those apart (Output.parse docstring); the "
                   "superseded joined-text harness h_ents is kept in the module but is not an obligation")
META["stubs"] = [
    "srctools.bsp.AtomicWriter -> object whose __enter__ raises: BSP.save() runs its real rebuild loop and stops before file output",
    "srctools.bsp.open -> io.BytesIO over a synthesised blank BSP (concrete), read by the real BSP.read()",
    "struct.Struct (srctools.bsp.struct.Struct, srctools.binformat.Struct/_cached_struct/ST_VEC, LUMP_LAYOUT_* entries, GameLump.ST) -> "
    "vf.stubs.binmodel.ModelStruct delegating to module-level struct.pack/unpack; native-order formats ('i', 'ii', 'fff', 'HH..') are rewritten to '<' "
    "(CrossHair's struct model reads prefix-less formats as big-endian); iter_unpack -> traced generator (CrossHair's yields inside NoTracing)",
    "srctools.bsp.BytesIO -> vf.stubs.binmodel.ModelBytesIO (slice/concatenate buffer), validated against io.BytesIO on every run",
    "srctools.bsp.{StaticPropFlags,VisLeafFlags,BrushContents,SurfFlags}(value) -> range check + pseudo-member (what Flag._missing_ builds) without "
    "hashing the value; validated against the real lookup on 17 values per class on every run",
    "entity-lump workers only: srctools.bsp.BytesIO -> piece-keeping sink whose getvalue() is a bytes stand-in (isinstance(x, bytes) holds) that "
    "decodes piece by piece into the list of str chunks handed to the real Tokenizer (concrete byte runs by the real ascii/surrogateescape codec, a "
    "symbolic byte b by chr(b) / chr(0xDC00 + b)); text stubs of C01/C06 (sys.intern -> identity, BARE_DISALLOWED -> tuple, casefold fast path, "
    "float()/int() of de-proxied text); native replays use the real io.BytesIO and one joined string",
    "engine tweak: SymbolicInt.__or__ fast path (lo|hi == lo+hi when the solver proves 0<=lo<2**k and hi%2**k==0; x|(x - x%2**k) == x), else CrossHair's own",
]
META["assumptions"] = [
    "the raw lumps produced by the rebuild loop reach the reader unchanged (file transport is C10)",
    "well-formed values: names without NUL, Overlay.face_count == len(faces), visibility rows of ceil(n/8) bytes, even _unknown_bevel_bits, "
    "a prop's flags are a valid StaticPropFlags word",
    "extension: Face.light_styles has exactly 4 bytes; hdr_faces is empty or parallel to faces (same hammer ids); a face's hammer id is compared "
    "only when it has an original face (None is written as 0: documented dummy); an original face's own texinfo / hammer id are not compared "
    "(the reader overwrites them from the split face: documented); BModel.phys_keyvalues None and an empty block are the same when solids "
    "exist; a model face window that only partly overlaps the tail of the face list is stored as a second copy (compared by value)",
    "extension: entity-lump chunk boundaries are immaterial to the tokenizer (C03); a text containing 0x1b (the output separator) may be "
    "refused by the READER with ValueError - accepted only when the slot really contains 0x1b; no NUL in entity text (C strings)",
]
