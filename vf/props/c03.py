"""C03 — tokenizing is total and independent of how the input is chunked (E1, CrossHair).

(1) `chunk`  : text = pre + w + post (w symbolic, exact length, all code points; 7 option bits symbolic) is tokenized
               through the real `Tokenizer` once as ONE str and once per delivery of a concrete family of cuts
               (every single cut, every pair of cuts, one chunk per character, empty chunks interleaved). The
               observable trace (token kind, value, `line_num` after every call; or the error's exact type, message,
               line, file) must be identical, only the configured error class may escape, EOF must repeat, and the
               number of `_next_char` calls is bounded by 2*len+4 (each character is re-read at most once).
(2) `kv`     : `Keyvalues.parse` over concrete KV skeletons with one symbolic slot, symbolic parse options and symbolic
               flag truth values: returns a tree or raises exactly `KeyValError`; whole-str and per-piece deliveries agree.
"""
from __future__ import annotations

from vf.core import Obl
from vf.h import Fail, assume, check

MOD = "vf.props.c03"

META = {
    "level": "model_checking",
    "functions": ["srctools.tokenizer:Tokenizer.__init__", "srctools.tokenizer:Tokenizer._next_char",
                  "srctools.tokenizer:Tokenizer._get_token", "srctools.tokenizer:Tokenizer._handle_comment",
                  "srctools.tokenizer:Tokenizer._handle_string", "srctools.tokenizer:BaseTokenizer.error",
                  "srctools.tokenizer:BaseTokenizer.__call__", "srctools.tokenizer:BaseTokenizer.expect",
                  "srctools.tokenizer:BaseTokenizer.push_back", "srctools.keyvalues:Keyvalues.parse",
                  "srctools.keyvalues:_read_flag"],
    "bounds": "",      # filled in below
    "outside": "",
    "stubs": ["srctools.tokenizer.BARE_DISALLOWED frozenset -> tuple (same members)", "srctools.keyvalues.sys.intern -> identity",
              "crosshair LazyIntSymbolicStr.casefold fast path (validated on all ASCII code points)",
              "srctools.keyvalues.FLAGS_DEFAULT dict -> ScanMap (same items, lookup by == scan; validated against the dict in setup)",
              "flags= argument of Keyvalues.parse is a ScanMap (a Mapping[str, bool]) holding three symbolic bools",
              "Tokenizer subclass `Counting` whose _next_char counts calls and delegates to the real method"],
    "trusted_base": ["crosshair-tool 0.0.110 symbolic str model", "z3 (z3-solver wheel 5.1.0 API)", "vf/chx.py driver"],
    "assumptions": ["pure-Python Tokenizer only (the Cython twin cannot be built here)",
                    "chunks are str (non-str chunks raise the documented ValueError and are outside the claim)"],
}

# ------------------------------------------------------------------ contexts (pre, post): w is spliced between them
CONTEXTS = {
    "top": ("x ", " y"),             # token-start position, not first character of the text
    "top_eof": (" ", ""),            # w is the last thing in the text (unterminated constructs)
    "first": ("", "a"),              # w is the first thing in the text (BOM position)
    "line2": ("\n", "b"),            # token start on line 2
    "bare": ("ab", "cd"),            # inside a bare string
    "quoted": ('"a', 'b"'),          # inside "..."
    "quoted_eof": ('"', ""),         # unterminated string
    "escape": ('"\\', 'n"'),         # directly after a backslash inside a string
    "star": ("/*", "*/"),            # inside /* ... */
    "star_tail": ("/*a*", "/ z"),    # after a '*' inside a star comment (the '**/' re-read)
    "star_eof": ("/*", ""),          # unterminated star comment
    "slash": ("/", "\n"),            # directly after a single '/'
    "linecomm": ("//", "\nq"),       # inside // ...
    "linecomm_eof": ("//c", ""),     # // comment ended by EOF (push-back of EOF)
    "bracket": ("[", "]"),           # inside [...]
    "bracket_eof": ("[", ""),
    "paren": ("(", ")"),             # inside (...)
    "paren_eof": ("(", ""),
    "directive": ("#", " x"),        # inside a #directive
    "directive_eof": ("#D", ""),
    "crlf": ("a\r", "\nb"),          # between CR and LF at top level
    "crlf_q": ('"\r', '\n"'),        # between CR and LF inside a string
    "cr_op": ("\r", "\n{"),          # after a CR, before LF + operator
}
QUICK_CTX = list(CONTEXTS)

OPT_NAMES = ("string_bracket", "string_parens", "allow_escapes", "allow_star_comments", "preserve_comments",
             "colon_operator", "plus_operator")


def setup(engine):
    if engine == "chx":
        from vf.stubs.common import text_stubs
        from vf.stubs.kvstubs import stub_flags_default
        text_stubs()
        stub_flags_default()


_ERR = {}


def _err_class(kind):
    """The error class handed to the tokenizer: 'sub' = a private subclass, 'kv' = KeyValError, 'default' = none given."""
    from srctools.tokenizer import TokenSyntaxError
    if kind == "default":
        return TokenSyntaxError
    if kind == "kv":
        from srctools.keyvalues import KeyValError
        return KeyValError
    if "sub" not in _ERR:
        class ChunkErr(TokenSyntaxError):
            pass
        _ERR["sub"] = ChunkErr
    return _ERR["sub"]


def _make_tok(data, err, opts, limit):
    from srctools.tokenizer import Tokenizer

    class Counting(Tokenizer):
        """The real tokenizer; `_next_char` additionally counts its calls (termination measure)."""
        n_reads = 0

        def _next_char(self):
            self.n_reads += 1
            if self.n_reads > limit:
                raise Fail(f"more than {limit} character reads: each character must be read at most twice")
            return Tokenizer._next_char(self)

    # The options are assigned to the documented public attributes after construction: __init__ coerces each keyword
    # with bool(), which would fork all 2^7 combinations up front on every path; as attributes they fork only where the
    # code consults them.  (The keyword -> attribute mapping of __init__ is obligation `ctor`.)
    tok = Counting(data) if err == "default" else Counting(data, "f.txt", _err_class(err))
    for name, val in zip(OPT_NAMES, opts):
        setattr(tok, name, val)
    return tok


def _trace(data, err, opts, length):
    """Observable behaviour of tokenizing `data`: list of (kind, value, line) ending in EOF or ('ERR', type, mess, line, file)."""
    from srctools.tokenizer import Token, TokenSyntaxError
    tok = _make_tok(data, err, opts, 2 * length + 4 + 3)   # +3: the three extra EOF probes below read one None each
    out = []
    want_cls = _err_class(err)
    for _ in range(length + 2):
        try:
            t, v = tok()
        except TokenSyntaxError as exc:
            check(type(exc) is want_cls, "error is not of the configured error class", type(exc).__name__, want_cls.__name__)
            check(exc.file == (None if err == "default" else "f.txt"), "error file", exc.file)
            out.append(("ERR", type(exc).__name__, exc.mess, exc.line_num))
            return out
        check(isinstance(t, Token), "token kind is not a Token")
        out.append((t.name, v, tok.line_num))
        if t is Token.EOF:
            check(v == "", "EOF value")
            line = tok.line_num
            for _k in range(3):
                t2, v2 = tok()
                check(t2 is Token.EOF and v2 == "", "EOF not repeated", t2)
                check(tok.line_num == line, "line number moved after EOF")
            return out
    raise Fail(f"no EOF within {length + 2} tokens")


def _same(ref, got, what):
    check(len(ref) == len(got), "trace length differs for " + what, ref, got)
    for a, b in zip(ref, got):
        check(len(a) == len(b), "trace entry kind differs for " + what, ref, got)
        check(a[0] == b[0], "token kind differs for " + what, ref, got)
        if a[0] == "ERR":
            check(a[1] == b[1], "error type differs for " + what, ref, got)
            check(a[3] == b[3], "error line differs for " + what, ref, got)
            check(a[2] == b[2], "error message differs for " + what, ref, got)
        else:
            check(a[2] == b[2], "line number differs for " + what, ref, got)
            check(a[1] == b[1], "token value differs for " + what, ref, got)


def _deliveries(length, family):
    """Concrete cut sets (sorted tuples of positions 1..length-1) of one family; 'E' marks interleaved empty chunks."""
    pos = list(range(1, length))
    if family == "single":
        return [(k,) for k in pos]
    if family == "pairs":
        return [(j, k) for j in pos for k in pos if j < k]
    if family == "chars":
        return [tuple(pos), tuple(pos) + ("E",)]
    if family == "all":      # every delivery with at most two cuts, plus one chunk per character (with and without empty chunks)
        return _deliveries(length, "single") + _deliveries(length, "pairs") + _deliveries(length, "chars")
    if family == "triples":
        return [(i, j, k) for i in pos for j in pos for k in pos if i < j < k]
    raise ValueError(family)


def _pieces(chars, cuts):
    empties = "E" in cuts
    cuts = [c for c in cuts if c != "E"]
    bounds = [0] + list(cuts) + [len(chars)]
    out = []
    if empties:
        out.append("")
    for a, b in zip(bounds, bounds[1:]):
        out.append(chars[a] if b == a + 1 else "".join(chars[a:b]))
        if empties:
            out.append("")
            out.append("")
    return out


def h_chunk(w: str, sb: bool, sp: bool, esc: bool, star: bool, keep: bool, colon: bool, plus: bool,
            n: int, ctx: str, fam: str, err: str = "sub", cls: str = "") -> None:
    """trace(one str) == trace(every delivery of the family); only the configured error class; EOF repeats; linear reads."""
    assume(len(w) == n)
    if cls:
        _first_class(w, cls)
    pre, post = CONTEXTS[ctx]
    chars = list(pre) + [w[i] for i in range(n)] + list(post)
    length = len(chars)
    opts = (sb, sp, esc, star, keep, colon, plus)
    whole = pre + w + post if n else pre + post
    ref = _trace(whole, err, opts, length)
    # the same text as a one-element iterable (the iterable code path without any cut)
    _same(ref, _trace(iter([whole]), err, opts, length), "one chunk")
    for cuts in _deliveries(length, fam):
        got = _trace(iter(_pieces(chars, cuts)), err, opts, length)
        _same(ref, got, "cuts " + repr(cuts))


def h_chunk_witness(w: str, sb: bool, sp: bool, esc: bool, star: bool, keep: bool, colon: bool, plus: bool,
                    n: int, ctx: str, fam: str, err: str = "sub", cls: str = "") -> None:
    h_chunk(w, sb, sp, esc, star, keep, colon, plus, n, ctx, fam, err, cls)
    raise Fail("reached")


FIRST_CLASSES = ["ws", "nl", "quote", "slashstar", "brack", "oper", "punct", "esc", "low", "high"]


def _first_class(s, cls):
    c = s[0]
    if cls == "ws":
        assume(c == ' ' or c == '\t')
    elif cls == "nl":
        assume(c == '\n' or c == '\r')
    elif cls == "quote":
        assume(c == '"' or c == "'")
    elif cls == "slashstar":
        assume(c == '/' or c == '*')
    elif cls == "brack":
        assume(c == '[' or c == ']' or c == '(' or c == ')')
    elif cls == "oper":
        assume(c == '{' or c == '}' or c == '=' or c == ',')
    elif cls == "punct":
        assume(c == ';' or c == ':' or c == '+' or c == '#')
    elif cls == "esc":
        assume(c == '\\')
    elif cls == "low":
        assume(c < '\x80' and not (c in ' \t\n\r"\'/*[](){}=,;:+#\\'))
    else:
        assume(c >= '\x80')


# ------------------------------------------------------------------ (2) Keyvalues.parse: KeyValError and nothing else
SLOT = object()
KV_SKELS = {
    # name: pieces; SLOT is replaced by the symbolic w
    "key": ['"', SLOT, '" "v"\n'],
    "key_nl": ['"a\n', SLOT, '" "v"\n'],          # a quoted key that already holds a newline: the slot ends up in the error text
    "value": ['"k" "', SLOT, '"\n'],
    "raw_top": [SLOT, '"k" "v"\n'],
    "raw_val": ['"k" ', SLOT, '\n'],
    "raw_tail": ['"k" "v" ', SLOT, '\n"z" "y"\n'],
    "raw_line": ['"b"\n', '{\n', SLOT, '\n', '}\n'],
    "raw_eof": ['"b"\n', '{\n', '"k" "v"\n', '}\n', SLOT],
    "flag": ['"k" "v" [', SLOT, ']\n', '"k" "u"\n'],
    "blockflag": ['"a" [', SLOT, ']\n', '{\n', '"k" "v"\n', '}\n'],
    # the platform-switch idiom: same name under complementary flags, blocks and leaves, first in its parent or not
    "switch": ['"a" [f0]\n', '{\n', '"k" "v" [f1]\n', '"k" "w" [!f1]\n', '}\n', '"a" [!f0]\n', '{\n', '}\n',
               '"a" "leaf" [f2]\n', SLOT],
    "switch_in": ['"r"\n', '{\n', '"a" [f0]\n', '{\n', '}\n', '"a" [f1]\n', '{\n', '"x" "y"\n', '}\n', SLOT, '}\n'],
    "switch_leaf": ['"a" [f0]\n', '{\n', '}\n', '"a" "leaf" [f1]\n', '"a" "leaf2" [f2]\n', SLOT],
}
KV_OPTS = ("newline_keys", "newline_values", "allow_escapes", "single_line", "single_block")


def _kv_dump(kv, depth=0):
    check(depth < 8, "tree too deep")
    val = kv._value
    if isinstance(val, list):
        return (kv._real_name, kv.line_num, [_kv_dump(c, depth + 1) for c in val])
    return (kv._real_name, kv.line_num, val)


def _kv_same(a, b, what):
    check(a[1] == b[1], "line number differs: " + what, a, b)
    check((a[0] is None) == (b[0] is None) and a[0] == b[0], "name differs: " + what, a, b)
    check(isinstance(a[2], list) == isinstance(b[2], list), "leaf/block differs: " + what, a, b)
    if isinstance(a[2], list):
        check(len(a[2]) == len(b[2]), "child count differs: " + what, a, b)
        for x, y in zip(a[2], b[2]):
            _kv_same(x, y, what)
    else:
        check(a[2] == b[2], "value differs: " + what, a, b)


def _kv_outcome(data, flags, opts):
    from srctools.keyvalues import Keyvalues, KeyValError
    from srctools.tokenizer import TokenSyntaxError
    try:
        tree = Keyvalues.parse(data, "f.txt", flags=flags, **dict(zip(KV_OPTS, opts)))
    except TokenSyntaxError as exc:
        check(type(exc) is KeyValError, "Keyvalues.parse raised a TokenSyntaxError that is not exactly KeyValError", type(exc).__name__)
        check(exc.file == "f.txt", "error file", exc.file)
        return ("err", exc.mess, exc.line_num)
    # any other exception type propagates: violation ("KeyValError and nothing else")
    check(isinstance(tree, Keyvalues), "parse returned a non-Keyvalues", type(tree).__name__)
    return ("ok", _kv_dump(tree))


def h_kv(w: str, f0: bool, f1: bool, f2: bool, nk: bool, nv: bool, esc: bool, sline: bool, sblock: bool,
         n: int, skel: str, cls: str = "") -> None:
    """Keyvalues.parse returns a tree or raises exactly KeyValError; one-str and per-piece deliveries agree."""
    from vf.stubs.kvstubs import ScanMap
    assume(len(w) == n)
    if cls:
        _first_class(w, cls)
    pieces = [w if p is SLOT else p for p in KV_SKELS[skel]]
    if n == 0:
        pieces = [p for p in pieces if len(p)]
    opts = (nk, nv, esc, sline, sblock)

    def flags():
        return ScanMap((("f0", f0), ("f1", f1), ("f2", f2)))
    whole = pieces[0]
    for p in pieces[1:]:
        whole = whole + p
    ref = _kv_outcome(whole, flags(), opts)
    got = _kv_outcome(iter(list(pieces)), flags(), opts)
    check(ref[0] == got[0], "outcome kind differs between one str and pieces", ref, got)
    if ref[0] == "err":
        check(ref[2] == got[2], "error line differs between one str and pieces", ref, got)
        check(ref[1] == got[1], "error message differs between one str and pieces", ref, got)
    else:
        _kv_same(ref[1], got[1], "one str vs pieces")


def h_kv_witness(w: str, f0: bool, f1: bool, f2: bool, nk: bool, nv: bool, esc: bool, sline: bool, sblock: bool,
                 n: int, skel: str, cls: str = "") -> None:
    h_kv(w, f0, f1, f2, nk, nv, esc, sline, sblock, n, skel, cls)
    raise Fail("reached")


def h_ctor(sb: bool, sp: bool, esc: bool, star: bool, keep: bool, colon: bool, plus: bool, err: str = "sub") -> None:
    """Tokenizer.__init__ stores each keyword option in the attribute of the same name (link between `chunk` and the kwargs)."""
    from srctools.tokenizer import Tokenizer
    opts = (sb, sp, esc, star, keep, colon, plus)
    tok = Tokenizer(["x"], "f.txt", _err_class(err), **dict(zip(OPT_NAMES, opts)))
    for name, val in zip(OPT_NAMES, opts):
        got = getattr(tok, name)
        check(got is True or got is False, "option attribute is not a bool", name)
        check(got == val, "option attribute differs from the keyword", name)
    check(tok.error_type is _err_class(err), "error_type")
    check(tok.line_num == 1 and tok.filename == "f.txt", "initial line/filename")


# contexts whose n == 2 space is explored in the quick tier (one per lexical state); the rest in the thorough tier
QUICK_N2 = ["top", "quoted", "escape", "star_tail", "linecomm", "crlf", "paren", "directive"]
LIGHT = ["quoted", "quoted_eof", "escape", "star", "star_tail", "star_eof", "linecomm", "linecomm_eof", "crlf_q"]   # string/comment states
HEAVY = [c for c in CONTEXTS if c not in LIGHT]      # token-level states: n == 2 is sliced by first-character class
N3_CTX = ["quoted", "escape", "star", "star_tail", "linecomm", "crlf_q"]    # string / comment states get n == 3


def _n2_slices(ctxs, fam="all", err="sub"):
    out = []
    for c in ctxs:
        if c in HEAVY:
            out += [{"n": 2, "ctx": c, "fam": fam, "err": err, "cls": k} for k in FIRST_CLASSES]
        else:
            out.append({"n": 2, "ctx": c, "fam": fam, "err": err})
    return out


def obligations(tier):
    obls = []
    ctxs = list(CONTEXTS)
    quick = tier == "quick"
    sl = [{"n": n, "ctx": c, "fam": "all"} for c in ctxs for n in (0, 1)]
    obls.append(Obl("chunk.len01", MOD, "h_chunk", slices=sl, budget_s=240, per_path_s=30,
                    desc="one str == one chunk == every delivery with <= 2 cuts == one chunk per character (+ empty chunks); only the "
                         "configured error class; EOF repeats; <= 2*len+4 character reads",
                    bound="len(w) in {0,1} in all %d contexts; 7 option bits symbolic; private error subclass" % len(ctxs)))
    obls.append(Obl("chunk.len2", MOD, "h_chunk", slices=_n2_slices(QUICK_N2 if quick else ctxs), budget_s=1500, per_path_s=30,
                    desc="same, two symbolic characters", bound="len(w) == 2; contexts: " + ", ".join(QUICK_N2 if quick else ctxs)))
    obls.append(Obl("chunk.errclass", MOD, "h_chunk",
                    slices=[{"n": 1, "ctx": c, "fam": "single", "err": e} for e in ("default", "kv")
                            for c in (("top_eof", "quoted_eof", "slash") if quick else ctxs)],
                    budget_s=240, per_path_s=30, desc="default error class (no error argument) and KeyValError as the configured class",
                    bound="len(w) == 1, single cuts"))
    obls.append(Obl("chunk.witness", MOD, "h_chunk_witness",
                    slices=[{"n": 1, "ctx": c, "fam": "all"} for c in ("top", "quoted", "star", "paren_eof")]
                    + [{"n": 2, "ctx": "top", "fam": "all", "cls": "low"}],
                    budget_s=120, per_path_s=30, witness=True, desc="reachability twin of chunk"))
    obls.append(Obl("ctor", MOD, "h_ctor", slices=[{"err": "sub"}, {"err": "default"}], budget_s=240, per_path_s=30,
                    desc="Tokenizer.__init__ stores every keyword option under the attribute of the same name (all 2^7 combinations)",
                    bound="7 symbolic bools"))
    skels = list(KV_SKELS)
    kv0 = [{"n": 0, "skel": k} for k in skels]
    kv1_quick = ["raw_line", "raw_val", "raw_top", "key_nl"]
    kv1 = [{"n": 1, "skel": k} for k in (kv1_quick if quick else skels)]
    obls.append(Obl("kv.parse", MOD, "h_kv", slices=kv0 + kv1, budget_s=900 if quick else 2700, per_path_s=60,
                    desc="Keyvalues.parse returns a tree or raises exactly KeyValError (any other exception is a violation); one str == pieces; "
                         "3 flag truth values and 5 parse options symbolic",
                    bound="13 skeletons with len(w) == 0; len(w) == 1 in " + (", ".join(kv1_quick) if quick else "all skeletons")))
    obls.append(Obl("kv.witness", MOD, "h_kv_witness", slices=[{"n": 0, "skel": "switch"}, {"n": 1, "skel": "raw_line"}],
                    budget_s=120, per_path_s=60, witness=True, desc="reachability twin of kv.parse"))
    if not quick:
        obls.append(Obl("chunk.len3", MOD, "h_chunk",
                        slices=[{"n": 3, "ctx": c, "fam": "single", "cls": k} for c in N3_CTX for k in FIRST_CLASSES],
                        budget_s=2400, per_path_s=60, desc="three symbolic characters in the string and comment states, single cuts",
                        bound="len(w) == 3, sliced by first-character class"))
        obls.append(Obl("chunk.triples", MOD, "h_chunk", slices=[{"n": 1, "ctx": c, "fam": "triples"} for c in ctxs],
                        budget_s=600, per_path_s=30, desc="every delivery with exactly three cuts", bound="len(w) == 1"))
        obls.append(Obl("kv.len2", MOD, "h_kv", slices=[{"n": 2, "skel": k, "cls": c} for k in ("raw_line",) for c in FIRST_CLASSES],
                        budget_s=2400, per_path_s=60, desc="Keyvalues.parse, two raw symbolic characters", bound="len(w) == 2"))
    return obls


META["bounds"] = ("text = pre + w + post in %d lexical contexts (token start, bare, quoted, after backslash, /* */, after '*', after '/', //, [ ], ( ), "
                  "#directive, between CR and LF, each also unterminated at EOF); w symbolic over ALL code points with an exact length per slice: "
                  "0..1 everywhere and 2 in 8 contexts (quick); 0..2 everywhere, 3 in the string/comment states (thorough); the 7 tokenizer options "
                  "symbolic; deliveries enumerated concretely: one str, one chunk, every single cut, every pair of cuts, one chunk per character, "
                  "empty chunks interleaved (thorough: every triple of cuts for len(w)=1). Keyvalues.parse: 12 concrete skeletons, one symbolic slot "
                  "(len 0..1, 2 raw in thorough), 3 flag truth values and 5 parse options symbolic" % len(CONTEXTS))
META["outside"] = ("w longer than the bound / more than one symbolic region; contexts not listed; deliveries with more than 2 (3) cuts other than "
                   "per-character; file objects (only their iterator protocol = a sequence of str chunks is modelled; 'as lines' is the cut set "
                   "after each LF, covered where the text has <= 2 LFs); non-str chunks (documented ValueError); the Cython tokenizer; "
                   "BaseTokenizer helpers other than __call__/expect/push_back/error; Keyvalues.parse given a pre-built tokenizer; whether the "
                   "tokens are the *right* ones (only delivery-independence, error typing, EOF and linear work are claimed)")
META["assumptions"].append("options are assigned to the public attributes after construction in `chunk` (lazy forking); `ctor` proves the keyword->attribute link")
META["assumptions"].append("deliveries and skeletons are enumerated concretely (enumeration in solver clothing for the cut positions); the characters and options are the solver's")
