"""C14 — DMX export/parse preserves the element graph in binary and KeyValues2 form; KV1 bridge (E1, CrossHair).

Harness families
  h_graph   : graph shape x encoding (binary v1-5, KV2 nested/flat x cull_uuid) x unicode mode, all by symbolic index
  h_strings : one hostile string (by symbolic index) in one slot (element name/type, attribute name, string value, string array)
  h_types   : attribute type code (14 types) x scalar/array/empty array by symbolic index (the ARRAY_OFFSET boundary)
  h_values  : binary v1-5 with genuinely symbolic int / bool / colour channels / blob bytes / int array
              (ModelBytesIO + ModelStruct stubs, Element.parse_bin called directly behind the concrete header)
  h_kv1     : Keyvalues -> from_kv1 -> [binary v5 | KV2] -> to_kv1 equals the tree; leaf value a symbolic string in direct mode
Every harness compares the re-parsed graph with `_iso` (simultaneous walk with identity maps in both directions) and, for binary,
cross-checks the writer's bytes with an independent decoder (`_decode_bin`) that follows Valve's layout (scalars 1..14, arrays 15..28).
"""
from __future__ import annotations

import io
import os
import struct
from uuid import UUID

from vf.core import Obl
from vf.h import Fail, assume, check

MOD = "vf.props.c14"

META = {
    "level": "model_checking",
    "functions": [
        "srctools.dmx:Element.parse", "srctools.dmx:Element.parse_bin", "srctools.dmx:Element.parse_kv2",
        "srctools.dmx:Element._parse_kv2_element", "srctools.dmx:Element.export_binary", "srctools.dmx:Element.export_kv2",
        "srctools.dmx:Element._export_kv2", "srctools.dmx:Element.from_kv1", "srctools.dmx:Element.to_kv1",
        "srctools.dmx:Element.__setitem__", "srctools.dmx:Attribute._iter_array", "srctools.dmx:Attribute._read_val",
        "srctools.dmx:_binconv_basic", "srctools.dmx:_binconv_cls", "srctools.dmx:_conv_time_to_binary",
        "srctools.dmx:_conv_binary_to_time", "srctools.dmx:_conv_matrix_to_binary", "srctools.dmx:_conv_binary_to_matrix",
        "srctools.dmx:_conv_string_to_matrix", "srctools.dmx:_conv_matrix_to_string", "srctools.dmx:_conv_string_to_color",
        "srctools.dmx:_fmt_float", "srctools.dmx:parse_vector", "srctools.dmx:deduce_type_single",
        "srctools.binformat:struct_read", "srctools.binformat:read_nullstr", "srctools.binformat:read_nullstr_array",
        "srctools.tokenizer:escape_text",
    ],
    "bounds": "graphs: 13 shapes of <= 4 elements (single, chain, shared child, root self-reference, nested self-reference (scalar and array), 2-cycle off the root, cycle and "
              "array entry through the root, NULL scalar/in array, stub scalar, stubs in array (shared + distinct), diamond, empty "
              "element array); encodings binary v1-5 and KV2 {nested,flat} x {cull_uuid}; unicode modes ascii/format/silent; hostile "
              "strings by symbolic index from finite lists (<= 16 entries: empty, quote, backslash, backslash-n, newline, tab, braces, "
              "brackets, //, non-ASCII, 200 chars, case variants of 'name'/'id', value-type names) in ONE slot at a time; all 14 value "
              "types as scalar, 2-element array and empty array with concrete float32-exact / 6-decimal-exact constants; binary: "
              "int32, bool, 4 colour channels, blob bytes (exact length 0-2, thorough 3) and a 2-int array fully symbolic; KV1 bridge: "
              "7 skeletons x 2 key slots from 11 keys x block name from 5, leaf value symbolic str of exact length 0-2 (direct mode).",
    "outside": "float continuum and float32 rounding / the '6 decimals' clause beyond the constants; Time values that are not tick "
               "multiples; strings containing NUL (binary cannot express them); binary version 0 (legacy header; the reader's legacy "
               "branch takes match.group(0) and can never accept it — reported, not part of versions 1-5); > 32767 strings in v2-4; "
               "distinct element objects sharing a UUID; elements whose 'name' attribute was deleted or retyped; large sample "
               "documents under tests/; Element.parse header handling for symbolic payloads (h_values calls parse_bin directly).",
    "stubs": ["h_values only: srctools.dmx.pack -> vf.stubs.binio.pack, srctools.binformat._cached_struct -> ModelStruct cache, "
              "srctools.dmx._struct_time -> ModelStruct, TYPE_CONVERT[(INTEGER|BOOL, BINARY)] -> ModelStruct(fmt).pack and the closure "
              "cell `shape` of every _binconv_basic/_binconv_cls converter -> ModelStruct (struct.Struct methods are C; same function by "
              "definition; floats delegated to the real struct and kept concrete)",
              "h_values only: files are vf.stubs.binio.ModelBytesIO (flat list of byte cells); every other harness uses io.BytesIO",
              "sys.intern -> identity, BARE_DISALLOWED -> tuple, casefold fast path (vf.stubs.common.text_stubs)"],
    "trusted_base": ["crosshair-tool 0.0.110", "z3", "vf/chx.py", "vf/stubs/binio.py (validated against io.BytesIO/struct.Struct on every start)",
                     "_decode_bin (independent binary decoder, 70 lines) and _iso (graph comparison) in this module"],
    "assumptions": ["little-endian host", "float-typed values are concrete constants exactly representable in float32 and in 6 decimals",
                    "strings/names/UUIDs are hashed by the exporters (string table, use counts) => chosen by symbolic index from finite "
                    "lists: enumeration in solver clothing for h_graph/h_strings/h_types and the key slots of h_kv1; the values of "
                    "h_values and the leaf value of h_kv1(direct) are genuinely symbolic"],
}

_ENGINE = "native"


def setup(engine):
    global _ENGINE
    _ENGINE = engine
    from vf.stubs import binio
    binio.selftest()
    if engine == "chx":
        from vf.stubs.common import text_stubs
        text_stubs()
        binio.enable_symbolic()


_STUBBED = False


def _stub_structs():
    """Only for h_values under CrossHair: route every struct.Struct use of dmx/binformat through binio.ModelStruct."""
    global _STUBBED
    if _STUBBED or _ENGINE != "chx":
        return
    _STUBBED = True
    from vf.stubs.binio import ModelStruct, pack
    import srctools.binformat as bf
    import srctools.dmx as dmx
    cache = {}

    def cached(fmt):
        if isinstance(fmt, ModelStruct):
            return fmt
        if fmt not in cache:
            cache[fmt] = ModelStruct(fmt)
        return cache[fmt]
    bf._cached_struct = cached
    dmx.pack = pack
    dmx._struct_time = ModelStruct(dmx._struct_time.format)
    dmx._struct_matrix = ModelStruct(dmx._struct_matrix.format)
    VT = dmx.ValueType
    for key, fn in list(dmx.TYPE_CONVERT.items()):
        if VT.BINARY not in key:
            continue
        real = getattr(fn, "__self__", None)
        if isinstance(real, struct.Struct):            # `shape.pack` bound method (_binconv_basic)
            dmx.TYPE_CONVERT[key] = ModelStruct(real.format).pack
            continue
        cells = getattr(fn, "__closure__", None) or ()
        for c in cells:
            if isinstance(c.cell_contents, struct.Struct):
                c.cell_contents = ModelStruct(c.cell_contents.format)


def _native(fn, *args):
    """Run `fn` outside the tracer: every argument is concrete at this point (chosen by `pick`), so the real code runs at
    native speed and CrossHair's library models (re, uuid, TextIOWrapper) cannot blur the verdict."""
    if _ENGINE != "chx":
        return fn(*args)
    from crosshair.tracers import NoTracing
    with NoTracing():
        return fn(*args)


def pick(lst, idx):
    """Concrete element chosen by a symbolic index (one path per element; keeps hashed values concrete)."""
    for k in range(len(lst)):
        if idx == k:
            return lst[k]
    assume(False)


# ------------------------------------------------------------------------------------------------------------
# fixtures
# ------------------------------------------------------------------------------------------------------------

def _u(n):
    return UUID(int=(0x0123456789ABCDEF0123456789ABCD00 + n) ^ (n << 96))


FORMATS = [("bin", 1), ("bin", 2), ("bin", 3), ("bin", 4), ("bin", 5),
           ("kv2", False, False), ("kv2", True, False), ("kv2", False, True), ("kv2", True, True)]
UNICODE = ["ascii", "format", "silent"]

LONG = "L0ng " * 40
# hostile strings; index order is part of the slice definitions and known-finding regions: append only.
# the last two: the format's own header terminator and a whole header line inside user data
HDR_END, HDR_LINE = "a-->b", "<!-- dmx encoding binary 9 format zz 3 -->\n"
H_NAMES = ["", "a", "A", 'q"uote', "back\\slash", "bs\\n", "nl\nline", "t\tab", "{", "}", "[x]", "// c", "café 中", LONG,
           "name", " lead", HDR_END, HDR_LINE]
H_TYPES = ["DmElement", "", 'T"q', "b\\", "bs\\t", "nl\nT", "{", "//", "café", LONG, "dmelement", "DMELEMENT", HDR_END, HDR_LINE]
H_ATTRS = ["a", "Val", 'q"', "b\\", "bs\\n", "nl\nA", "{", "//", "café", LONG, "id", "ID", "elementid", "x y", "", "]", HDR_END]
H_TYPES_VT = ["int", "element", "string_array", "Element", "elementid", "binary"]       # element types that look like value types
H_ATTRS_NAME = ["Name", "NAME"]                                                          # attribute keys that casefold to 'name'
SLOTS = ["rootname", "name", "roottype", "type", "attr", "sval", "sarr", "attr_child", "type_vt", "attr_name"]


# proposed known-finding regions (expressions over the harness arguments), see reports/C14.md
KNOWN_REGIONS = {
    "strings.valuetype_names": "fmt_i in (5, 7) and idx != 4",      # nested KV2, inline child whose type reads as a value type
    "strings.name_casing": "fmt_i < 5",                              # binary: attribute count excludes 'name' by key, the loop by attr.name
}


def _dmx():
    import srctools.dmx as dmx
    return dmx


def _values():
    """(scalar, second value) per ValueType, in VAL_TYPE_TO_IND order; floats are float32- and 6-decimal-exact."""
    d = _dmx()
    from srctools.math import FrozenAngle, FrozenMatrix, FrozenVec, Matrix
    m1 = Matrix()
    m1[0, 0], m1[0, 1], m1[0, 2] = 0.0, 1.0, 0.0
    m1[1, 0], m1[1, 1], m1[1, 2] = -1.0, 0.0, 0.0
    m1[2, 0], m1[2, 1], m1[2, 2] = 0.0, 0.0, 1.0
    m2 = Matrix()
    m2[0, 0], m2[1, 1], m2[2, 2], m2[0, 2] = 0.5, 0.25, 2.0, -0.125
    VT = d.ValueType
    return [
        (VT.ELEMENT, None, None),
        (VT.INT, -2 ** 31, 2 ** 31 - 1),
        (VT.FLOAT, -1.25, 0.015625),
        (VT.BOOL, True, False),
        (VT.STRING, "str \"q\" \\ val", ""),
        (VT.BINARY, b"\x00\xff\x10", b""),
        (VT.TIME, d.Time(1.5), d.Time(0.0001)),
        (VT.COLOR, d.Color(0, 255, 16, 7), d.Color(1, 2, 3)),
        (VT.VEC2, d.Vec2(0.5, -3.0), d.Vec2(0.0, 1024.0)),
        (VT.VEC3, FrozenVec(1.0, -2.5, 0.125), FrozenVec(0.0, 0.0, -0.0)),
        (VT.VEC4, d.Vec4(1.0, 2.0, 3.0, -4.5), d.Vec4(0.0, 0.0, 0.0, 0.0)),
        (VT.ANGLE, FrozenAngle(45.0, 270.0, 0.5), FrozenAngle(0.0, 359.5, 12.25)),
        (VT.QUATERNION, d.Quaternion(0.0, 0.0, 0.5, -0.5), d.Quaternion(1.0, 0.0, 0.0, 0.0)),
        (VT.MATRIX, m1.freeze(), m2.freeze()),
    ]


def _build_shape(shape):
    """Root of graph `shape`; every real element carries a couple of value attributes."""
    d = _dmx()
    E, A, VT, NULL = d.Element, d.Attribute, d.ValueType, d.NULL
    root = E("Root", "DmeRoot", _u(1))
    a = E("A", "DmeNode", _u(2))
    b = E("B", "DmeNode", _u(3))
    c = E("C", "DmeLeaf", _u(4))
    for i, e in enumerate((root, a, b, c)):
        e["Value"] = 10 + i
        e["label"] = "lbl%d" % i
    if shape == 0:        # single
        pass
    elif shape == 1:      # chain
        root["child"] = a
        a["child"] = b
    elif shape == 2:      # shared child: two scalars and array positions
        root["x"] = c
        root["y"] = c
        root["arr"] = A.array("arr", VT.ELEMENT, [c, a, c])
    elif shape == 3:      # root self-reference
        root["self"] = root
    elif shape == 4:      # 2-cycle off the root
        root["child"] = a
        a["next"] = b
        b["next"] = a
    elif shape == 5:      # cycle and array entry leading back to the root
        root["child"] = a
        a["parent"] = root
        a["leaf"] = c
        c["owner"] = root
        c["me"] = c
        root["arr"] = A.array("arr", VT.ELEMENT, [a, NULL, root, c])
    elif shape == 6:      # NULL scalar and NULLs in an array
        root["nothing"] = NULL
        root["arr"] = A.array("arr", VT.ELEMENT, [NULL, a, NULL])
    elif shape == 7:      # stub scalar
        root["ext"] = d.StubElement.stub(_u(20))
        root["child"] = a
    elif shape == 8:      # stubs in an array: the same stub twice and a different one, plus the same stub as a scalar below
        s1 = d.StubElement.stub(_u(21))
        s2 = d.StubElement.stub(_u(22))
        root["arr"] = A.array("arr", VT.ELEMENT, [s1, a, s1, s2])
        a["ext"] = s1
    elif shape == 9:      # diamond
        root["l"] = a
        root["r"] = b
        a["d"] = c
        b["d"] = c
    elif shape == 10:     # empty element array, array of one, nested arrays
        root["none"] = A.array("none", VT.ELEMENT, [])
        root["one"] = A.array("one", VT.ELEMENT, [a])
        a["kids"] = A.array("kids", VT.ELEMENT, [b, c])
    elif shape == 11:     # nested element referenced once that refers to itself (scalar)
        root["child"] = a
        a["me"] = a
    elif shape == 12:     # nested element referenced once that holds itself in an array
        root["child"] = a
        a["loop"] = A.array("loop", VT.ELEMENT, [b, a])
    else:
        raise AssertionError(shape)
    return root


N_SHAPES = 13


# ------------------------------------------------------------------------------------------------------------
# oracles
# ------------------------------------------------------------------------------------------------------------

def _same_value(p, q, path):
    check(type(p) is type(q), "value type at " + path, type(p).__name__, type(q).__name__)
    check(p == q, "value at " + path, p, q)
    if isinstance(p, float):
        check(repr(p) == repr(q), "float sign/repr at " + path, p, q)


def _iso(orig, new, check_uuid=True):
    """Simultaneous walk of both graphs; identity maps in both directions (sharing, cycles), NULL/stub kept, attribute
    names (original casing), order, types, shape, values."""
    d = _dmx()
    VT = d.ValueType
    fwd, back = {}, {}
    keep = []
    stack = [(orig, new, "root")]
    n = 0
    while stack:
        x, y, path = stack.pop()
        if id(x) in fwd:
            check(fwd[id(x)] is y, "sharing lost at " + path, x.name)
            continue
        check(id(y) not in back, "distinct elements merged at " + path, x.name)
        fwd[id(x)] = y
        back[id(y)] = x
        keep.append((x, y))
        n += 1
        check(n < 100, "runaway graph")
        check(isinstance(y, d.Element), "not an element at " + path, type(y).__name__)
        check(x.is_null == y.is_null, "NULL-ness at " + path, y)
        if x.is_null:
            check(y is d.NULL, "NULL is not the singleton at " + path)
            continue
        check(x.is_stub == y.is_stub, "stub-ness at " + path, y)
        if x.is_stub:
            check(y.uuid == x.uuid, "stub UUID at " + path, str(y.uuid), str(x.uuid))
            continue
        check(y.type == x.type, "element type at " + path, y.type, x.type)
        check(y.name == x.name, "element name at " + path, y.name, x.name)
        if check_uuid or x is orig:
            check(y.uuid == x.uuid, "UUID at " + path, str(y.uuid), str(x.uuid))
        xa, ya = list(x.values()), list(y.values())
        check(len(xa) == len(ya), "attribute count at " + path, [t.name for t in ya], [t.name for t in xa])
        for p, q in zip(xa, ya):
            ap = path + "." + p.name
            check(q.name == p.name, "attribute name/order at " + path, q.name, p.name)
            check(q.type is p.type, "attribute type at " + ap, q.type.name, p.type.name)
            check(q.is_array == p.is_array, "scalar/array shape at " + ap, q.is_array)
            if p.is_array:
                check(len(p) == len(q), "array length at " + ap, len(q), len(p))
                pv, qv = list(p._value), list(q._value)
            else:
                pv, qv = [p._value], [q._value]
            for i in range(len(pv)):
                if p.type is VT.ELEMENT:
                    stack.append((pv[i], qv[i], f"{ap}[{i}]"))
                else:
                    _same_value(pv[i], qv[i], f"{ap}[{i}]")
    return n


_SIZES = {2: 4, 3: 4, 4: 1, 7: 4, 8: 4, 9: 8, 10: 12, 11: 16, 12: 12, 13: 16, 14: 64}


def _decode_bin(data, version):
    """Independent reader of the binary layout as documented by Valve (dmserializers): header line, NUL, string table
    (v2+: int16 count/index; v4: int32 count, int16 index; v5: int32 both), element table, attribute records with type byte
    1..14 scalar / 15..28 array.  Returns (elements [(type, name, uuid)], attrs per element [(name, code, array_len|None, payload)])."""
    end = data.index(b"-->") + 3
    check(data[end:end + 2] == b"\n\0", "header terminator")
    pos = [end + 2]

    def rd(fmt):
        v = struct.unpack_from(fmt, data, pos[0])
        pos[0] += struct.calcsize(fmt)
        return v[0]

    def cstr():
        e = data.index(b"\0", pos[0])
        s = data[pos[0]:e]
        pos[0] = e + 1
        return s

    cnt_f = {1: None, 2: "<h", 3: "<h", 4: "<i", 5: "<i"}[version]
    ind_f = {1: None, 2: "<h", 3: "<h", 4: "<h", 5: "<i"}[version]
    table = None
    if cnt_f:
        table = [cstr() for _ in range(rd(cnt_f))]
        check(len(set(table)) == len(table), "duplicate entries in the string table")

    def sref():
        return table[rd(ind_f)] if table is not None else cstr()

    elems = []
    for _ in range(rd("<i")):
        t = sref()
        nm = sref() if version >= 4 else cstr()
        elems.append((t, nm, data[pos[0]:pos[0] + 16]))
        pos[0] += 16
    attrs = []
    for _ in elems:
        cur = []
        for _a in range(rd("<i")):
            nm = sref()
            code = rd("<B")
            check(1 <= code <= 28, "attribute type byte out of range", code)
            base = code if code <= 14 else code - 14
            alen = rd("<i") if code > 14 else None
            payload = []
            for _k in range(1 if alen is None else alen):
                if base == 1:
                    ind = rd("<i")
                    if ind == -2:
                        payload.append(("stub", cstr()))
                    else:
                        check(-1 <= ind < len(elems), "element index out of range", ind)
                        payload.append(ind)
                elif base == 5:
                    payload.append(sref() if (alen is None and version >= 4) else cstr())
                elif base == 6:
                    ln = rd("<i")
                    payload.append(data[pos[0]:pos[0] + ln])
                    pos[0] += ln
                else:
                    payload.append(data[pos[0]:pos[0] + _SIZES[base]])
                    pos[0] += _SIZES[base]
            cur.append((nm, code, alen, payload))
        attrs.append(cur)
    check(pos[0] == len(data), "trailing or missing bytes in the binary file", pos[0], len(data))
    return elems, attrs


def _check_decoded(root, data, version, enc):
    """The writer's bytes, read by the independent decoder, describe the original graph: each real element once (breadth-first
    from the root), attribute names / Valve type bytes / array lengths / element indexes."""
    d = _dmx()
    elems, attrs = _decode_bin(data, version)
    order, index = [root], {id(root): 0}
    for e in order:
        for at in e.values():
            if at.type is d.ValueType.ELEMENT:
                for sub in at.iter_elem():
                    if not isinstance(sub, d.StubElement) and id(sub) not in index:
                        index[id(sub)] = len(order)
                        order.append(sub)
    check(len(elems) == len(order), "element table size", len(elems), len(order))
    for i, e in enumerate(order):
        check(elems[i] == (e.type.encode(enc), e.name.encode(enc), e.uuid.bytes_le), "element table entry", i, elems[i])
        want = [a for a in e.values() if a.name != "name"]
        check(len(attrs[i]) == len(want), "attribute count in file", i, len(attrs[i]), len(want))
        for (nm, code, alen, payload), a in zip(attrs[i], want):
            check(nm == a.name.encode(enc), "attribute name in file", nm, a.name)
            check(code == d.VAL_TYPE_TO_IND[a.type] + (14 if a.is_array else 0), "attribute type byte", a.name, code)
            check(alen == (len(a) if a.is_array else None), "array length in file", a.name, alen)
            if a.type is d.ValueType.ELEMENT:
                for got, sub in zip(payload, a.iter_elem()):
                    if sub is d.NULL:
                        check(got == -1, "NULL reference in file", got)
                    elif sub.is_stub:
                        check(got == ("stub", str(sub.uuid).encode("ascii")), "stub reference in file", got)
                    else:
                        check(got == index[id(sub)], "element index in file", a.name, got, index[id(sub)])


def _all_strings(root):
    d = _dmx()
    out, seen, todo = [], set(), [root]
    while todo:
        e = todo.pop()
        if id(e) in seen or isinstance(e, d.StubElement):
            continue
        seen.add(id(e))
        out += [e.type, e.name]
        for a in e.values():
            out.append(a.name)
            if a.type is d.ValueType.ELEMENT:
                todo.extend(a.iter_elem())
            elif a.type is d.ValueType.STRING:
                out.extend(a.iter_string())
    return out


def _has_time(root):
    d = _dmx()
    seen, todo = set(), [root]
    while todo:
        e = todo.pop()
        if id(e) in seen or isinstance(e, d.StubElement):
            continue
        seen.add(id(e))
        for a in e.values():
            if a.type is d.ValueType.TIME:
                return True
            if a.type is d.ValueType.ELEMENT:
                todo.extend(a.iter_elem())
    return False


def _roundtrip(root, fmt, uni):
    """Export with the public API, parse with Element.parse, compare.  Documented refusals (non-ASCII under unicode='ascii',
    TIME before binary v3) must be raised by the exporter, and then the case ends."""
    d = _dmx()
    ascii_only = all(s.isascii() for s in _all_strings(root))
    f = io.BytesIO()
    refusal = None
    if uni == "ascii" and not ascii_only:
        refusal = UnicodeEncodeError
    if fmt[0] == "bin" and fmt[1] < 3 and _has_time(root):
        refusal = ValueError
    try:
        if fmt[0] == "bin":
            root.export_binary(f, fmt[1], "fmtname", 7, uni)
        else:
            root.export_kv2(f, "fmtname", 7, flat=fmt[1], cull_uuid=fmt[2], unicode=uni)
    except (UnicodeEncodeError, ValueError) as exc:
        if refusal is not None and isinstance(exc, refusal):
            return
        raise
    check(refusal is None, "exporter accepted data the encoding cannot express", fmt, uni)
    data = f.getvalue()
    if fmt[0] == "bin":
        _check_decoded(root, data, fmt[1], "ascii" if uni == "ascii" else "utf8")
    f.seek(0)
    new, fname, fver = d.Element.parse(f, unicode=(uni == "silent"))
    check((fname, fver) == ("fmtname", 7), "format name/version", fname, fver)
    _iso(root, new, check_uuid=not (fmt[0] == "kv2" and fmt[2] and not fmt[1]))
    if fmt[0] == "bin":
        check(f.read(1) == b"", "binary parser did not consume the whole file")


# ------------------------------------------------------------------------------------------------------------
# harnesses
# ------------------------------------------------------------------------------------------------------------

def h_graph(shape: int, fmt_i: int, uni_i: int) -> None:
    """Graph shapes x encodings x unicode modes."""
    assume(0 <= shape < N_SHAPES and 0 <= fmt_i < len(FORMATS) and 0 <= uni_i < 3)
    sh = pick(list(range(N_SHAPES)), shape)
    fmt = pick(FORMATS, fmt_i)
    uni = pick(UNICODE, uni_i)
    _native(lambda: _roundtrip(_build_shape(sh), fmt, uni))


def h_graph_witness(shape: int, fmt_i: int, uni_i: int) -> None:
    h_graph(shape, fmt_i, uni_i)
    raise Fail("reached")


def _slot_list(slot):
    return {"rootname": H_NAMES, "name": H_NAMES, "roottype": H_TYPES, "type": H_TYPES, "attr": H_ATTRS, "attr_child": H_ATTRS,
            "sval": H_NAMES, "sarr": H_NAMES, "type_vt": H_TYPES_VT, "attr_name": H_ATTRS_NAME}[slot]


def _build_strings(slot, s):
    d = _dmx()
    E, A, VT = d.Element, d.Attribute, d.ValueType
    g = {k: None for k in SLOTS}
    g[slot] = s
    root = E(g["rootname"] if slot == "rootname" else "Root", g["roottype"] if slot == "roottype" else "DmeRoot", _u(1))
    child_type = s if slot in ("type", "type_vt") else "DmeNode"
    child = E(s if slot == "name" else "Kid", child_type, _u(2))
    other = E("Kid", child_type, _u(3))          # same name/type strings again: string-table sharing
    shared = E("Sh", child_type, _u(4))
    if slot in ("attr", "attr_name"):
        root[s] = 41
    else:
        root["Num"] = 41
    root["text"] = s if slot == "sval" else "plain"
    root["texts"] = A.array("texts", VT.STRING, ["s1", s if slot == "sarr" else "mid", "s1", ""])
    root["child"] = child                         # inline in nested KV2
    root["kids"] = A.array("kids", VT.ELEMENT, [other, shared, shared])   # inline + by reference
    if slot == "attr_child":
        child[s] = "cv"
        other[s] = d.Color(1, 2, 3, 4)
    else:
        child["cattr"] = "cv"
    return root


def h_strings(idx: int, fmt_i: int, uni_i: int, slot: str) -> None:
    """One hostile string, chosen by symbolic index, in one slot; encodings and unicode modes by symbolic index."""
    lst = _slot_list(slot)
    assume(0 <= idx < len(lst) and 0 <= fmt_i < len(FORMATS) and 0 <= uni_i < 3)
    s = pick(lst, idx)
    fmt = pick(FORMATS, fmt_i)
    uni = pick(UNICODE, uni_i)
    _native(lambda: _roundtrip(_build_strings(slot, s), fmt, uni))


def h_strings_witness(idx: int, fmt_i: int, uni_i: int, slot: str) -> None:
    h_strings(idx, fmt_i, uni_i, slot)
    raise Fail("reached")


def h_types(tcode: int, arr: int, fmt_i: int, uni_i: int) -> None:
    """Attribute type by symbolic index over the 14 types x {scalar, 2-element array, empty array, 1-element array}."""
    assume(0 <= tcode < 14 and 0 <= arr < 4 and 0 <= fmt_i < len(FORMATS) and 0 <= uni_i < 3)
    tc = pick(list(range(14)), tcode)
    shape = pick([0, 1, 2, 3], arr)
    fmt = pick(FORMATS, fmt_i)
    uni = pick(UNICODE, uni_i)
    _native(_types_case, tc, shape, fmt, uni)


def _types_case(tc, shape, fmt, uni):
    d = _dmx()
    vt, v1, v2 = _values()[tc]
    root = d.Element("Root", "DmeRoot", _u(1))
    kid = d.Element("Kid", "DmeNode", _u(2))
    if vt is d.ValueType.ELEMENT:
        v1, v2 = kid, d.NULL
    root["before"] = 1
    val = [v1, [v1, v2], [], [v2]][shape]
    root["TheAttr"] = d.Attribute("TheAttr", vt, val)
    root["after"] = "z"
    kid["deep"] = d.Attribute("deep", vt, [v2, v1] if shape else v2)
    root["tail"] = kid
    _roundtrip(root, fmt, uni)


def h_types_witness(tcode: int, arr: int, fmt_i: int, uni_i: int) -> None:
    h_types(tcode, arr, fmt_i, uni_i)
    raise Fail("reached")


def _new_file():
    if _ENGINE == "chx":
        from vf.stubs.binio import ModelBytesIO
        return ModelBytesIO()
    return io.BytesIO()


def _header_end(f):
    """Offset just behind '-->' (the header is the first, concrete, write)."""
    cells = f.cells if hasattr(f, "cells") else list(f.getvalue()[:300])
    for i in range(min(len(cells), 300) - 2):
        if cells[i] == 45 and cells[i + 1] == 45 and cells[i + 2] == 62:
            return i + 3
    raise Fail("no header terminator")


TICKS = [0, 1, -1, 15000, -10000, -605000, 2147483647, -2147483648, 5, -5]     # TIME values as 1/10000 s tick counts


def h_values(iv: int, iw: int, bv: bool, r: int, g: int, b: int, a: int, blob: bytes, nblob: int, version: int, kind: str) -> None:
    """Binary export -> parse_bin with symbolic wire values, one kind per slice: int32 scalar and 2-array / bool scalar and
    array / colour channels / blob bytes (scalar and array member) / TIME values by symbolic index over a table of tick counts
    of both signs.  Unused symbolic arguments are pinned."""
    d = _dmx()
    _stub_structs()
    assume(len(blob) == nblob)
    if kind == "time":
        t1 = pick(TICKS, iv)
        t2 = pick(TICKS, iw)
    elif kind != "int":
        assume(iv == 0 and iw == 0)
    if kind != "bool":
        assume(not bv)
    if kind != "color":
        assume(r == 0 and g == 0 and b == 0 and a == 0)
    if kind != "blob":
        assume(nblob == 0)
    A, VT = d.Attribute, d.ValueType
    root = d.Element("Root", "DmeRoot", _u(1))
    kid = d.Element("Kid", "DmeNode", _u(2))
    root["before"] = A("before", VT.BINARY, b"\x01\x02")
    if kind == "int":
        assume((-2 ** 31 <= iv) & (iv < 2 ** 31) & (-2 ** 31 <= iw) & (iw < 2 ** 31))
        root["i"] = A("i", VT.INT, iv)
        kid["ia"] = A("ia", VT.INT, [iw, 7, iv])
    elif kind == "bool":
        root["flag"] = A("flag", VT.BOOL, bv)
        kid["flags"] = A("flags", VT.BOOL, [True, bv, False])
    elif kind == "color":
        assume((0 <= r) & (r < 256) & (0 <= g) & (g < 256) & (0 <= b) & (b < 256) & (0 <= a) & (a < 256))
        col = object.__new__(d.Color)               # the attrs converter clamps (forks); the range is a precondition here
        for nm, val in (("r", r), ("g", g), ("b", b), ("a", a)):
            object.__setattr__(col, nm, val)
        root["col"] = A("col", VT.COLOR, col)
        kid["cols"] = A("cols", VT.COLOR, [d.Color(1, 2, 3, 4), col])
    elif kind == "time":
        root["t"] = A("t", VT.TIME, d.Time(t1 / 10000.0))
        kid["ts"] = A("ts", VT.TIME, [d.Time(t2 / 10000.0), d.Time(0.0), d.Time(t1 / 10000.0)])
    else:
        root["blob"] = A("blob", VT.BINARY, blob)
        kid["blobs"] = A("blobs", VT.BINARY, [b"\x00", blob, b""])
    root["kid"] = kid
    kid["back"] = root
    root["after"] = "tail"
    f = _new_file()
    root.export_binary(f, version, "fmtname", 7)
    f.seek(_header_end(f))
    new = d.Element.parse_bin(f, version, False)
    check(f.read(1) == b"", "binary parser did not consume the whole file")
    _iso(root, new)
    if kind == "blob":
        check(len(new["blob"].val_bytes) == nblob, "blob length", len(new["blob"].val_bytes))


def h_values_witness(iv: int, iw: int, bv: bool, r: int, g: int, b: int, a: int, blob: bytes, nblob: int, version: int, kind: str) -> None:
    h_values(iv, iw, bv, r, g, b, a, blob, nblob, version, kind)
    raise Fail("reached")


# ------------------------------------------------------------------------------------------------------------
# KV1 bridge
# ------------------------------------------------------------------------------------------------------------

KV_KEYS = ["key", "Key", "name", "Name", "NAME", "subkeys", "SubKeys", "id", "value", "Value", 'q"k']
KV_BLOCKS = ["Block", "name", "DmElement", "", "subkeys"]
N_SKEL = 7
KV_MODES = ["direct", "binary", "kv2", "kv2flat"]


def _kv_tree(skel, blk, k1, k2, v):
    from srctools.keyvalues import Keyvalues as P
    if skel == 0:
        return P("Root", [P(blk, [P(k1, v), P(k2, "1")])])
    if skel == 1:
        return P(blk, [P(k1, v)])
    if skel == 2:
        return P("Root", [P(blk, [P(k1, v), P(k2, "2"), P(k1, "again")])])
    if skel == 3:
        return P(blk, [P(k1, v), P("Sub", [P(k2, "x")]), P("Sub", [])])
    if skel == 4:
        root = P.root()
        root.append(P(blk, [P(k1, v)]))
        root.append(P(k2, "leaf"))
        return root
    if skel == 5:
        return P(k1, v)
    if skel == 6:
        return P(blk, [P(k1, [P(k2, v), P(k2.swapcase(), "w")])])
    raise AssertionError(skel)


def _describe(kv):
    if kv.has_children():
        return (kv.real_name, [_describe(c) for c in kv])
    return (kv.real_name, kv.value)


def _tree_eq(a, b, path="kv"):
    check(isinstance(a, tuple) and isinstance(b, tuple), "shape")
    check((a[0] is None) == (b[0] is None), "root-ness at " + path, b[0])
    if a[0] is not None:
        check(len(a[0]) == len(b[0]) and a[0] == b[0], "key at " + path, b[0], a[0])
    check(isinstance(a[1], list) == isinstance(b[1], list), "block/leaf at " + path + "/" + str(a[0]), b)
    if isinstance(a[1], list):
        check(len(a[1]) == len(b[1]), "child count at " + path + "/" + str(a[0]), len(b[1]), len(a[1]))
        for i in range(len(a[1])):
            _tree_eq(a[1][i], b[1][i], path + "/" + str(a[0]))
    else:
        check(len(a[1]) == len(b[1]), "value length at " + path + "/" + str(a[0]), len(b[1]), len(a[1]))
        check(a[1] == b[1], "value at " + path + "/" + str(a[0]), b[1], a[1])


def h_kv1(skel: int, blk_i: int, k1_i: int, k2_i: int, v: str, nv: int, mode: str, nblk: int = 5) -> None:
    """to_kv1(from_kv1(t)) == t, directly and through a binary v5 / KV2 file."""
    d = _dmx()
    assume(0 <= skel < N_SKEL and 0 <= blk_i < nblk and 0 <= k1_i < len(KV_KEYS) and 0 <= k2_i < len(KV_KEYS))
    assume(len(v) == nv)
    if mode != "direct":
        assume(v == "v\"\\"[:nv])       # files hash their strings: value concrete here (symbolic in direct mode)
        v = "v\"\\"[:nv]
    else:
        assume(all([ord(ch) != 0 for ch in v]))
    sk = pick(list(range(N_SKEL)), skel)
    blk = pick(KV_BLOCKS, blk_i)
    k1 = pick(KV_KEYS, k1_i)
    k2 = pick(KV_KEYS, k2_i)
    if mode == "direct":
        _kv1_case(sk, blk, k1, k2, v, mode)
    else:
        _native(_kv1_case, sk, blk, k1, k2, v, mode)


def _kv1_case(sk, blk, k1, k2, v, mode):
    d = _dmx()
    tree = _kv_tree(sk, blk, k1, k2, v)
    want = _describe(tree)
    elem = d.Element.from_kv1(tree)
    if mode != "direct":
        f = io.BytesIO()
        if mode == "binary":
            elem.export_binary(f, 5)
        else:
            elem.export_kv2(f, flat=(mode == "kv2flat"))
        f.seek(0)
        elem = d.Element.parse(f)[0]
    _tree_eq(want, _describe(elem.to_kv1()))


def h_kv1_witness(skel: int, blk_i: int, k1_i: int, k2_i: int, v: str, nv: int, mode: str, nblk: int = 5) -> None:
    h_kv1(skel, blk_i, k1_i, k2_i, v, nv, mode, nblk)
    raise Fail("reached")


# ------------------------------------------------------------------------------------------------------------
# obligations
# ------------------------------------------------------------------------------------------------------------

def obligations(tier):
    quick = tier == "quick"
    obls = []
    obls.append(Obl("graph.roundtrip", MOD, "h_graph", slices=[{}], budget_s=900, per_path_s=60,
                    desc="export -> Element.parse gives an isomorphic graph (types, names, UUIDs, sharing/cycles by identity maps, "
                         "NULL and stubs kept, attribute order/casing/type/shape/values); binary bytes agree with an independent decoder",
                    bound="13 shapes x 9 encodings (binary v1-5, KV2 nested/flat x cull_uuid) x 3 unicode modes, all by symbolic index"))
    obls.append(Obl("graph.witness", MOD, "h_graph_witness", slices=[{}], budget_s=120, per_path_s=60, witness=True, desc="reachability twin"))
    slots = ["rootname", "name", "roottype", "type", "attr", "sval", "sarr", "attr_child"]
    obls.append(Obl("strings.roundtrip", MOD, "h_strings", slices=[{"slot": s} for s in slots], budget_s=900, per_path_s=60,
                    desc="one hostile string in one slot (element name/type of root and of an inline child, attribute name on root / on "
                         "children, scalar string value, string-array member) survives every encoding x unicode mode; non-ASCII under "
                         "unicode='ascii' must be refused with UnicodeEncodeError",
                    bound="12-16 hostile strings per slot by symbolic index x 9 encodings x 3 unicode modes"))
    obls.append(Obl("strings.valuetype_names", MOD, "h_strings", slices=[{"slot": "type_vt"}], budget_s=600, per_path_s=60,
                    desc="element types spelled like KV2 value types ('int', 'element', 'string_array', ...) on inline children",
                    bound="6 names x 9 encodings x 3 unicode modes"))
    obls.append(Obl("strings.name_casing", MOD, "h_strings", slices=[{"slot": "attr_name"}], budget_s=600, per_path_s=60,
                    desc="an attribute assigned under a key that casefolds to 'name' ('Name', 'NAME') replaces the name attribute; the "
                         "element must still round-trip",
                    bound="2 keys x 9 encodings x 3 unicode modes"))
    if os.environ.get("VF_C14_EMULATE_KNOWN"):     # development aid: what core does once the two proposals are in known_findings.json
        obls[-2].slices = [dict(sl, _exclude=[KNOWN_REGIONS["strings.valuetype_names"]]) for sl in obls[-2].slices]
        obls[-1].slices = [dict(sl, _exclude=[KNOWN_REGIONS["strings.name_casing"]]) for sl in obls[-1].slices]
    obls.append(Obl("strings.witness", MOD, "h_strings_witness", slices=[{"slot": "attr"}], budget_s=120, per_path_s=60, witness=True,
                    desc="reachability twin"))
    obls.append(Obl("types.roundtrip", MOD, "h_types", slices=[{}], budget_s=900, per_path_s=60,
                    desc="every value type as scalar / 2-array / empty array / 1-array keeps type, shape and value in every encoding; "
                         "the independent decoder sees Valve's type byte (scalar 1..14, array 15..28) and array length",
                    bound="14 types x 4 shapes x 9 encodings x 3 unicode modes by symbolic index; concrete exact constants"))
    obls.append(Obl("types.witness", MOD, "h_types_witness", slices=[{}], budget_s=120, per_path_s=60, witness=True, desc="reachability twin"))
    vs = [{"version": v, "nblob": 0, "kind": k} for v in (1, 2, 3, 4, 5) for k in ("int", "bool", "color")]
    vs += [{"version": v, "nblob": n, "kind": "blob"} for v in ((2, 5) if quick else (1, 2, 3, 4, 5)) for n in ((1,) if quick else (1, 2))]
    vs += [{"version": v, "nblob": 0, "kind": "time"} for v in (3, 4, 5)]
    obls.append(Obl("values.binary", MOD, "h_values", slices=vs, budget_s=900, per_path_s=300,
                    desc="binary export -> parse_bin with symbolic wire values, one kind per slice: int32 (scalar + array), bool (scalar + "
                         "array), 4 colour channels, blob bytes (scalar + array member): exact values, types and shapes",
                    bound="versions 1-5; every int32 pair, both bools, every colour, every blob of exact length 1 (thorough 1-2; empty blobs "
                          "are concrete members of every case)"))
    obls.append(Obl("values.witness", MOD, "h_values_witness", slices=[{"version": 5, "nblob": 0, "kind": "int"}, {"version": 4, "nblob": 0, "kind": "color"}], budget_s=120, per_path_s=60,
                    witness=True, desc="reachability twin"))
    nb = 2 if quick else 5
    ks = [{"mode": "direct", "nv": n, "nblk": nb} for n in ((1,) if quick else (0, 1, 2))]
    ks += [{"mode": m, "nv": 3, "nblk": nb} for m in ("binary", "kv2", "kv2flat")]
    obls.append(Obl("kv1.bridge", MOD, "h_kv1", slices=ks, budget_s=900, per_path_s=60,
                    desc="to_kv1(from_kv1(t)) equals t (names with casing, order, values, block/leaf), directly and through binary v5 / KV2",
                    bound="7 skeletons x block name from 2 (thorough 5) x two key slots from 11 keys (reserved names in three casings, duplicates via "
                          "k1==k2); leaf value: symbolic non-NUL str of exact length 1 (thorough 0-2) in direct mode, concrete through files"))
    obls.append(Obl("kv1.witness", MOD, "h_kv1_witness", slices=[{"mode": "direct", "nv": 1, "nblk": 1}], budget_s=120, per_path_s=60, witness=True,
                    desc="reachability twin"))
    return obls
