"""C15 — VTF: pixel codecs exact up to the documented quantisation (E2, bit-vectors), bounds-checked pixel access (E1),
mipmap kernel (E2), sheet sequences and file structure round trip (E1)."""
from __future__ import annotations

import json
import re
import time

from vf.core import Obl
from vf.h import Fail, assume, check

MOD = "vf.props.c15"

META = {
    "level": "other",
    "functions": ["srctools._py_vtf_readwrite:save_rgb565", "srctools._py_vtf_readwrite:load_rgb565", "srctools._py_vtf_readwrite:compress565",
                  "srctools._py_vtf_readwrite:decomp565", "srctools._py_vtf_readwrite:upsample", "srctools._py_vtf_readwrite:save_bgra4444",
                  "srctools._py_vtf_readwrite:load_bgra4444", "srctools._py_vtf_readwrite:save_bgra5551", "srctools._py_vtf_readwrite:load_bgra5551",
                  "srctools._py_vtf_readwrite:save_bgrx5551", "srctools._py_vtf_readwrite:load_bgrx5551", "srctools._py_vtf_readwrite:save_i8",
                  "srctools._py_vtf_readwrite:save_ia88", "srctools._py_vtf_readwrite:saveload_rgba", "srctools._py_vtf_readwrite:save_bgrx8888",
                  "srctools._py_vtf_readwrite:save_rgb888_bluescreen", "srctools._py_vtf_readwrite:load_rgb888_bluescreen",
                  "srctools._py_vtf_readwrite:scale_down", "srctools.vtf:Frame.__getitem__", "srctools.vtf:Frame.__setitem__",
                  "srctools.vtf:SheetSequence.make_data", "srctools.vtf:SheetSequence.from_resource", "srctools.vtf:VTF.save", "srctools.vtf:VTF.read",
                  "srctools.vtf:VTF.compute_mipmaps", "srctools.vtf:Frame.rescale_from", "srctools.vtf:VTF._depth_range"],
    "bounds": "codecs: ALL 8-bit channel values of a 2x1 image (2 pixels, so neighbour interference shows), per writable uncompressed format; "
              "scale_down: all channel values of 2x2, 2x1, 1x2 sources, 5 filters; Frame access: x,y in [-3, w+2]x[-3, h+2] for w,h in {1,2,4}; "
              "sheet: sequence counts {0,1,2,63,64,65} (slices), symbolic version/clamp/frame count/numbering; structure: sizes 1..8, frames 1..2, depth 1..2, cubemaps, versions 7.2-7.5 "
              "chosen by index with concrete distinct pixels",
    "outside": "DXT/ATI compressed formats (no Python encoder), the Cython codec, images larger than the bound as symbols, 16-bit float formats",
    "stubs": ["srctools._py_vtf_readwrite.memoryview -> identity (pixel buffers are plain lists of SymInt in the codec obligations)",
              "srctools.vtf.BytesIO -> list-backed model in the sheet obligation"],
    "trusted_base": ["z3 bit-vector solver", "vf/symx.py (SymInt with no-overflow side obligations)", "crosshair-tool 0.0.110", "the per-format quantisation table in this file"],
    "assumptions": ["documented quantisation = keep the format's top bits per channel and replicate them into the low bits; 1-bit alpha = a>=128; "
                    "bluescreen: a<128 or pure blue -> transparent black; I8 = (r+g+b)//3"],
    "explanation": "Codec and mipmap kernels: the real save_*/load_*/scale_down functions run on lists of 32-bit bit-vector terms; each law "
                   "(load(save(p)) == Q(p), save(load(save(p))) == save(p), bytes in range, arithmetic never exceeds 32 bits) is one z3 query over "
                   "all 2^64 pixel-pair values. Access bounds, sheet sequences and file structure run under CrossHair.",
}


_TRACED = False


def setup(engine):
    global _TRACED
    if engine == "chx":
        import srctools.vtf as vtf
        from vf.stubs import binio
        binio.selftest()
        binio.enable_symbolic()
        _TRACED = True
        vtf.BytesIO = _ListIO
        vtf._HEADER = binio.ModelStruct(vtf._HEADER.format)
        class _StructMod(binio.StructModule):
            def unpack_from(self, fmt, buf, offset=0):
                return binio.unpack(fmt, buf[offset:offset + binio.calcsize(fmt)])
        vtf.struct = _StructMod()


class _ListIO:
    def __init__(self):
        self.parts = []

    def write(self, b):
        self.parts.append(b)
        return len(b)

    def getvalue(self):
        out = b""
        for p in self.parts:
            out = out + p
        return out


# ---------------------------------------------------------------- quantisation table (independent of the code)

def _q(bits):
    def f(x):
        top = x & (0xFF ^ ((1 << (8 - bits)) - 1))
        return top | (top >> bits)
    return f


q4, q5, q6 = _q(4), _q(5), _q(6)


def _ite(symx, c, a, b):
    import z3
    return symx.SymInt(z3.If(c, symx._bv(a), symx._bv(b)))


def _expected(fmt, r, g, b, a, symx):
    """Documented result of load(save(pixel)) per format; returns (r, g, b, a) as SymInt/int."""
    import z3
    full = 255
    if fmt in ("rgba8888", "bgra8888", "argb8888", "abgr8888", "uvlx8888", "uvwq8888"):
        return r, g, b, a
    if fmt in ("rgb888", "bgr888", "bgrx8888"):
        return r, g, b, full
    if fmt == "rgb565" or fmt == "bgr565":
        return q5(r), q6(g), q5(b), full
    if fmt == "bgra4444":
        return q4(r), q4(g), q4(b), q4(a)
    if fmt == "bgra5551":
        return q5(r), q5(g), q5(b), _ite(symx, z3.UGE(symx._bv(a), 128), 255, 0)
    if fmt == "bgrx5551":
        return q5(r), q5(g), q5(b), full
    if fmt == "i8":
        i = (r + g + b) // 3
        return i, i, i, full
    if fmt == "ia88":
        i = (r + g + b) // 3
        return i, i, i, a
    if fmt == "a8":
        return 0, 0, 0, a
    if fmt == "uv88":
        return r, g, 0, full
    if fmt in ("rgb888_bluescreen", "bgr888_bluescreen"):
        transparent = z3.Or(z3.ULT(symx._bv(a), 128), z3.And(symx._bv(r) == 0, symx._bv(g) == 0, symx._bv(b) == 255))
        return (_ite(symx, transparent, 0, r), _ite(symx, transparent, 0, g), _ite(symx, transparent, 0, b), _ite(symx, transparent, 0, 255))
    raise KeyError(fmt)


FORMATS = ["rgba8888", "bgra8888", "argb8888", "abgr8888", "uvlx8888", "uvwq8888", "rgb888", "bgr888", "bgrx8888", "rgb565", "bgr565",
           "bgra4444", "bgra5551", "bgrx5551", "i8", "ia88", "a8", "uv88", "rgb888_bluescreen", "bgr888_bluescreen"]
BYTES_PER_PIXEL = {"rgba8888": 4, "bgra8888": 4, "argb8888": 4, "abgr8888": 4, "uvlx8888": 4, "uvwq8888": 4, "rgb888": 3, "bgr888": 3, "bgrx8888": 4,
                   "rgb565": 2, "bgr565": 2, "bgra4444": 2, "bgra5551": 2, "bgrx5551": 2, "i8": 1, "ia88": 2, "a8": 1, "uv88": 2,
                   "rgb888_bluescreen": 3, "bgr888_bluescreen": 3}


def o_codec(fmt: str, _exclude=None, _concrete=None):
    """Laws of one pixel format on a 2x1 image, for all channel values."""
    import z3
    from vf import symx
    import srctools._py_vtf_readwrite as rw
    t0 = time.perf_counter()
    skip = [re.compile(x) for x in (_exclude or [])]
    rw.memoryview = lambda x: x            # buffers are plain lists here
    save, load = getattr(rw, "save_" + fmt), getattr(rw, "load_" + fmt)
    W, H = 2, 1
    npx = W * H
    items, fail, unknown = [], None, []
    names = [f"p{i}{c}" for i in range(npx) for c in "rgba"]
    if _concrete is not None:
        pix = [int(_concrete.get(n, 0)) for n in names]
    else:
        vars_ = [z3.BitVec(n, symx.BITS) for n in names]
        rng = [z3.ULE(v, 255) for v in vars_]
        pix = [symx.SymInt(v) for v in vars_]
    bpp = BYTES_PER_PIXEL[fmt]

    def run(fn):
        """Run a codec function under the DFS engine (codecs branch on pixel values in the bluescreen formats)."""
        if _concrete is not None:
            return [([], fn())]
        return [(pc, res) for pc, res, _unk in symx.explore(fn, rng, timeout_ms=20000, max_paths=64)]

    def prove(label, cons, goal_pairs, extra_goal=None):
        nonlocal fail
        if any(rx.search(f"{fmt}: {label}") for rx in skip):
            items.append({"q": f"{fmt}: {label}", "r": "skipped (open known finding)"})
            return
        if _concrete is not None:
            bad = [(i, int(g), int(w)) for i, (g, w) in enumerate(goal_pairs) if int(g) != int(w)]
            items.append({"q": f"{fmt}: {label}", "r": "ok" if not bad else "FAILED"})
            if bad and fail is None:
                fail = {"query": f"{fmt}: {label}", "goal": f"index/got/want {bad[:4]}", "model": dict(zip(names, pix))}
            return
        goal = z3.And([symx._bv(g) == symx._bv(w) for g, w in goal_pairs] + ([extra_goal] if extra_goal is not None else []))
        res, model = symx.prove(cons, goal, 60000)
        items.append({"q": f"{fmt}: {label}", "r": {"holds": "unsat", "cex": "sat"}.get(res, res)})
        if res == "cex" and fail is None:
            fail = {"query": f"{fmt}: {label}", "goal": "", "model": {n: symx.model_value(model, v) for n, v in zip(names, vars_)}}
        elif res == "unknown":
            unknown.append(f"{fmt}: {label}")

    def do_save(p):
        data = [0] * (bpp * npx)
        save(list(p), data, W, H)
        return data

    def do_load(d):
        out = [0] * (4 * npx)
        load(out, list(d), W, H)
        return out

    symx.SymInt.OVERFLOW.clear()
    want = []
    for i in range(npx):
        want += list(_expected(fmt, pix[4 * i], pix[4 * i + 1], pix[4 * i + 2], pix[4 * i + 3], symx if _concrete is None else _ConcreteSymx))
    npaths = 0
    for pc1, data in run(lambda: do_save(pix)):
        cons1 = ([] if _concrete is not None else rng + pc1)
        if _concrete is None:
            prove("saved bytes in 0..255", cons1, [], z3.And([z3.ULE(symx._bv(d), 255) for d in data]))
        else:
            check(all(0 <= int(d) <= 255 for d in data), "byte range")
        for pc2, back in run(lambda: do_load(data)):
            npaths += 1
            cons2 = cons1 + ([] if _concrete is not None else pc2)
            prove("load(save(p)) == quantised(p)", cons2, list(zip(back, want)))
            for pc3, data2 in run(lambda: do_save(back)):
                cons3 = cons2 + ([] if _concrete is not None else pc3)
                prove("save(load(save(p))) == save(p)", cons3, list(zip(data2, data)))
    if _concrete is None:
        ov = list(symx.SymInt.OVERFLOW)
        if ov:
            s = symx.new_solver(60000)
            s.add(rng)
            s.add(z3.Or(ov))
            r = symx.check(s)
            items.append({"q": f"{fmt}: no intermediate exceeds 32 bits ({len(ov)} operations)", "r": r})
            if r != "unsat":
                unknown.append(f"{fmt}: 32-bit model not exact ({r})")
        if symx.satisfiable(rng) != "sat":
            return {"verdict": "vacuous"}
    st = symx.STATS
    if _concrete is not None:
        return {"verdict": "reproduced" if fail else "not-reproduced", "detail": json.dumps(fail)[:1200]}
    verdict = "refuted" if fail else ("unknown" if unknown else "confirmed")
    return {"verdict": verdict, "queries": st["queries"], "solver_checks": st["queries"], "solver_s": round(st["seconds"], 3), "paths": npaths,
            "cex": (dict(fail["model"], _query=fail["query"]) if fail else None), "failure": fail, "unknown_reasons": {u: 1 for u in unknown[:6]},
            "samples": [items[:4]], "wall_s": round(time.perf_counter() - t0, 3)}


class _ConcreteSymx:
    """Concrete stand-ins so _expected() can be evaluated on plain ints during replay."""
    @staticmethod
    def _bv(x):
        return x


def _ite_concrete(c, a, b):
    return a if c else b


def replay_codec(fmt: str, **cex):
    """Replay a codec model on the real functions with real array('B') buffers."""
    import array
    import srctools._py_vtf_readwrite as rw
    q = cex.pop("_query", "")
    names = [f"p{i}{c}" for i in range(2) for c in "rgba"]
    pix = array.array("B", [int(cex.get(n, 0)) & 255 for n in names])
    save, load = getattr(rw, "save_" + fmt), getattr(rw, "load_" + fmt)
    bpp = BYTES_PER_PIXEL[fmt]
    data = bytearray(bpp * 2)
    save(pix, memoryview(data), 2, 1)
    back = array.array("B", bytes(8))
    load(back, memoryview(bytes(data)), 2, 1)
    want = []
    for i in range(2):
        r, g, b, a = (pix[4 * i + k] for k in range(4))
        want += list(_expected_concrete(fmt, r, g, b, a))
    if "quantised" in q:
        check(list(back) == want, f"{fmt}: load(save(p)) != quantised(p)", list(pix), list(back), want)
    data2 = bytearray(bpp * 2)
    save(back, memoryview(data2), 2, 1)
    if "save(load(save" in q:
        check(bytes(data2) == bytes(data), f"{fmt}: re-saving changes the stored bytes", list(pix), bytes(data).hex(), bytes(data2).hex())
    check(list(back) == want and bytes(data2) == bytes(data), f"{fmt}: codec law violated", list(pix), list(back), want)


def _expected_concrete(fmt, r, g, b, a):
    if fmt in ("rgba8888", "bgra8888", "argb8888", "abgr8888", "uvlx8888", "uvwq8888"):
        return r, g, b, a
    if fmt in ("rgb888", "bgr888", "bgrx8888"):
        return r, g, b, 255
    if fmt in ("rgb565", "bgr565"):
        return q5(r), q6(g), q5(b), 255
    if fmt == "bgra4444":
        return q4(r), q4(g), q4(b), q4(a)
    if fmt == "bgra5551":
        return q5(r), q5(g), q5(b), 255 if a >= 128 else 0
    if fmt == "bgrx5551":
        return q5(r), q5(g), q5(b), 255
    if fmt == "i8":
        i = (r + g + b) // 3
        return i, i, i, 255
    if fmt == "ia88":
        i = (r + g + b) // 3
        return i, i, i, a
    if fmt == "a8":
        return 0, 0, 0, a
    if fmt == "uv88":
        return r, g, 0, 255
    if a < 128 or (r, g, b) == (0, 0, 255):
        return 0, 0, 0, 0
    return r, g, b, 255


# ---------------------------------------------------------------- mipmap kernel (E2)

def o_scale_down(sw: int, sh: int, _exclude=None):
    """scale_down: halved dimensions (min 1); bilinear output is floor(sum/4) of the 4 (or doubled 2) parent texels,
    nearest modes copy the documented parent texel. All channel values."""
    import z3
    from vf import symx
    import srctools._py_vtf_readwrite as rw
    import srctools.vtf as vtf
    t0 = time.perf_counter()
    items, fail, unknown = [], None, []
    w, h = max(sw // 2, 1), max(sh // 2, 1)
    vars_ = [z3.BitVec(f"s{i}", symx.BITS) for i in range(4 * sw * sh)]
    rng = [z3.ULE(v, 255) for v in vars_]
    src = [symx.SymInt(v) for v in vars_]

    def texel(x, y, c):
        return src[4 * (sw * y + x) + c]
    for filt in vtf.FilterMode:
        dest = [0] * (4 * w * h)
        symx.SymInt.OVERFLOW.clear()
        rw.scale_down(filt, sw, sh, w, h, list(src), dest)
        goals = []
        for y in range(h):
            for x in range(w):
                x0, y0 = (2 * x if sw != w else x), (2 * y if sh != h else y)
                x1, y1 = (x0 + 1 if sw != w else x0), (y0 + 1 if sh != h else y0)
                for c in range(4):
                    got = dest[4 * (w * y + x) + c]
                    if filt.value == 4:
                        wantv = (texel(x0, y0, c) + texel(x1, y0, c) + texel(x0, y1, c) + texel(x1, y1, c)) // 4
                    else:
                        px, py = [(x0, y0), (x1, y0), (x0, y1), (x1, y1)][filt.value]
                        wantv = texel(px, py, c)
                    goals.append(symx._bv(got) == symx._bv(wantv))
        res, model = symx.prove(rng, z3.And(goals), 60000)
        items.append({"q": f"scale_down {sw}x{sh}->{w}x{h} {filt.name}", "r": {"holds": "unsat", "cex": "sat"}.get(res, res)})
        if res == "cex" and fail is None:
            fail = {"query": f"scale_down {filt.name}", "goal": "", "model": {f"s{i}": symx.model_value(model, v) for i, v in enumerate(vars_)},
                    }
        elif res == "unknown":
            unknown.append(filt.name)
        ov = list(symx.SymInt.OVERFLOW)
        if ov:
            s = symx.new_solver(30000)
            s.add(rng)
            s.add(z3.Or(ov))
            if symx.check(s) != "unsat":
                unknown.append(f"{filt.name}: 32-bit model not exact")
    st = symx.STATS
    verdict = "refuted" if fail else ("unknown" if unknown else "confirmed")
    return {"verdict": verdict, "queries": st["queries"], "solver_checks": st["queries"], "solver_s": round(st["seconds"], 3), "paths": len(items),
            "cex": (dict(fail["model"], _filter=fail["query"]) if fail else None), "failure": fail, "unknown_reasons": {u: 1 for u in unknown},
            "samples": [items[:3]], "wall_s": round(time.perf_counter() - t0, 3)}


def replay_scale_down(sw: int, sh: int, **cex):
    import array
    import srctools._py_vtf_readwrite as rw
    import srctools.vtf as vtf
    w, h = max(sw // 2, 1), max(sh // 2, 1)
    src = array.array("B", [int(cex.get(f"s{i}", 0)) & 255 for i in range(4 * sw * sh)])
    for filt in vtf.FilterMode:
        dest = array.array("B", bytes(4 * w * h))
        rw.scale_down(filt, sw, sh, w, h, src, dest)
        for y in range(h):
            for x in range(w):
                x0, y0 = (2 * x if sw != w else x), (2 * y if sh != h else y)
                x1, y1 = (x0 + 1 if sw != w else x0), (y0 + 1 if sh != h else y0)
                for c in range(4):
                    t = lambda px, py: src[4 * (sw * py + px) + c]
                    want = (t(x0, y0) + t(x1, y0) + t(x0, y1) + t(x1, y1)) // 4 if filt.value == 4 else \
                        t(*[(x0, y0), (x1, y0), (x0, y1), (x1, y1)][filt.value])
                    check(dest[4 * (w * y + x) + c] == want, f"scale_down {filt.name} wrong texel", (x, y, c), dest[4 * (w * y + x) + c], want)


# ---------------------------------------------------------------- pixel access bounds (E1)

def h_bounds(x: int, y: int, write: bool, w: int, h: int) -> None:
    """Frame[x, y]: IndexError iff (x, y) is outside the image, else exactly the pixel at 4*(y*w+x)."""
    import srctools.vtf as vtf
    assume(-3 <= x <= w + 2 and -3 <= y <= h + 2)
    fr = vtf.Frame(w, h)
    fr.load()
    for i in range(4 * w * h):
        fr._data[i] = (7 * i + 1) % 251
    before = list(fr._data)
    inside = 0 <= x < w and 0 <= y < h
    try:
        if write:
            fr[x, y] = (250, 251, 252, 253)
            got = None
        else:
            got = tuple(fr[x, y])
    except IndexError:
        check(not inside, "IndexError for a pixel inside the image", x, y)
        check(list(fr._data) == before, "buffer changed by a rejected access")
        return
    check(inside, "out-of-range pixel access was not rejected with IndexError", x, y, w, h)
    off = 4 * (y * w + x)
    if write:
        want = list(before)
        want[off:off + 4] = [250, 251, 252, 253]
        check(list(fr._data) == want, "write touched the wrong bytes", x, y)
    else:
        check(list(got) == before[off:off + 4], "read returned the wrong pixel", x, y, got)


def h_bounds_w(x: int, y: int, write: bool, w: int, h: int) -> None:
    h_bounds(x, y, write, w, h)
    raise Fail("reached")


# ---------------------------------------------------------------- sheet sequences (E1)

def h_sheet(version: int, clamp: bool, first: int, n: int, nframes: int) -> None:
    """SheetSequence.make_data -> from_resource for n sequences numbered first.. (n, version, clamp, frame count symbolic)."""
    import srctools.vtf as vtf
    assume(0 <= version <= 1 and 0 <= first <= 1)
    tc = vtf.TexCoord(0.0, 0.25, 0.5, 1.0)
    tc2 = vtf.TexCoord(0.125, 0.0, 1.0, 0.75)
    clamp = True if clamp else False       # fork: struct's '?' code needs a real bool
    seqs = {}
    k = 0
    while k < n:
        seqs[first + k] = vtf.SheetSequence([(0.5 + j, tc, tc2, tc, tc2) for j in range(nframes)], clamp, 2.0)
        k += 1
    legal = n <= vtf.SheetSequence.MAX_COUNT and all(0 <= s < vtf.SheetSequence.MAX_COUNT for s in seqs)
    data = vtf.SheetSequence.make_data(seqs, version)
    try:
        back = vtf.SheetSequence.from_resource(data)
    except ValueError:
        check(not legal, "a legal sheet (<= 64 sequences numbered 0..63) is rejected on read", n, first)
        return
    check(legal, "an illegal sheet was accepted", n, first)
    check(list(back) == list(seqs), "sequence numbers / order", list(back))
    for s in seqs:
        a, b = seqs[s], back[s]
        check(b.clamp == a.clamp and b.duration == a.duration and len(b.frames) == len(a.frames), "sequence header", s)
        for fa, fb in zip(a.frames, b.frames):
            check(fb[0] == fa[0] and fb[1] == fa[1], "frame data", s)
            if version == 1:
                check(tuple(fb) == tuple(fa), "frame data (4 coords)", s)
            else:
                check(fb[2] == fa[1] and fb[3] == fa[1] and fb[4] == fa[1], "version 0 repeats the single coord", s)


def h_sheet_w(version: int, clamp: bool, first: int, n: int, nframes: int) -> None:
    h_sheet(version, clamp, first, n, nframes)
    raise Fail("reached")


# ---------------------------------------------------------------- file structure (E1; structure chosen by symbolic index, pixels concrete)

SIZES = [1, 2, 4, 8]
VERSIONS = [2, 3, 4, 5]


def h_structure(wi: int, hi: int, frames: int, depth: int, vi: int, cube: bool, res: bool, fmt: str) -> None:
    """VTF.save -> VTF.read reproduces header fields, the declared frame table and every frame's pixels (8-bit format)."""
    import io
    import srctools.vtf as vtf
    from vf.props.c08 import pick
    w, h = pick(SIZES, wi), pick(SIZES, hi)
    minor = pick(VERSIONS, vi)
    assume(1 <= frames <= 2 and 1 <= depth <= 2)
    if cube:
        assume(depth == 1 and w == h)
    flags = vtf.VTFFlags.ENVMAP if cube else vtf.VTFFlags.EMPTY
    if frames == 2:
        flags |= vtf.VTFFlags.ANISOTROPIC
    v = vtf.VTF(w, h, version=(7, minor), frames=frames, depth=depth, flags=flags, fmt=vtf.ImageFormats[fmt], thumb_fmt=vtf.ImageFormats.NONE,
                ref=(0.25, 0.5, 0.75), bump_scale=1.5)
    if res and minor >= 3:
        v.resources[b"ABC"] = vtf.Resource(0, b"payload")
        v.resources[vtf.ResourceID.LOD_SETTINGS] = vtf.Resource(0, 0x0403)
    want = {}
    n = 0
    for key, fr in sorted(v._frames.items(), key=lambda kv: (kv[0][0], getattr(kv[0][1], 'value', kv[0][1]), kv[0][2])):
        n += 1
        if key[2] >= max(v.mipmap_count, 0):
            continue
        fr.load()
        for i in range(0, len(fr._data), 4):
            # concrete, distinct per frame, and already a fixed point of the format's quantisation
            px = _expected_concrete(fmt.lower(), (n * 37 + i * 11 + 5) % 256, (n * 53 + i * 7 + 1) % 256, (n * 29 + i * 13 + 2) % 256, (n * 17 + i * 3 + 200) % 256)
            for k in range(4):
                fr._data[i + k] = px[k]
        want[key] = bytes(fr._data)
    buf = io.BytesIO()
    v.save(buf)
    buf.seek(0)
    v2 = vtf.VTF.read(buf)
    v2.load()
    check((v2.width, v2.height, v2.depth, v2.frame_count, v2.mipmap_count) == (w, h, depth, frames, v.mipmap_count), "header dimensions",
          (v2.width, v2.height, v2.depth, v2.frame_count, v2.mipmap_count))
    check(v2.version == (7, minor) and v2.flags == v.flags and v2.format is v.format and v2.low_format is v.low_format, "version/flags/formats")
    check(tuple(v2.reflectivity) == (0.25, 0.5, 0.75) and v2.bumpmap_scale == 1.5, "reflectivity / bump scale")
    check(v2.mipmap_count >= 1, "a texture was saved without any image (mipmap_count == 0)", w, h)
    check(set(v2._frames) == set(want), "frame table differs", sorted(map(str, v2._frames)), sorted(map(str, want)))
    for key, px in want.items():
        check(bytes(v2._frames[key]._data) == px, "pixels differ in frame", str(key))
    if res and minor >= 3:
        check(list(v2.resources) == list(v.resources), "resource ids / order", list(v2.resources))
        for k in v.resources:
            check(v2.resources[k].data == v.resources[k].data, "resource data", k)
    out2 = io.BytesIO()
    v2.save(out2)
    check(out2.getvalue() == buf.getvalue(), "saving the re-read file changes bytes")
    # the same without load(): frames are still backed by the file when save() runs
    v3 = vtf.VTF.read(io.BytesIO(buf.getvalue()))
    out3 = io.BytesIO()
    v3.save(out3)
    check(out3.getvalue() == buf.getvalue(), "saving a freshly read (not loaded) file changes bytes")


def h_mipmaps(wi: int, hi: int, vi: int, cube: bool, frames: int, depth: int) -> None:
    """compute_mipmaps(): every generated level of every frame / face / depth slice has the halved dimensions (min 1) and is
    the floor-average of its parent (bilinear), written independently here."""
    import srctools.vtf as vtf
    from vf.props.c08 import pick
    w, h = pick(SIZES, wi), pick(SIZES, hi)
    minor = pick(VERSIONS, vi)
    assume(1 <= frames <= 2 and 1 <= depth <= 2)
    if cube:
        assume(depth == 1 and w == h)
    v = vtf.VTF(w, h, version=(7, minor), frames=frames, depth=depth, flags=vtf.VTFFlags.ENVMAP if cube else vtf.VTFFlags.EMPTY,
                fmt=vtf.ImageFormats.RGBA8888, thumb_fmt=vtf.ImageFormats.NONE)
    levels = sorted({k[2] for k in v._frames})
    n = 0
    for key, fr in v._frames.items():
        if key[2] == 0:
            n += 1
            fr.load()
            for i in range(len(fr._data)):
                fr._data[i] = (n * 41 + i * 13 + 7) % 256
    v.compute_mipmaps()
    for (f, side, mip), fr in v._frames.items():
        if mip == 0 or mip >= max(v.mipmap_count, 1):
            continue
        par = v._frames[f, side, mip - 1]
        check(fr.width == max(par.width // 2, 1) and fr.height == max(par.height // 2, 1), "mipmap dimensions", (f, str(side), mip))
        check(fr._data is not None, "mipmap was not generated", (f, str(side), mip))
        for y in range(fr.height):
            for x in range(fr.width):
                x0, y0 = (2 * x if par.width != fr.width else x), (2 * y if par.height != fr.height else y)
                x1, y1 = (x0 + 1 if par.width != fr.width else x0), (y0 + 1 if par.height != fr.height else y0)
                for c in range(4):
                    t = lambda px, py: par._data[4 * (par.width * py + px) + c]
                    want = (t(x0, y0) + t(x1, y0) + t(x0, y1) + t(x1, y1)) // 4
                    check(fr._data[4 * (fr.width * y + x) + c] == want, "generated mipmap is not the average of its parent", (f, str(side), mip, x, y, c))


def h_mipmaps_w(wi: int, hi: int, vi: int, cube: bool, frames: int, depth: int) -> None:
    h_mipmaps(wi, hi, vi, cube, frames, depth)
    raise Fail("reached")


def h_header(ffi: int, lod: int, rflags: int, vi: int) -> None:
    """Header and resource integers as solver variables: first frame index (16 bit), an integer resource value (32 bit) and
    its flag byte survive save -> read exactly for every value; a second save is byte-identical."""
    import srctools.vtf as vtf
    from vf.props.c08 import pick
    from vf.stubs import binio
    minor = pick([3, 4, 5], vi)
    assume(0 <= ffi <= 0xFFFF and 0 <= lod <= 0xFFFFFFFF and 0 <= rflags <= 0xFF)
    v = vtf.VTF(4, 4, version=(7, minor), fmt=vtf.ImageFormats.RGBA8888, thumb_fmt=vtf.ImageFormats.NONE)
    v.first_frame_index = ffi
    v.resources[vtf.ResourceID.LOD_SETTINGS] = vtf.Resource(rflags | 0x02, lod)
    v.resources[b"XYZ"] = vtf.Resource(rflags & 0xFD, b"payload!")      # stored out of line: every flag bit but 'no data'
    f = binio.ModelBytesIO() if _TRACED else __import__("io").BytesIO()
    v.save(f)
    first = f.getvalue()
    f.seek(0)
    v2 = vtf.VTF.read(f)
    v2.load()
    check(v2.first_frame_index == ffi, "first frame index", v2.first_frame_index)
    r = v2.resources.get(vtf.ResourceID.LOD_SETTINGS)
    check(r is not None and r.data == lod, "integer resource value", None if r is None else r.data)
    check(r.flags == (rflags | 0x02), "resource flag byte", r.flags)
    rb = v2.resources.get(b"XYZ")
    check(rb is not None and rb.data == b"payload!", "out-of-line resource data", None if rb is None else rb.data)
    check(rb.flags == (rflags & 0xFD), "out-of-line resource flag byte", rb.flags)
    g = binio.ModelBytesIO() if _TRACED else __import__("io").BytesIO()
    v2.save(g)
    check(g.getvalue() == first, "second save differs")


def h_header_w(ffi: int, lod: int, rflags: int, vi: int) -> None:
    h_header(ffi, lod, rflags, vi)
    raise Fail("reached")


def h_structure_w(wi: int, hi: int, frames: int, depth: int, vi: int, cube: bool, res: bool, fmt: str) -> None:
    h_structure(wi, hi, frames, depth, vi, cube, res, fmt)
    raise Fail("reached")


def obligations(tier):
    obls = [
        Obl("codec", MOD, "o_codec", engine="call", slices=[{"fmt": f} for f in FORMATS], budget_s=600, replay="replay_codec",
            desc="per format: load(save(p)) == documented quantisation, re-saving is the identity, bytes in range, for all pixel values",
            bound="2x1 image, all 2^64 channel combinations"),
        Obl("scale_down", MOD, "o_scale_down", engine="call", slices=[{"sw": 2, "sh": 2}, {"sw": 2, "sh": 1}, {"sw": 1, "sh": 2}, {"sw": 4, "sh": 2}],
            budget_s=600, replay="replay_scale_down", desc="mipmap kernel: halved dimensions, floor(sum/4) average, nearest modes pick the documented texel",
            bound="all channel values"),
        Obl("bounds", MOD, "h_bounds", slices=[{"w": w, "h": h} for w, h in ((1, 1), (2, 1), (1, 2), (2, 2), (4, 2))], budget_s=600, per_path_s=60,
            desc="Frame[x,y] get/set: IndexError iff outside, else exactly that pixel", bound="x,y within 3 of the image"),
        Obl("bounds.witness", MOD, "h_bounds_w", slices=[{"w": 2, "h": 2}], budget_s=120, witness=True),
        Obl("sheet", MOD, "h_sheet", slices=[{"n": n, "nframes": f} for n in (0, 1, 2) for f in (0, 1, 2)] + [{"n": n, "nframes": 0} for n in ((63, 64, 65) if tier == "quick" else (31, 32, 62, 63, 64, 65))],
            budget_s=900, per_path_s=120, desc="SheetSequence make_data/from_resource; version, clamp, frame count, numbering symbolic",
            bound="sequence count per slice (boundary values around MAX_COUNT = 64), <= 2 frames"),
        Obl("sheet.witness", MOD, "h_sheet_w", slices=[{"n": 2, "nframes": 1}], budget_s=300, per_path_s=120, witness=True),
        Obl("structure", MOD, "h_structure", slices=[{"fmt": f} for f in (("RGBA8888", "BGR888") if tier == "quick" else ("RGBA8888", "BGR888", "ABGR8888", "IA88", "UV88"))],
            budget_s=1500, per_path_s=120, desc="VTF.save/read: header, frame table, pixels, resources; second save identical",
            bound="sizes 1..8, frames/depth <= 2, cubemaps, versions 7.2-7.5 (by index); concrete pixels"),
        Obl("mipmaps", MOD, "h_mipmaps", budget_s=1500, per_path_s=120,
            desc="compute_mipmaps over every frame / cubemap face (incl. the sphere map before 7.5) / depth slice: halved dimensions, average of parent",
            bound="sizes 1..8, frames/depth <= 2, cubemaps, versions 7.2-7.5 by index; concrete pixels"),
        Obl("mipmaps.witness", MOD, "h_mipmaps_w", budget_s=300, per_path_s=120, witness=True),
        Obl("header", MOD, "h_header", budget_s=900, per_path_s=120,
            desc="first frame index, an integer resource value and the flag bytes of an inline and an out-of-line resource as solver variables through save/read (versions 7.3-7.5)",
            bound="all 16-bit / 32-bit / 8-bit values"),
        Obl("header.witness", MOD, "h_header_w", budget_s=300, per_path_s=120, witness=True),
        Obl("structure.witness", MOD, "h_structure_w", slices=[{"fmt": "RGBA8888"}], budget_s=300, per_path_s=120, witness=True),
    ]
    return obls
