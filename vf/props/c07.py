"""C07 — VMF.by_class / VMF.by_target / VMF.search() always agree with a scan of the entities in the map.

E1 (CrossHair).  Every obligation runs the REAL VMF/Entity code.  The indexes are real dicts (hash => realisation), so every
string that reaches them is a concrete element of a small list chosen by a *symbolic index* through a fork (`pick`); operation
codes, the shape of the pre-state and the iteration step at which a mutation happens are solver-chosen integers.

(1) step     : pre-state built through the public API (subject entity: in the map via create_ent / via add_ents / unattached /
               removed / the worldspawn entity; class, name, key spelling by index; optional bystander with a colliding name),
               then 1 or 2 arbitrary public operations on the subject; the invariant is asserted after every operation.
(2) rename   : creation + renames through [] / update(), observed through search() only.
(3) iterate  : by_class[...] / by_target[...] / search() are iterated while one operation is applied at a solver-chosen step.
(4) parse    : VMF.parse of a document whose world block carries a foreign classname / a targetname.
(5) worldspawn_class : the map's own entity refuses every class but worldspawn and stays indexed (slices of (1) restricted to it).
"""
from __future__ import annotations

from vf.core import Obl
from vf.h import Fail, assume, check

MOD = "vf.props.c07"

NAMES = ["", "a", "A", "b", "ß", "SS"]          # index len(NAMES) == "no targetname key at all" where a pre-state is built
ABSENT = len(NAMES)
CLASSES = ["c", "C", "d", "", "a"]         # "a" is also a targetname of the vocabulary (a search term may match a name and a class)
CLS_ABSENT = len(CLASSES)                   # pre-state only: an Entity() built without any classname key
NSPELL = ["targetname", "TargetName"]
CSPELL = ["classname", "ClassName"]
BYSTANDER = [None, "a", "A", "ss", "", ABSENT]    # None: no bystander; ABSENT: bystander without a targetname key
QUERIES = ["a", "A", "b", "B", "ss", "SS", "ß", "c", "C", "d", "D", "worldspawn", "WorldSpawn", "info_null", "p", "p1", "a1", "A1"]
WILD = ["*", "a*", "A*", "s*", "ß*", "p*"]

META = {
    "level": "model_checking",
    "functions": ["srctools.vmf:VMF.__init__", "srctools.vmf:VMF.add_ent", "srctools.vmf:VMF.add_ents", "srctools.vmf:VMF.remove_ent",
                  "srctools.vmf:VMF.create_ent", "srctools.vmf:VMF.search", "srctools.vmf:VMF.parse", "srctools.vmf:_remove_copyset",
                  "srctools.vmf:CopySet.__iter__", "srctools.vmf:Entity.__init__", "srctools.vmf:Entity.__setitem__",
                  "srctools.vmf:Entity.__delitem__", "srctools.vmf:Entity.__getitem__", "srctools.vmf:Entity.pop", "srctools.vmf:Entity.clear",
                  "srctools.vmf:Entity.make_unique", "srctools.vmf:Entity.remove", "srctools.vmf:Entity.copy"],
    "bounds": "names by index from ['', 'a', 'A', 'b', 'ß', 'SS'] (+ key absent), classes from ['c', 'C', 'd', '', 'a'] (+ no classname key on a hand-built Entity, + 'worldspawn' for the "
              "map's own entity), key spellings targetname|TargetName, classname|ClassName; pre-state = one subject entity (5 ways of "
              "being in / out of the map) + at most one bystander; 1 operation (quick) / 2 operations (thorough) out of 22 kinds; "
              "iteration: 3 members, mutation at a solver-chosen step; observed with 18 exact and 6 wildcard search strings",
    "outside": "adding the same entity object twice / adding an entity created for another VMF (documented misuse); direct writes to "
               "by_class/by_target/entities/_keys; maps with more than three entities; names outside the list (the code only "
               "casefolds and compares names, so other names behave like the representatives); iterating the index *dicts* (not the "
               "sets) while mutating; case-insensitive uniqueness of the names produced by make_unique (not part of C07)",
    "stubs": ["srctools.vmf.intern -> identity", "srctools.vmf.frozenset -> real frozenset of the set's table, untraced (CopySet.__iter__)"],
    "trusted_base": ["crosshair-tool 0.0.110", "z3", "vf/chx.py"],
    "assumptions": ["the worldspawn entity counts as 'in the map' for both indexes (VMF.__init__ and VMF.parse put it there)",
                    "an index may hold empty sets and extra keys as long as every member of by_x[k] is a live entity matching k "
                    "case-insensitively and every live entity is found under the casefolded key (None for no name)"],
    "explanation": "Operation codes and names are small enumerations chosen by solver variables, so most paths are single concrete runs: "
                   "the solver's contribution is the exhaustion of the product space, not arithmetic reasoning (enumeration in solver clothing).",
}


def setup(engine):
    _ENGINE[0] = engine
    if engine == "chx":
        from vf.stubs.common import stub_intern
        from vf.stubs.vmfstubs import stub_copyset
        stub_intern()
        stub_copyset()


def pick(lst, idx):
    """Concrete element chosen by a symbolic index (forks one path per element; keeps hashed values concrete).
    Every index outside 0..len-2 selects the last element, so no path is wasted on an out-of-range index."""
    for k in range(len(lst) - 1):
        if idx == k:
            return lst[k]
    return lst[-1]


_ENGINE = [""]


def _untraced(fn, *a):
    """Evaluate the oracle natively: at that point every value is concrete (names/ops were picked), so tracing adds nothing."""
    if _ENGINE[0] == "chx":
        from crosshair.tracers import NoTracing
        with NoTracing():
            return fn(*a)
    return fn(*a)


# ---------------------------------------------------------------- the invariant (definition: scan of entities + worldspawn)

def _fold_name(s):
    return s.casefold() or None


def _live(v):
    out = [v.spawn]
    for e in v.entities:
        if not any(e is x for x in out):
            out.append(e)
    return out


def _members(s):
    return list(set.__iter__(s))


def _inv(v, where, obs="all"):
    _untraced(_inv_body, v, where, obs)


def _inv_body(v, where, obs):
    live = _live(v)
    spawn = v.spawn
    check(spawn["classname"].casefold() == "worldspawn", f"{where}: worldspawn has classname", spawn["classname"])
    if obs in ("all", "index"):
        for label, mapping, attr, fold in (("by_class", v.by_class, "classname", str.casefold), ("by_target", v.by_target, "targetname", _fold_name)):
            # soundness: nothing stale, nothing under a key it does not match
            for key, ents in list(mapping.items()):
                for e in _members(ents):
                    check(any(e is x for x in live), f"{where}: {label}[{key!r}] still holds an entity that is not in the map", repr(e))
                    cur = fold(e[attr])
                    want = fold(key) if key is not None else None
                    check(cur == want, f"{where}: {label}[{key!r}] holds an entity whose current {attr} is", e[attr])
            # completeness: every entity in the map is found under its casefolded key
            for e in live:
                key = fold(e[attr])
                got = mapping.get(key)
                check(got is not None and any(e is x for x in _members(got)),
                      f"{where}: entity in the map with {attr}={e[attr]!r} is missing from {label}[{key!r}]", repr(e))
        check(any(spawn is x for x in _members(v.by_class.get("worldspawn", ()))), f"{where}: worldspawn missing from by_class['worldspawn']")
    if obs in ("all", "search"):
        for q in QUERIES:
            qf = q.casefold()
            want = [e for e in live if (e["targetname"] != "" and e["targetname"].casefold() == qf) or e["classname"].casefold() == qf]
            got = list(v.search(q))
            _same(got, want, f"{where}: search({q!r})")
        for q in WILD:
            qf = q[:-1].casefold()
            want = [e for e in live if e["targetname"] != "" and e["targetname"].casefold().startswith(qf)]
            got = list(v.search(q))
            _same(got, want, f"{where}: search({q!r})")
        check(list(v.search("")) == [], f"{where}: search('') found something")


def _same(got, want, what):
    for e in got:
        check(any(e is x for x in want), f"{what} returned an entity that is not in the map / does not match", repr(e), e["targetname"], e["classname"])
    for e in want:
        check(any(e is x for x in got), f"{what} misses a matching entity of the map", repr(e), e["targetname"], e["classname"])


# ---------------------------------------------------------------- operations

#        name            argument   spelling?
OPS = [("set_name",      "name",    True),
       ("set_class",     "class",   True),
       ("update_name",   "name",    True),
       ("update_class",  "class",   False),
       ("del_name",      None,      True),
       ("del_tuple",     None,      False),
       ("del_class",     None,      False),
       ("pop_name",      None,      True),
       ("popitem",       None,      False),
       ("clear",         None,      False),
       ("make_unique",   "prefix",  False),
       ("remove",        None,      False),
       ("remove_ent",    None,      False),
       ("add_ent",       None,      False),
       ("add_ents",      None,      False),
       ("copy_add",      None,      False),
       ("copy_other",    None,      False),
       ("copy_from",     None,      False),
       ("create",        "name",    False),
       ("set_origin",    None,      False),
       ("readd",         None,      False),
       ("pop_class",     None,      False)]
OPNAMES = [o[0] for o in OPS]
PREFIXES = ["p", "a", "A"]


def _in_map(v, e):
    return any(e is x for x in v.entities)


def _apply(v, other, subj, opname, arg, sp):
    """One public-API operation on `subj`.  Documented exceptions are caught here; anything else is a violation."""
    import srctools.vmf as vmf
    is_spawn = subj is v.spawn
    if opname == "set_name":
        subj[NSPELL[sp]] = arg
    elif opname == "update_name":
        subj.update({NSPELL[sp]: arg})
    elif opname in ("set_class", "update_class"):
        must_raise = is_spawn and arg.casefold() != "worldspawn"
        try:
            if opname == "set_class":
                subj[CSPELL[sp]] = arg
            else:
                subj.update({"origin": "0 0 0", "classname": arg})
        except ValueError:
            check(must_raise, "ValueError from a classname change that is allowed")
        else:
            check(not must_raise, "worldspawn accepted another classname", arg)
    elif opname == "del_name":
        del subj[NSPELL[sp]]
        check(subj["targetname"] == "", "targetname survives del")
    elif opname == "del_tuple":
        del subj["origin", "targetname"]
    elif opname == "del_class":
        try:
            del subj["classname"]
        except KeyError:
            pass
        else:
            raise Fail("classname could be deleted")
    elif opname == "pop_name":
        subj.pop(NSPELL[sp])
        check(subj["targetname"] == "", "targetname survives pop")
    elif opname == "pop_class":
        try:
            subj.pop("classname")
        except KeyError:
            pass                  # refusing like `del` does is fine; silently succeeding must still keep the indexes right
    elif opname == "popitem":
        try:
            subj.popitem()
        except KeyError:
            pass                  # classname first: documented refusal
    elif opname == "clear":
        try:
            subj.clear()
        except ValueError:
            check(is_spawn, "clear() raised ValueError on an ordinary entity")   # worldspawn cannot become info_null
    elif opname == "make_unique":
        subj.make_unique(arg)
    elif opname == "remove":
        subj.remove()
        check(not _in_map(v, subj), "entity still in entities after remove()")
    elif opname == "remove_ent":
        v.remove_ent(subj)
        check(not _in_map(v, subj), "entity still in entities after remove_ent()")
    elif opname in ("add_ent", "add_ents"):
        assume(not is_spawn and not _in_map(v, subj))      # adding twice / adding worldspawn: documented misuse, outside the claim
        if opname == "add_ent":
            v.add_ent(subj)
        else:
            v.add_ents(iter([subj]))
        check(_in_map(v, subj), "entity not in entities after add")
    elif opname == "readd":
        assume(not is_spawn)
        subj.remove()
        v.add_ent(subj)
    elif opname == "copy_add":
        c = subj.copy()
        v.add_ent(c)
        check(c["targetname"] == subj["targetname"] and c["classname"] == subj["classname"], "copy differs")
    elif opname == "copy_other":
        c = subj.copy(vmf_file=other)
        other.add_ent(c)
    elif opname == "copy_from":
        src = [e for e in other.entities]
        c = src[0].copy(vmf_file=v)
        v.add_ent(c)
    elif opname == "create":
        v.create_ent("C", targetname=arg)
    elif opname == "set_origin":
        subj["origin"] = "1 2 3"
    else:
        raise RuntimeError(opname)


def _decode_op(o, a, s, classes):
    opname, kind, spell = pick(OPS, o)
    if kind == "name":
        arg = pick(NAMES, a)
    elif kind == "class":
        arg = pick(classes, a)
    elif kind == "prefix":
        arg = pick(PREFIXES, a)
    else:
        arg = None              # `a` is not looked at: no fork
    s = (1 if s == 1 else 0) if spell else 0
    return opname, arg, s


def _build(sk, sc, sn, ssp, by, kinds="", scs="", bys=""):
    """Pre-state through the public API.  sk: 0 create_ent, 1 unattached, 2 created then removed, 3 Entity() + add_ents, 4 worldspawn.
    kinds/scs/bys: concrete slice restrictions (digits of the allowed subject kinds / class indices / bystander indices)."""
    import srctools.vmf as vmf
    v = vmf.VMF()
    other = vmf.VMF()
    other.create_ent("D", targetname="A")
    kind = pick([0, 1, 2, 3, 4], sk)
    assume(not kinds or str(kind) in kinds)
    byi = pick(list(range(len(BYSTANDER))), by)
    assume(not bys or str(byi) in bys)
    byname = BYSTANDER[byi]
    if byname is not None:
        if byname == ABSENT:
            v.create_ent("c")
        else:
            v.create_ent("c", targetname=byname)
    if kind == 4:
        return v, other, v.spawn          # sc/sn/ssp are not looked at
    ci = pick(list(range(len(CLASSES) + 1)), sc)
    assume(not scs or str(ci) in scs)
    name = pick(NAMES + [ABSENT], sn)
    if ci == CLS_ABSENT:
        assume(kind != 0)       # create_ent always takes a class; Entity(vmf, keys=...) may come without one
        keys = {}
    else:
        keys = {CSPELL[0]: CLASSES[ci]}
    if name != ABSENT:
        keys[NSPELL[1 if ssp == 1 else 0]] = name
    if kind == 0:
        cls = keys.pop("classname")
        subj = v.create_ent(cls, **keys)
    else:
        subj = vmf.Entity(v, keys=keys)
        if kind == 2:
            v.add_ent(subj)
            v.remove_ent(subj)
        elif kind == 3:
            v.add_ents([subj])
    return v, other, subj


def h_step(sk: int, sc: int, sn: int, ssp: int, by: int, o0: int, a0: int, s0: int, o1: int, a1: int, s1: int,
           nops: int = 1, first: int = -1, second: int = -1, kinds: str = "", scs: str = "", bys: str = "", obs: str = "all") -> None:
    """Arbitrary API-built pre-state, then `nops` arbitrary operations on the subject; invariant after every step, in both maps."""
    if first >= 0:
        assume(o0 == first)
    if second >= 0:
        assume(o1 == second)
    v, other, subj = _build(sk, sc, sn, ssp, by, kinds, scs, bys)
    classes = CLASSES + ["worldspawn", "WorldSpawn"] if subj is v.spawn else CLASSES
    _inv(v, "pre-state", obs)
    raw = [(o0, a0, s0), (o1, a1, s1)]
    for k, (o, a, s) in enumerate(raw):
        if k >= nops:
            continue
        opname, arg, sp = _decode_op(o, a, s, classes)
        _apply(v, other, subj, opname, arg, sp)
        _inv(v, f"after step {k} {opname}({arg!r})", obs)
        _inv(other, f"other map after step {k} {opname}", obs)


def h_step_w(sk: int, sc: int, sn: int, ssp: int, by: int, o0: int, a0: int, s0: int, o1: int, a1: int, s1: int,
             nops: int = 1, first: int = -1, second: int = -1, kinds: str = "", scs: str = "", bys: str = "", obs: str = "all") -> None:
    h_step(sk, sc, sn, ssp, by, o0, a0, s0, o1, a1, s1, nops=nops, first=first, second=second, kinds=kinds, scs=scs, bys=bys, obs=obs)
    raise Fail("reached")


# ---------------------------------------------------------------- (2) renames observed through search()

def h_rename(r1: int, s1: int, r2: int, s2: int, upd: bool, by: int, n0: int = 0) -> None:
    """create_ent (name as the loader would store it: lower case or none) then two renames through [] or update() with any
    spelling and letter case; search() must find the entity under exactly its current name, case-insensitively."""
    import srctools.vmf as vmf
    v = vmf.VMF()
    byname = pick(BYSTANDER, by)
    if byname is not None:
        if byname == ABSENT:
            v.create_ent("c")
        else:
            v.create_ent("c", targetname=byname)
    first = pick(["a", "b", "ss", ABSENT], n0)
    e = v.create_ent("d") if first == ABSENT else v.create_ent("d", targetname=first)
    _inv(v, "after create_ent", "search")
    for step, (r, s) in enumerate(((r1, s1), (r2, s2))):
        name = pick(NAMES[1:], r)
        key = NSPELL[1 if s == 1 else 0]
        if upd:
            e.update({key: name})
        else:
            e[key] = name
        _inv(v, f"after rename {step} to {name!r}", "search")


def h_rename_w(r1: int, s1: int, r2: int, s2: int, upd: bool, by: int, n0: int = 0) -> None:
    h_rename(r1, s1, r2, s2, upd, by, n0=n0)
    raise Fail("reached")


# ---------------------------------------------------------------- (3) iteration while mutating

ITER_OPS = ["none", "remove", "reclass", "rename", "create", "join", "clear", "remove_next"]


def h_iterate(which: int, at: int, op: int, target: int) -> None:
    """Three members of one index set; the set (or search()) is iterated and, at step `at`, one operation hits member `target`
    (or adds a member).  No exception; every member of the set at the start is visited exactly once; nothing is visited twice;
    the indexes agree with the map afterwards."""
    import srctools.vmf as vmf
    v = vmf.VMF()
    ents = [v.create_ent("c", targetname="a") for _ in range(3)]
    outsider = v.create_ent("d", targetname="b")
    how = pick(["by_class", "by_target", "search_name", "search_class", "search_wild"], which)
    opname = pick(ITER_OPS, op)
    at = pick([0, 1, 2], at)
    target = pick([0, 1, 2], target)
    if how == "by_class":
        it = iter(v.by_class["c"])
    elif how == "by_target":
        it = iter(v.by_target["a"])
    elif how == "search_name":
        it = v.search("A")
    elif how == "search_class":
        it = v.search("C")
    else:
        it = v.search("a*")
    seen = []
    step = 0
    added = []
    for e in it:
        check(not any(e is x for x in seen), "iteration visited an entity twice", repr(e))
        seen.append(e)
        if step == at:
            t = ents[target]
            if opname == "remove":
                t.remove()
            elif opname == "reclass":
                t["classname"] = "d"
            elif opname == "rename":
                t["targetname"] = "b"
            elif opname == "create":
                added.append(v.create_ent("C", targetname="A"))
            elif opname == "join":
                outsider["classname"] = "c"
                outsider["targetname"] = "a"
                added.append(outsider)
            elif opname == "clear":
                t.clear()
            elif opname == "remove_next":
                for x in ents:
                    if not any(x is y for y in seen):
                        x.remove()
        step += 1
        check(step <= 6, "iteration does not terminate")
    for e in ents:
        check(any(e is x for x in seen), "a member present when the iteration began was not visited", repr(e))
    for e in seen:
        check(any(e is x for x in ents) or any(e is x for x in added), "iteration produced a foreign entity", repr(e))
    _inv(v, f"after iterating {how} with {opname}", "all")


def h_iterate_w(which: int, at: int, op: int, target: int) -> None:
    h_iterate(which, at, op, target)
    raise Fail("reached")


# ---------------------------------------------------------------- (4) parse

def h_parse(wc: int, wn: int, ec: int, en: int, esp: int) -> None:
    """VMF.parse: the world block may carry any classname / a targetname; one entity with class/name by index."""
    import srctools.vmf as vmf
    from srctools.keyvalues import Keyvalues
    wcls = pick(["worldspawn", "WorldSpawn", "c", ABSENT], wc)
    wname = pick(NAMES + [ABSENT], wn)
    ecls = pick(CLASSES + ["worldspawn", ABSENT], ec)
    ename = pick(NAMES + [ABSENT], en)
    world = [Keyvalues("id", "1")]
    if wcls != ABSENT:
        world.append(Keyvalues("classname", wcls))
    if wname != ABSENT:
        world.append(Keyvalues("targetname", wname))
    ent = [Keyvalues("id", "2")]
    if ecls != ABSENT:
        ent.append(Keyvalues(CSPELL[1 if esp == 1 else 0], ecls))
    if ename != ABSENT:
        ent.append(Keyvalues(NSPELL[1 if esp == 1 else 0], ename))
    tree = Keyvalues.root(Keyvalues("world", world), Keyvalues("entity", ent))
    v = vmf.VMF.parse(tree)
    check(len(v.entities) == 1, "entity lost in parse")
    _inv(v, "after parse", "all")
    v.entities[0]["classname"] = "d"
    _inv(v, "after parse + reclass", "all")
    v.entities[0].remove()
    _inv(v, "after parse + remove", "all")


# ---------------------------------------------------------------- obligations

def _idx(name):
    return OPNAMES.index(name)


STEP2_OPS = ["set_name", "set_class", "del_name", "del_class", "pop_name", "pop_class", "popitem", "clear", "make_unique", "remove",
             "remove_ent", "add_ent", "add_ents", "copy_add", "readd", "del_tuple"]


def obligations(tier):
    quick = tier == "quick"
    pre = {"scs": "1345", "bys": "023"} if quick else {}
    nops1 = [dict({"nops": 1, "first": k}, **pre) for k in range(len(OPS))]
    obls = [
        Obl("step1", MOD, "h_step", slices=nops1, budget_s=1500, per_path_s=60,
            desc="API-built pre-state (5 subject kinds x class x name x key spelling x bystander) + one arbitrary operation: "
                 "by_class/by_target sound and complete, search() == scan, worldspawn pinned",
            bound="1 operation, sliced by operation kind" + ("; subject class in {'C','','a',no key}, bystander in {none,'A','ss'}" if quick else "")),
        Obl("step1.witness", MOD, "h_step_w", slices=[dict({"nops": 1, "first": _idx("set_name")}, **pre)], budget_s=120, per_path_s=60, witness=True),
        Obl("worldspawn_class", MOD, "h_step", slices=[{"nops": 1, "first": _idx(o), "kinds": "4"} for o in ("set_class", "update_class", "del_class")],
            budget_s=300, per_path_s=60,
            desc="the map's own entity: a classname other than worldspawn (any case/spelling, via [] or update()) is refused with ValueError, "
                 "the keyvalue is unchanged and the entity is still listed under by_class['worldspawn'] / found by search('worldspawn')"),
        Obl("rename_search", MOD, "h_rename", slices=[{"n0": k} for k in range(4)], budget_s=600, per_path_s=60,
            desc="create_ent + two renames through []/update(), any spelling and case: search() finds the entity under its current name only"),
        Obl("rename_search.witness", MOD, "h_rename_w", slices=[{"n0": 0}], budget_s=120, per_path_s=60, witness=True),
        Obl("iterate", MOD, "h_iterate", slices=[{"which": w} for w in range(5)], budget_s=600, per_path_s=60,
            desc="index sets and search() iterated while one operation happens at a solver-chosen step"),
        Obl("iterate.witness", MOD, "h_iterate_w", slices=[{"which": 0}], budget_s=120, per_path_s=60, witness=True),
        Obl("parse", MOD, "h_parse", budget_s=600, per_path_s=60, desc="VMF.parse: world block with foreign classname / targetname; entity by index"),
    ]
    if not quick:
        # two operations; subject created in the map (class 'C') or worldspawn; bystander none or 'A'; update()/create/copies between
        # maps/set_origin are left to step1 (update() is a loop over __setitem__)
        sl = [{"nops": 2, "first": _idx(a), "second": _idx(b), "kinds": "04", "scs": "1", "bys": "02"} for a in STEP2_OPS for b in STEP2_OPS]
        obls.append(Obl("step2", MOD, "h_step", slices=sl, budget_s=1500, per_path_s=60,
                        desc="pre-states with the subject in the map / worldspawn + two arbitrary operations", bound="2 operations, sliced by both kinds"))
    return obls
